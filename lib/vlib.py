"""Shared machinery for the /verif checks: TLC runner, harness builder, evidence
writer, known-finding classification and the verdict protocol.

Exit codes (DESIGN.md section 5): 0 held / only known findings, 1 VIOLATION, 2 infrastructure.
"""
import json, os, re, shutil, subprocess, sys, time, hashlib, tempfile

ROOT = os.path.dirname(os.path.dirname(os.path.abspath(__file__)))
BUILD = os.path.join(ROOT, ".build")
SPEC = os.path.join(ROOT, "spec")
HARNESS = os.path.join(ROOT, "harness")
EVID = os.environ.get("VERIF_EVID", os.path.join(ROOT, "evidence"))
REPLAYS = os.environ.get("VERIF_REPLAYS", os.path.join(ROOT, "replays"))
REPO = os.environ.get("VERIF_REPO", "/repo")
NCPU = os.cpu_count() or 4


class Infra(Exception):
    """Infrastructure failure: never a verdict about the code (exit 2)."""


def goenv():
    e = dict(os.environ)
    e["GOFLAGS"] = "-mod=mod"
    e["GOPROXY"] = "off"
    e.pop("GOSUMDB", None)          # GOSUMDB=off breaks the cached-toolchain switch
    e["GOTOOLCHAIN"] = "auto"
    e["VERIF_REPO"] = REPO
    return e


def log(*a):
    print(*a, flush=True)


def build_harness(race=False):
    """go build -tags verif of the harness against REPO's working tree (incremental)."""
    os.makedirs(BUILD, exist_ok=True)
    out = os.path.join(BUILD, "harness-race" if race else "harness")
    cmd = ["go", "build", "-tags", "verif"]
    if REPO != "/repo":
        # a scratch copy of the repository: its own go.mod (via -modfile) and its own binary
        tag = hashlib.sha1(REPO.encode()).hexdigest()[:8]
        moddir = os.path.join(BUILD, "mod-" + tag)
        subprocess.run([os.path.join(ROOT, "lib", "mkgomod.sh"), moddir], check=True, env=goenv())
        cmd += ["-modfile", os.path.join(moddir, "go.mod")]
        out += "-" + tag
    else:
        subprocess.run([os.path.join(ROOT, "lib", "mkgomod.sh")], check=True, env=goenv())
    cmd += ["-o", out]
    if race:
        cmd.append("-race")
    cmd.append("./cmd/harness")
    t0 = time.time()
    p = subprocess.run(cmd, cwd=HARNESS, env=goenv(), stdout=subprocess.PIPE, stderr=subprocess.STDOUT, text=True)
    if p.returncode != 0:
        raise Infra("harness build failed:\n" + p.stdout[-4000:])
    log("[build] harness%s ok (%.1fs)" % (" -race" if race else "", time.time() - t0))
    return out


class TLCResult:
    def __init__(self):
        self.ok = False
        self.generated = 0
        self.distinct = 0
        self.depth = 0
        self.violated = None      # name of violated invariant/property, or "deadlock", "assert"
        self.out = ""
        self.wall = 0.0
        self.workdir = None
        self.cmd = ""
        self.postcondition_failed = False

    def __repr__(self):
        return "TLC(ok=%s gen=%d distinct=%d depth=%d violated=%s %.1fs)" % (
            self.ok, self.generated, self.distinct, self.depth, self.violated, self.wall)


def tlc(module, cfg, *, workers=None, timeout=900, simulate=None, depth=None, seed=None,
        env_extra=None, deadlock=False, extra=None, tag="run", heap=None, dfs=False, keep=False):
    """Run TLC on spec/<module>.tla with spec/<cfg> in a scratch copy of spec/.
    simulate: None for BFS, or an int N (behaviours per worker)."""
    workers = workers or min(NCPU, 16)
    wd = os.path.join(BUILD, "tlc", "%s-%s-%d" % (module, tag, os.getpid()))
    if os.path.exists(wd):
        shutil.rmtree(wd)
    os.makedirs(wd)
    for f in os.listdir(SPEC):
        if f.endswith(".tla") or f.endswith(".cfg"):
            shutil.copy(os.path.join(SPEC, f), wd)
    if isinstance(cfg, tuple):          # (name, text): a cfg instantiated from a template by the check
        with open(os.path.join(wd, cfg[0]), "w") as fh:
            fh.write(cfg[1])
        if os.environ.get("VERIF_SAVE_CFG"):
            # keep a copy under spec/cfg/ so that the model can be run by hand:  tlc -config cfg/<Module>__<name>.cfg <Module>.tla
            # (trace-validation configurations also need VERIF_TRACE=<trace file>; exports go to $VERIF_OUT, default the current directory)
            os.makedirs(os.path.join(SPEC, "cfg"), exist_ok=True)
            with open(os.path.join(SPEC, "cfg", "%s__%s__%s" % (module, tag, cfg[0])), "w") as fh:
                fh.write(cfg[1])
        cfg = cfg[0]
    e = dict(os.environ)
    e["VERIF_OUT"] = wd
    if env_extra:
        e.update({k: str(v) for k, v in env_extra.items()})
    jopts = []
    jopts.append("-Xmx" + (heap or "6g"))
    jopts.append("-XX:ParallelGCThreads=%d" % max(2, min(workers, 8)))
    jopts.append("-Xss256m")
    if dfs:
        jopts.append("-Dtlc2.tool.queue.IStateQueue=StateDeque")
    e["JAVA_TOOL_OPTIONS"] = " ".join(jopts)
    cmd = ["timeout", str(timeout), "tlc", "-workers", str(workers), "-metadir", os.path.join(wd, "meta"),
           "-config", cfg, "-noGenerateSpecTE"]
    if not deadlock:
        cmd.append("-deadlock")      # -deadlock DISABLES deadlock checking
    if simulate is not None:
        cmd += ["-simulate", "num=%d" % simulate]
        if depth:
            cmd += ["-depth", str(depth)]
    if seed is not None:
        cmd += ["-seed", str(seed)]
    if extra:
        cmd += extra
    cmd.append(module)
    r = TLCResult()
    r.cmd = " ".join(cmd)
    r.workdir = wd
    t0 = time.time()
    p = subprocess.run(cmd, cwd=wd, env=e, stdout=subprocess.PIPE, stderr=subprocess.STDOUT, text=True)
    r.wall = time.time() - t0
    r.out = p.stdout
    m = None
    for m in re.finditer(r"(\d+) states generated, (\d+) distinct states found", p.stdout):
        pass
    if m:
        r.generated, r.distinct = int(m.group(1)), int(m.group(2))
    m = re.search(r"The number of states generated: (\d+)", p.stdout)   # simulation mode
    if m and not r.generated:
        r.generated = int(m.group(1))
        r.distinct = r.generated
    m = re.search(r"depth of the complete state graph search is (\d+)", p.stdout)
    if m:
        r.depth = int(m.group(1))
    m = re.search(r"Error: Invariant (\S+) is violated", p.stdout)
    if m:
        r.violated = m.group(1)
    elif re.search(r"Error: Action property (\S+) is violated", p.stdout):
        r.violated = re.search(r"Error: Action property (\S+) is violated", p.stdout).group(1)
    elif re.search(r"Error: Temporal property (\S+) was violated", p.stdout):
        r.violated = re.search(r"Error: Temporal property (\S+) was violated", p.stdout).group(1)
    elif "Temporal properties were violated" in p.stdout:
        r.violated = "temporal"
    elif "Error: Deadlock reached" in p.stdout:
        r.violated = "deadlock"
    elif "Assumption" in p.stdout and "is false" in p.stdout:
        r.violated = "assumption"
    if "Error: Postcondition" in p.stdout or "POSTCONDITION" in p.stdout and "violated" in p.stdout:
        r.postcondition_failed = True
    finished = ("Model checking completed. No error has been found" in p.stdout) or \
               (simulate is not None and p.returncode in (0,) and "Error:" not in p.stdout)
    r.ok = finished and r.violated is None and not r.postcondition_failed
    if p.returncode == 124:
        raise Infra("TLC timeout after %ss: %s" % (timeout, r.cmd))
    if not r.ok and r.violated is None and not r.postcondition_failed:
        raise Infra("TLC failed (rc=%d): %s\n%s" % (p.returncode, r.cmd, p.stdout[-3000:]))
    if not keep and r.ok:
        shutil.rmtree(os.path.join(wd, "meta"), ignore_errors=True)
    return r


def tlc_parallel(jobs):
    """jobs: list of (name, kwargs for tlc()); runs them concurrently, returns {name: TLCResult}."""
    import concurrent.futures as cf
    out = {}
    with cf.ThreadPoolExecutor(max_workers=len(jobs)) as ex:
        futs = {ex.submit(lambda kw=kw: tlc(**kw)): name for name, kw in jobs}
        for f in cf.as_completed(futs):
            out[futs[f]] = f.result()
    return out


def cfg_text(constants, invariants, view=None, spec="Spec", properties=None, constraint=None, postcondition=None):
    t = "SPECIFICATION %s\nCONSTANTS\n" % spec
    for k, v in constants.items():
        if isinstance(v, bool):
            v = "TRUE" if v else "FALSE"
        if isinstance(v, str) and v.startswith("<-"):
            t += "  %s %s\n" % (k, v)
        else:
            t += "  %s = %s\n" % (k, v)
    if view:
        t += "VIEW %s\n" % view
    if constraint:
        t += "CONSTRAINT %s\n" % constraint
    if invariants:
        t += "INVARIANTS " + " ".join(invariants) + "\n"
    if properties:
        t += "PROPERTIES " + " ".join(properties) + "\n"
    if postcondition:
        t += "POSTCONDITION %s\n" % postcondition
    return t


def run_harness(binary, args, *, timeout=2400, env_extra=None, stdin=None):
    """Run a harness sub-command; it prints one JSON document (the report) on its last stdout line
    prefixed by 'REPORT '. Anything else on stdout/stderr is passed through as log."""
    e = goenv()
    if env_extra:
        e.update({k: str(v) for k, v in env_extra.items()})
    t0 = time.time()
    p = subprocess.run(["timeout", str(timeout), binary] + args, env=e, stdout=subprocess.PIPE,
                       stderr=subprocess.PIPE, text=True, input=stdin)
    rep = None
    for line in p.stdout.splitlines():
        if line.startswith("REPORT "):
            rep = json.loads(line[7:])
    if rep is None:
        raise Infra("harness %s produced no report (rc=%d)\nstdout:\n%s\nstderr:\n%s" % (
            " ".join(args), p.returncode, p.stdout[-3000:], p.stderr[-6000:]))
    rep["_wall"] = time.time() - t0
    rep["_stderr_tail"] = p.stderr[-2000:]
    return rep


def load_findings():
    p = os.path.join(ROOT, "known_findings.json")
    if not os.path.exists(p):
        return []
    return json.load(open(p))["findings"]


CURRENT = None      # the Check of this process (the runner turns to it when a later stage fails for infrastructure reasons)


class Check:
    """Collects what one check run covered and turns divergences into the verdict."""

    def __init__(self, pid, tier, seed, level):
        global CURRENT
        CURRENT = self
        self.pid, self.tier, self.seed, self.level = pid, tier, seed, level
        self.t0 = time.time()
        self.cov = {"states": 0, "transitions": 0, "traces_validated_against_impl": 0, "samples": [],
                    "evaluations": 0, "distinct_nontrivial": 0, "rule": "", "tlc_runs": []}
        self.assumptions = []
        self.divergences = []     # dicts with at least key, detail
        self.model_violations = []

    def add_tlc(self, name, r, note=""):
        self.cov["states"] += r.distinct
        self.cov["transitions"] += r.generated
        self.cov["tlc_runs"].append({"name": name, "cmd": r.cmd.replace(BUILD, ".build"), "distinct_states": r.distinct,
                                     "states_generated": r.generated, "depth": r.depth, "wall_s": round(r.wall, 2),
                                     "ok": r.ok, "violated": r.violated, "note": note})
        log("[tlc] %s: %r" % (name, r))
        if not r.ok:
            self.model_violations.append((name, r))

    def add_report(self, rep, traces_key="evaluations"):
        self.cov["evaluations"] += rep.get("evaluations", 0)
        self.cov["distinct_nontrivial"] += rep.get("distinct_nontrivial", 0)
        self.cov["traces_validated_against_impl"] += rep.get(traces_key, 0)
        for s in rep.get("samples", [])[:3]:
            if len(self.cov["samples"]) < 8:
                self.cov["samples"].append(s)
        for d in rep.get("divergences", []):
            self.divergences.append(d)
        for k, v in rep.get("extra", {}).items():
            self.cov[k] = v

    def finish(self):
        """Write evidence, print verdict lines, return exit code."""
        findings = [f for f in load_findings() if f["property"] == self.pid]
        open_keys = {f["key"]: f for f in findings if f.get("status") == "open"}
        known, unknown = {}, []
        for d in self.divergences:
            k = d.get("key", "")
            if k in open_keys:
                known.setdefault(k, []).append(d)
            else:
                unknown.append(d)
        rc = 0
        for k, ds in known.items():
            log("KNOWN-FINDING: property=%s %s (%d occurrence(s) this run)" % (self.pid, open_keys[k]["what"], len(ds)))
        if unknown:
            os.makedirs(REPLAYS, exist_ok=True)
            path = os.path.join(REPLAYS, "%s-%s-%d.json" % (self.pid, self.tier, int(time.time())))
            json.dump({"property": self.pid, "tier": self.tier, "seed": self.seed, "divergences": unknown[:50]},
                      open(path, "w"), indent=1)
            for d in unknown[:5]:
                log("[divergence] key=%s %s" % (d.get("key"), json.dumps(d)[:1500]))
            log("VIOLATION property=%s replay=%s" % (self.pid, path))
            rc = 1
        if self.model_violations and rc == 0:
            # A counterexample on the model alone is not a verdict about the code (DESIGN section 5).
            for name, r in self.model_violations:
                log("[model] TLC run %s reports %s; not reproduced on the code => infrastructure" % (name, r.violated))
                log(r.out[-3000:])
            rc = 2
        self.cov["known_findings_seen"] = sorted(known.keys())
        ev = {"property_id": self.pid, "tier": self.tier, "seed": int(self.seed), "level": self.level,
              "coverage": self.cov, "assumptions": self.assumptions, "wall_s": round(time.time() - self.t0, 2),
              "violations": len(unknown)}
        if not ev["coverage"]["samples"]:
            ev["coverage"]["samples"] = ["(no sample recorded)"]
        evdir = os.path.join(EVID, "extra") if self.pid.startswith("X") else EVID      # X..: coverage beyond the listed properties
        os.makedirs(evdir, exist_ok=True)
        tmp = os.path.join(evdir, self.pid + ".json.tmp")
        json.dump(ev, open(tmp, "w"), indent=1, sort_keys=True)
        os.replace(tmp, os.path.join(evdir, self.pid + ".json"))
        log("[done] %s tier=%s seed=%s rc=%d wall=%.1fs states=%d transitions=%d impl_cases=%d" % (
            self.pid, self.tier, self.seed, rc, time.time() - self.t0, self.cov["states"], self.cov["transitions"],
            self.cov["traces_validated_against_impl"]))
        return rc


def read_json(path):
    with open(path) as f:
        return json.load(f)


def read_ndjson(path):
    out = []
    with open(path) as f:
        for line in f:
            line = line.strip()
            if line:
                out.append(json.loads(line))
    return out
