#!/bin/sh
# Regenerate harness/go.mod + go.sum from the repo under test (VERIF_REPO, default /repo).
# The require blocks are copied verbatim so that -mod=mod never needs the network.
set -e
REPO="${VERIF_REPO:-/repo}"
H="$(cd "$(dirname "$0")/.." && pwd)/harness"
{
  echo "module verifharness"
  echo
  grep -E '^go [0-9]' "$REPO/go.mod"
  echo
  echo "require github.com/ipni/go-libipni v0.0.0"
  echo
  awk '/^require \(/{p=1} p{print} /^\)/{if(p){print ""};p=0}' "$REPO/go.mod"
  echo "replace github.com/ipni/go-libipni => $REPO"
} > "$H/go.mod.new"
if ! cmp -s "$H/go.mod.new" "$H/go.mod" 2>/dev/null; then mv "$H/go.mod.new" "$H/go.mod"; else rm "$H/go.mod.new"; fi
if ! cmp -s "$REPO/go.sum" "$H/go.sum" 2>/dev/null; then cp "$REPO/go.sum" "$H/go.sum"; fi
