#!/bin/sh
# Regenerate the harness go.mod + go.sum from the repo under test (VERIF_REPO, default /repo).
# The require blocks are copied verbatim so that -mod=mod never needs the network.
# $1 (optional): directory to write go.mod/go.sum into (default: the harness directory) -- used with
# `go build -modfile` when a check runs against a scratch copy of the repository.
set -e
REPO="${VERIF_REPO:-/repo}"
H="$(cd "$(dirname "$0")/.." && pwd)/harness"
OUT="${1:-$H}"
mkdir -p "$OUT"
{
  echo "module verifharness"
  echo
  grep -E '^go [0-9]' "$REPO/go.mod"
  echo
  echo "require github.com/ipni/go-libipni v0.0.0"
  echo
  awk '/^require \(/{p=1} p{print} /^\)/{if(p){print ""};p=0}' "$REPO/go.mod"
  echo "replace github.com/ipni/go-libipni => $REPO"
} > "$OUT/go.mod.new.$$"
if ! cmp -s "$OUT/go.mod.new.$$" "$OUT/go.mod" 2>/dev/null; then mv "$OUT/go.mod.new.$$" "$OUT/go.mod"; else rm "$OUT/go.mod.new.$$"; fi
if ! cmp -s "$REPO/go.sum" "$OUT/go.sum" 2>/dev/null; then cp "$REPO/go.sum" "$OUT/go.sum"; fi
