"""C06 -- provider cache converges to the freshest record across sources (spec/ProviderCache.tla).

TLC model-checks the declarative convergence / expiry / negative-entry rules against the
implementation-shaped model, exports one behaviour per terminal state, and the harness replays
each behaviour step by step on a real pcache.ProviderCache whose sources are gates (binding R)."""
import os, shutil
import vlib

INV = ["TypeOK", "HiBound", "Converged", "ExpiryRule", "MissRule", "SnapshotMatchesWrite", "UpdatesBounded",
       "NoRegress", "ReadersNeverBlocked", "ExportBehaviour"]


def consts(**kw):
    c = dict(SrcSeq="<- Src2", ProvSeq="<- Prov2", MaxVer=2, TTL=1, TickLen=2, MaxTicks=1, MaxCalls=3, MaxEnv=1,
             FIXED=True, EXPORT=True, InitFree=True, WithWaiter=True, MaxAuto=0, PREGHOST=False)
    c.update(kw)
    return c


QUICK = {
    # versions and source order, three calls, static environment
    "A-versions": consts(MaxEnv=0),
    # environment changes between the source fetches of one refresh, two calls
    "B-env": consts(MaxCalls=2, MaxEnv=1, MaxTicks=0),
    # appearance / disappearance / TTL expiry / negative entries, one version
    "C-expiry": consts(MaxVer=1),
    # one source, one provider, long histories: disappear / reappear / expire cycles (the removal timer must restart)
    # a lookup finds the refresh interval elapsed: the automatic refresh runs in its own goroutine, alone or behind another writer
    "E-auto": consts(MaxVer=1, MaxCalls=3, MaxEnv=1, MaxTicks=0, MaxAuto=1),
    # a publication's predecessor snapshot is part of the state: the same snapshot reached through an update that was still in the
    # update map and through one that had been merged (the rebuild of the main map must prefer the update map) are both replayed
    "F-merge": consts(SrcSeq="<- Src1", MaxVer=2, MaxCalls=3, MaxEnv=2, MaxTicks=0, WithWaiter=False, PREGHOST=True),
    "D-reappear": consts(SrcSeq="<- Src1", ProvSeq="<- Prov1", MaxVer=1, MaxCalls=5, MaxEnv=3, MaxTicks=1, WithWaiter=False, PREGHOST=True),
    # a provider whose newer record is still in the update map (the older one in the main map) disappears and expires: the removal
    # must leave a tombstone over the main map's record (four refreshes, two versions, one expiry)
    "G-stale": consts(SrcSeq="<- Src1", ProvSeq="<- Prov1", MaxVer=2, MaxCalls=4, MaxEnv=2, MaxTicks=1, WithWaiter=False, PREGHOST=True),
}
THOROUGH = {
    "T1-2x2": consts(MaxCalls=4, MaxEnv=1, MaxTicks=1),
    "T2-ttl3": consts(MaxVer=1, TTL=3, MaxTicks=2, MaxCalls=4, MaxEnv=1),
    "T3-3src": consts(SrcSeq="<- Src3", MaxVer=2, MaxCalls=2, MaxEnv=1, MaxTicks=0, WithWaiter=False),
    "T4-3prov": consts(ProvSeq="<- Prov3", MaxVer=1, MaxCalls=3, MaxEnv=1, MaxTicks=1, WithWaiter=False),
    "T6-auto": consts(MaxVer=2, MaxCalls=4, MaxEnv=1, MaxTicks=0, MaxAuto=2),
    "T7-merge": consts(ProvSeq="<- Prov3", MaxVer=2, MaxCalls=4, MaxEnv=3, MaxTicks=0, WithWaiter=False, PREGHOST=True, SrcSeq="<- Src1"),
    "T5-reappear": consts(SrcSeq="<- Src1", ProvSeq="<- Prov1", MaxVer=2, MaxCalls=7, MaxEnv=5, MaxTicks=3, WithWaiter=False),
}


# long random histories (TLC -simulate): three providers so that the merge threshold is crossed both ways
SIM = consts(ProvSeq="<- Prov3", MaxCalls=14, MaxEnv=10, MaxTicks=2, MaxAuto=2)
SIM1 = consts(SrcSeq="<- Src1", ProvSeq="<- Prov1", MaxVer=1, MaxCalls=10, MaxEnv=8, MaxTicks=2, WithWaiter=False)
SIM_NOTICK = consts(ProvSeq="<- Prov3", MaxCalls=14, MaxEnv=10, MaxTicks=0, MaxAuto=2)


def simulate(c, seed, num, tag):
    """num behaviours per worker x 4 workers from TLC's random simulation of the same spec."""
    return vlib.tlc("ProviderCacheMC", (tag + ".cfg", vlib.cfg_text(c, INV, view="view")), workers=4, simulate=num, depth=400,
                    seed=seed, timeout=3000, tag=tag)


def srcs_provs(c):
    s = {"<- Src1": "s1", "<- Src2": "s1,s2", "<- Src3": "s1,s2,s3"}[c["SrcSeq"]]
    p = {"<- Prov1": "p", "<- Prov2": "p,q", "<- Prov3": "p,q,r"}[c["ProvSeq"]]
    return s, p


def run(tier, seed, replay=None):
    ck = vlib.Check("C06", tier, seed, "model_checking")
    binary = vlib.build_harness()
    cfgs = QUICK if tier == "quick" else THOROUGH
    # 1. the model of the pinned Refresh must be refuted by TLC (non-vacuity of Converged)
    pinned = vlib.tlc("ProviderCacheMC", ("pinned.cfg", vlib.cfg_text(consts(FIXED=False, EXPORT=False, MaxCalls=2, MaxEnv=0, MaxTicks=0),
                      ["Converged"], view="view")), workers=4, timeout=600, tag="c06pinned")
    ck.cov["tlc_runs"].append({"name": "pinned Refresh (FIXED=FALSE) must violate Converged", "violated": pinned.violated,
                               "distinct_states": pinned.distinct})
    if pinned.violated != "Converged":
        raise vlib.Infra("model of the pinned Refresh no longer violates Converged")
    shutil.rmtree(pinned.workdir, ignore_errors=True)
    # 2. exhaustive model checking + behaviour export
    per = max(2, vlib.NCPU // len(cfgs))
    jobs = [(name, dict(module="ProviderCacheMC", cfg=(name + ".cfg", vlib.cfg_text(c, INV, view="view")), workers=per,
                        timeout=3000 if tier == "quick" else 14000, tag="c06" + name)) for name, c in cfgs.items()]
    res = vlib.tlc_parallel(jobs)
    for name, c in cfgs.items():
        r = res[name]
        ck.add_tlc("ProviderCache/" + name, r, "constants " + str({k: v for k, v in c.items() if k not in ("EXPORT",)}))
    # 2b. long random histories from TLC's simulator (seeded)
    sim = simulate(SIM, seed, 150 if tier == "quick" else 5000, "c06sim")
    ck.add_tlc("ProviderCache/simulate", sim, "random behaviours, 3 providers, 14 calls, 10 environment changes, 2 ticks; seed %d" % seed)
    cfgs = dict(cfgs)
    cfgs["simulate"] = SIM
    res["simulate"] = sim
    # many random histories of one provider at one source: the same cache state is reached along different paths
    # (disappear / reappear with the same record / expire), which the one-behaviour-per-state export does not replay
    sim1 = simulate(SIM1, seed + 7, 400 if tier == "quick" else 20000, "c06sim1")
    ck.add_tlc("ProviderCache/simulate-1x1", sim1, "random behaviours, 1 source x 1 provider, 10 calls, 8 environment changes, 2 ticks")
    cfgs["simulate-1x1"] = SIM1
    res["simulate-1x1"] = sim1
    # 3. replay every exported behaviour on the real cache
    for name, c in cfgs.items():
        r = res[name]
        if not r.ok:
            continue
        f = os.path.join(r.workdir, "c06_behaviours.ndjson")
        s, p = srcs_provs(c)
        def replay(unit_ms, procs):
            rep = vlib.run_harness(binary, ["c06", "-behaviours", f, "-srcs", s, "-provs", p, "-ttl", str(c["TTL"]),
                                            "-ticklen", str(c["TickLen"]), "-unit-ms", str(unit_ms), "-procs", str(procs)], timeout=7000)
            if rep.get("extra", {}).get("read_error") or rep.get("extra", {}).get("shards_failed"):
                raise vlib.Infra("replay of %s failed: %s" % (name, rep.get("extra")))
            vlib.log("[replay] %s: %d behaviours, %d inconclusive, %d divergences, extra=%s" % (
                name, rep["evaluations"], rep["inconclusive"], len(rep["divergences"]), rep.get("extra")))
            return rep
        rep = replay(10, 2 * vlib.NCPU)
        if rep["evaluations"] and rep["inconclusive"] > 0.05 * rep["evaluations"] and not rep["divergences"]:
            # the machine is busy: real-time TTL steps were disturbed; repeat with a coarser clock and fewer processes
            vlib.log("[replay] %s: timing disturbed, repeating with a 40 ms clock unit" % name)
            rep = replay(40, max(4, vlib.NCPU // 2))
        if rep["evaluations"] and rep["inconclusive"] > 0.3 * rep["evaluations"] and not rep["divergences"]:
            raise vlib.Infra("too many behaviours with disturbed timing (%d of %d)" % (rep["inconclusive"], rep["evaluations"]))
        ck.add_report(rep)
        ck.cov["inconclusive_" + name] = rep["inconclusive"]
        shutil.rmtree(r.workdir, ignore_errors=True)
        if rep["divergences"]:
            # the verdict is settled: the remaining configurations would only cost time (a change that makes calls hang costs a
            # watchdog period per behaviour)
            ck.cov["configurations_skipped_after_divergences"] = [n for n in cfgs if n not in ck.cov.get("replayed", []) and n != name]
            for n2, r2 in res.items():
                shutil.rmtree(r2.workdir, ignore_errors=True)
            break
        ck.cov.setdefault("replayed", []).append(name)
    ck.cov["rule"] = ("one behaviour per terminal state of the bounded model (BFS, history variable hidden by VIEW); each is replayed "
                      "step by step on a real ProviderCache with gated sources, comparing List(), Get results, Refresh results and "
                      "source-call counts after every step; non-trivial = contains at least one publication")
    ck.cov["exhaustive"] = True
    ck.assumptions += ["TTL steps use real time (10 ms per clock unit); behaviours whose timing was disturbed are re-run up to 5 times with a doubled clock unit each time and otherwise counted inconclusive",
                       "at most one call is parked on the writer lock at a time (Go leaves the wake-up order of several blocked senders open)"]
    return ck
