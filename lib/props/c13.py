"""C13 -- advertisements and entry chunks round-trip through IPLD with stable CIDs (spec/AdSchema.tla)."""
import os, shutil
import vlib


def run(tier, seed, replay=None):
    ck = vlib.Check("C13", tier, seed, "exploration")
    binary = vlib.build_harness()
    r = vlib.tlc("AdSchema", ("c13.cfg", vlib.cfg_text(dict(MaxList=2, EXPORT=True), ["RoundTrip", "Deterministic", "AbsentIsNotEmpty", "ExportCase"])), timeout=3000, tag="c13")
    ck.add_tlc("AdSchema", r, "enumeration of every advertisement / entry-chunk shape; store laws on the axiomatised codec")
    rep = vlib.run_harness(binary, ["c13", "-cases", os.path.join(r.workdir, "c13_cases.ndjson"), "-chunks", os.path.join(r.workdir, "c13_chunks.ndjson"),
                                    "-fuzz-every", "40" if tier == "quick" else "1", "-seed", str(seed)], timeout=7000)
    if rep.get("extra", {}).get("read_error") or (rep["inconclusive"] and not rep["divergences"]):
        raise vlib.Infra("c13 harness: %s" % rep.get("extra"))
    ck.add_report(rep)
    ck.cov["rule"] = ("one case per shape enumerated by TLC (optional previous link / extended providers / next link present or absent, 0..2 addresses and extended "
                      "providers each with 0..1 addresses, empty / short / maximal context ID (64) and metadata (1024), removal flag, entry lists of 0..3 "
                      "multihashes with mixed hash functions) x DAG-JSON / DAG-CBOR: ToNode, Store twice (same CID), distinct shapes give distinct CIDs, Load with "
                      "the typed and the generic prototype and BytesTo... compared field by field; every n-th encoding truncated at every offset and hit by 64 "
                      "seeded bit flips (error or re-encodable value, never a panic); non-trivial = has an optional part or entries")
    ck.cov["exhaustive"] = True
    ck.assumptions += ["equality is semantic: byte fields by content (nil = empty), lists by elements, only the three optional parts by presence",
                       "the model axiomatises the codecs (injective function of the value); byte-level decoding is explored by the sweeps, not decided by TLC"]
    shutil.rmtree(r.workdir, ignore_errors=True)
    return ck
