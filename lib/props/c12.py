"""C12 -- double-hash encryption round-trips, is deterministic, and fails closed (spec/DHash.tla)."""
import os, shutil
import vlib


def run(tier, seed, replay=None):
    ck = vlib.Check("C12", tier, seed, "model_checking")
    binary = vlib.build_harness()
    c = dict(Mhs='{"m1","m2"}', Pids='{"ed","rsa"}', Ctxs='{"c0","c1"}', Mds='{"mdA"}' if tier == "quick" else '{"mdA","mdB"}', FIXED=True, EXPORT=True)
    r = vlib.tlc("DHash", ("c12.cfg", vlib.cfg_text(c, ["FindExact", "FindSafe", "ExportCase"])), timeout=3000, tag="c12")
    ck.add_tlc("DHash", r, "primitive laws (ASSUME: round trip, determinism, injectivity, fails closed for every blob shape, value-key split) and the "
               "lookup protocol over every small index x queried multihash x store behaviour")
    p = vlib.tlc("DHash", ("c12p.cfg", vlib.cfg_text(dict(c, FIXED=False, EXPORT=False, Mds='{"mdA"}'), ["FindSafe"])), workers=4, timeout=900, tag="c12p")
    ck.cov["tlc_runs"].append({"name": "pinned DecryptValueKey (unchecked slice) must violate FindSafe", "violated": p.violated})
    if p.violated != "FindSafe":
        raise vlib.Infra("model of the pinned DecryptValueKey is no longer refuted")
    shutil.rmtree(p.workdir, ignore_errors=True)
    rep = vlib.run_harness(binary, ["c12", "-cases", os.path.join(r.workdir, "c12_cases.ndjson"), "-maxlen", "32" if tier == "quick" else "64",
                                    "-sweep-every", "3" if tier == "quick" else "1", "-http-every", "4" if tier == "quick" else "1"], timeout=7000)
    if rep.get("extra", {}).get("read_error") or (rep["inconclusive"] and not rep["divergences"]):
        raise vlib.Infra("c12 harness: %s" % rep.get("extra"))
    ck.add_report(rep)
    ck.cov["rule"] = ("one case per TLC state: index (multihash -> up to 2 provider/context/metadata records, identity- and sha256-hashed peer IDs, empty and "
                      "64-byte context IDs) x queried multihash x hostile-store behaviour (every blob shape for value keys and metadata, foreign blobs, missing "
                      "metadata), run through the real dhash functions and DHashClient.Find against an in-process store; plus primitive sweeps: payload lengths "
                      "0..32/64, four passphrases, every truncation length and every single-bit flip of nonce||ciphertext through DecryptValueKey and "
                      "DecryptMetadata, value keys for context IDs of 0..64 bytes, second hash")
    ck.cov["exhaustive"] = True
    ck.assumptions += ["AEAD authenticity and collision resistance are assumed (symbolic terms); the HTTP form of the store (dhstoreHTTP) is not exercised"]
    shutil.rmtree(r.workdir, ignore_errors=True)
    return ck
