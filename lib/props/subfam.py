"""Shared driver for the Subscriber properties C08 / C14 / C15: seeded random schedules of a real Subscriber under
the gate scheduler (harness c08), trace validation by TLC against SubscriberTrace.tla, model checking of Subscriber.tla."""
import glob, json, os, shutil
import vlib


def run_family(ck, binary, family, count, seed, strict, extra_args=()):
    wd = os.path.join(vlib.BUILD, "tlc", "sub-%s-%d" % (family, os.getpid()))
    shutil.rmtree(wd, ignore_errors=True)
    os.makedirs(wd)
    prefix = os.path.join(wd, "trace")
    rep = vlib.run_harness(binary, ["c08", "-trace-out", prefix, "-count", str(count), "-seed", str(seed), "-family", family] + list(extra_args), timeout=7000)
    if rep.get("extra", {}).get("read_error") or rep.get("extra", {}).get("shards_failed"):
        raise vlib.Infra("c08 harness (%s): %s" % (family, rep.get("extra")))
    vlib.log("[schedules] %s: %d scenarios, %d inconclusive, %d divergences, %s" % (family, rep["evaluations"], rep["inconclusive"],
                                                                                   len(rep["divergences"]), rep.get("extra")))
    if rep["evaluations"] and rep["inconclusive"] > 0.2 * rep["evaluations"] and not rep["divergences"]:
        raise vlib.Infra("too many inconclusive scenarios: " + str(rep["extra"].get("infra_example")))
    ck.add_report(rep)
    trace = os.path.join(wd, "all.ndjson")
    lines = []
    for f in sorted(glob.glob(prefix + ".*")):
        lines += open(f).read().splitlines()
    open(trace, "w").write("\n".join(lines) + "\n")
    if not lines:
        if rep["divergences"]:      # every run diverged (hung, ...) before completing: the verdict comes from the divergences
            return [], wd
        raise vlib.Infra("no trace recorded for family " + family)
    r = vlib.tlc("SubscriberTrace", "SubscriberTrace.cfg" if strict else "SubscriberTraceMixed.cfg", workers=1, timeout=3000,
                 env_extra={"VERIF_TRACE": trace}, tag="subtr" + family, heap="8g")
    ck.cov["tlc_runs"].append({"name": "trace validation " + family, "events": len(lines), "accepted": r.ok, "wall_s": round(r.wall, 1)})
    ck.cov["trace_events_validated"] = ck.cov.get("trace_events_validated", 0) + len(lines)
    vlib.log("[trace] %s: %d events, accepted=%s" % (family, len(lines), r.ok))
    if not r.ok:
        start = max(i for i in range(0, min(r.depth, len(lines))) if '"reset"' in lines[i])
        bad = json.loads(lines[r.depth - 1]) if 0 < r.depth <= len(lines) else {}
        ck.divergences.append({"key": "trace-rejected@" + str(bad.get("ev")), "detail": "event %d of the trace is not allowed by the specification: %s" % (r.depth, lines[r.depth - 1] if r.depth <= len(lines) else "?"),
                               "case": lines[start:r.depth]})
    shutil.rmtree(r.workdir, ignore_errors=True)
    return lines, wd


def scenarios(lines):
    cur = None
    for ln in lines:
        e = json.loads(ln)
        if e["ev"] == "reset":
            if cur:
                yield cur
            cur = []
        if cur is not None:
            cur.append(e)
    if cur:
        yield cur


def quiescence_findings(ck, lines):
    """Mixed runs (explicit syncs overlapping announce-triggered ones): evaluate the exactly-once / final-latest /
    notification-order clauses here and classify violations by structure (known findings F-C08-1..3)."""
    for sc in scenarios(lines):
        nads = sc[0]["c"]
        reported, latest, finals, order = {}, {}, {}, {}
        explicit_iv, sync_iv, open_iv = {}, {}, {}
        cur_latest, explicit_g, stale = {}, set(), set()
        for i, e in enumerate(sc):
            p = e["p"]
            if e["ev"] == "hook":
                reported.setdefault(p, []).append(e["c"])
            elif e["ev"] == "e.head":
                open_iv[e["g"]] = (p, i, True)
                explicit_g.add(e["g"])
            elif e["ev"] == "s.latestset":
                cur_latest[p] = (e["c"], e["g"] in explicit_g)
            elif e["ev"] == "g.took":
                open_iv[e["g"]] = (p, i, False)
                if p in cur_latest and cur_latest[p][1] and e["c"] < cur_latest[p][0]:
                    stale.add(p)      # an announcement older than what an explicit sync already recorded is acted on
            elif e["ev"] in ("e.recorded", "g.recorded", "g.failed", "g.exit", "env.explicit.ret") and e["g"] in open_iv:
                pp, st, ex = open_iv.pop(e["g"])
                (explicit_iv if ex else sync_iv).setdefault(pp, []).append((st, i))
            elif e["ev"] == "d.event":
                order.setdefault(p, []).append(e["c"])
            elif e["ev"] == "final.latest":
                finals[p] = (e["c"], e["n"])
        for p, (c, n) in finals.items():
            rep = reported.get(p, [])
            dup = [a for a in range(1, nads + 1) if rep.count(a) > 1]
            missing = [a for a in range(1, n + 1) if rep.count(a) == 0]
            regress = c != n
            unordered = order.get(p, []) != sorted(order.get(p, []))
            if not (dup or missing or regress or unordered):
                continue
            overlap = any(a < d and b > c2 for (a, b) in explicit_iv.get(p, []) for (c2, d) in sync_iv.get(p, []) + [x for x in explicit_iv.get(p, []) if x != (a, b)])
            what = "publisher %d: reported %s, latest %d (last announced %d), notification order %s" % (p, rep, c, n, order.get(p))
            key = "explicit-overlaps-sync-of-same-publisher" if overlap else ("stale-announce-after-explicit-advance" if p in stale else "quiescence-violated")
            ck.divergences.append({"key": key, "detail": what, "case": [json.dumps(e) for e in sc][:120]})


def model_check(ck, nexp_violation=True, thorough=False):
    inv = ["LatestOK", "OnceOK", "SemOK", "MutexOK", "OneSyncOK", "OrphanOK", "UsersOK"]
    a = vlib.tlc("Subscriber", ("sub.cfg", vlib.cfg_text(dict(Pubs='{"a","b"}', MaxAd=3, SemMax=1, NExp=0, IDLE='"off"', MaxGen=1), inv, view="view")),
                 timeout=1800, tag="submc")
    ck.add_tlc("Subscriber/announce-only", a, "2 publishers x 3 ads, semaphore 1: quiescence (latest = last announced, every ad once), semaphore bound, mutexes, one sync at a time")
    b = vlib.tlc("Subscriber", ("sub1.cfg", vlib.cfg_text(dict(Pubs='{"a","b","c"}', MaxAd=2, SemMax=2, NExp=0, IDLE='"off"', MaxGen=1), inv, view="view")),
                 timeout=1800, tag="submc2")
    ck.add_tlc("Subscriber/3-publishers", b, "3 publishers x 2 ads, semaphore 2")
    # the idle handler cleaner: it may remove any handler nobody uses, at any point
    c = vlib.tlc("Subscriber", ("subi.cfg", vlib.cfg_text(dict(Pubs='{"a","b"}', MaxAd=3, SemMax=1, NExp=0, IDLE='"fixed"', MaxGen=3 if thorough else 2), inv, view="view")),
                 timeout=3000, tag="submci")
    ck.add_tlc("Subscriber/idle-cleaner", c, "announce-only with the idle handler cleaner removing unused handlers at any point (up to MaxGen handlers per publisher): every invariant, "
               "the use count equals the users there are (UsersOK), a removed handler is used by nobody (OrphanOK)")
    d = vlib.tlc("Subscriber", ("subix.cfg", vlib.cfg_text(dict(Pubs='{"a"}', MaxAd=3 if thorough else 2, SemMax=0, NExp=2, IDLE='"fixed"', MaxGen=2), ["SemOK", "MutexOK", "OneSyncOK", "OrphanOK", "UsersOK"], view="view")),
                 timeout=3000, tag="submcix")
    ck.add_tlc("Subscriber/idle-cleaner+explicit", d, "explicit syncs of the announced publisher with the cleaner: one sync at a time, use counts")
    e = vlib.tlc("Subscriber", ("sube.cfg", vlib.cfg_text(dict(Pubs='{"a"}', MaxAd=3, SemMax=1, NExp=1, IDLE='"off"', MaxGen=1), ["OnceOK"], view="view")), timeout=900, tag="submce")
    ck.cov["tlc_runs"].append({"name": "one explicit sync mixed in must violate OnceOK (findings F-C08-2/3 on the model)", "violated": e.violated})
    # the pinned cleaner (expiry set at lookup: a handler in use may be removed) must be refuted
    f = vlib.tlc("Subscriber", ("subp.cfg", vlib.cfg_text(dict(Pubs='{"a"}', MaxAd=2, SemMax=0, NExp=0, IDLE='"pinned"', MaxGen=2), ["OneSyncOK"], view="view")), timeout=900, tag="submcp")
    ck.cov["tlc_runs"].append({"name": "IDLE = pinned (a handler in use may be removed) must violate OneSyncOK: two syncs of one publisher at a time", "violated": f.violated})
    if f.violated != "OneSyncOK":
        raise vlib.Infra("Subscriber.tla: the pinned idle cleaner was not refuted (%s)" % f.violated)
    for r in (a, b, c, d, e, f):
        shutil.rmtree(r.workdir, ignore_errors=True)
