"""C09 -- the receiver delivers an announcement iff it is allowed and not recently seen
(spec/Receiver.tla; also provides the call-level behaviours used by C16)."""
import os, shutil
import vlib

INV = ["TypeOK", "DropSound", "WindowComplete", "EvictComplete", "NoLeak", "ExportBehaviour"]


def consts(**kw):
    c = dict(Cids='{"a","b","c","d"}', Peers='{"ok","no"}', Allowed='{"ok"}', AddrClasses='{"pub+priv","priv"}', K=2, MaxOps=6,
             MaxCloses=2, EXPORT=True, FIXED=True, PubKinds="{}")
    c.update(kw)
    return c


def many_cids(n):
    return "{" + ",".join('"c%d"' % i for i in range(n)) + "}"


def run_cfgs(ck, cfgs, tier):
    per = max(2, vlib.NCPU // max(1, len(cfgs)))
    jobs = [(name, dict(module="Receiver", cfg=(name + ".cfg", vlib.cfg_text(c, INV, view="view")), workers=per, timeout=6000,
                        tag="c09" + name)) for name, (c, _) in cfgs.items()]
    return vlib.tlc_parallel(jobs)


def simulate(c, seed, num, depth, tag):
    return vlib.tlc("Receiver", (tag + ".cfg", vlib.cfg_text(c, INV, view="view")), workers=4, simulate=num, depth=depth, seed=seed,
                    timeout=3000, tag=tag)


def do_replay(ck, binary, name, r, mode):
    f = os.path.join(r.workdir, "c09_behaviours.ndjson")
    rep = vlib.run_harness(binary, ["c09", "-mode", mode, "-behaviours", f], timeout=7000)
    if rep.get("extra", {}).get("read_error") or rep.get("extra", {}).get("shards_failed"):
        raise vlib.Infra("c09 replay %s failed: %s" % (name, rep.get("extra")))
    vlib.log("[replay] %s (%s): %d behaviours, %d inconclusive, %d divergences, extra=%s" % (
        name, mode, rep["evaluations"], rep["inconclusive"], len(rep["divergences"]), rep.get("extra")))
    ck.add_report(rep)
    shutil.rmtree(r.workdir, ignore_errors=True)


def configs(tier, seed):
    if tier == "quick":
        bfs = {"lru-K1": (consts(K=1, MaxOps=5, MaxCloses=0, AddrClasses='{"pub+priv"}', Peers='{"ok"}'), "lru"),
               "lru-K2": (consts(K=2, MaxOps=7, MaxCloses=0, AddrClasses='{"pub+priv"}', Peers='{"ok"}'), "lru"),
               "lru-K3": (consts(K=3, Cids=many_cids(5), MaxOps=7, MaxCloses=0, AddrClasses='{"pub+priv"}', Peers='{"ok"}'), "lru"),
               "rcv-K64": (consts(K=64, Cids='{"a","b","c"}', MaxOps=6, MaxCloses=1), "receiver")}
    else:
        bfs = {"lru-K1": (consts(K=1, MaxOps=7, MaxCloses=0, AddrClasses='{"pub+priv"}', Peers='{"ok"}'), "lru"),
               "lru-K2": (consts(K=2, MaxOps=9, MaxCloses=0, AddrClasses='{"pub+priv"}', Peers='{"ok"}'), "lru"),
               "lru-K3": (consts(K=3, Cids=many_cids(5), MaxOps=9, MaxCloses=0, AddrClasses='{"pub+priv"}', Peers='{"ok"}'), "lru"),
               "lru-K4": (consts(K=4, Cids=many_cids(6), MaxOps=9, MaxCloses=0, AddrClasses='{"pub+priv"}', Peers='{"ok"}'), "lru"),
               "rcv-K64": (consts(K=64, Cids='{"a","b","c"}', MaxOps=8, AddrClasses='{"pub+priv","priv","loop+pub"}'), "receiver")}
    return bfs


def run(tier, seed, replay=None, pid="C09"):
    ck = vlib.Check(pid, tier, seed, "model_checking")
    binary = vlib.build_harness()
    cfgs = configs(tier, seed)
    res = run_cfgs(ck, cfgs, tier)
    for name, (c, mode) in cfgs.items():
        ck.add_tlc("Receiver/" + name, res[name], "K=%s, %s ops" % (c["K"], c["MaxOps"]))
        if res[name].ok:
            do_replay(ck, binary, name, res[name], mode)
    # long random histories on the real Receiver: capacity 64, 80 CIDs, so that eviction at 64 is crossed
    sim = simulate(consts(K=64, Cids=many_cids(80), MaxOps=400 if tier == "quick" else 1200, MaxCloses=1,
                          AddrClasses='{"pub+priv","priv","loop+pub"}'), seed, 12 if tier == "quick" else 200, 2000, "c09sim")
    ck.add_tlc("Receiver/simulate-K64", sim, "random histories over 80 CIDs, seed %d" % seed)
    do_replay(ck, binary, "simulate-K64", sim, "receiver")
    # announcements arriving over pubsub (two connected libp2p hosts, gossipsub): sent by the publisher itself, re-published by
    # another host on behalf of the original publisher, re-published by the receiver's own host
    pc = consts(K=64, Cids='{"a","b","c"}', MaxOps=8, MaxCloses=1, AddrClasses='{"pub+priv","priv"}', PubKinds='{"plain","relayed","self"}')
    psb = vlib.tlc("Receiver", ("psb.cfg", vlib.cfg_text(dict(pc, MaxOps=5 if tier == "quick" else 6), INV, view="view")), timeout=3000, tag="c09psb")
    ck.add_tlc("Receiver/pubsub-bfs", psb, "direct and pubsub announcements (plain / relayed / own re-publication), watcher blocked on the out channel")
    do_replay(ck, binary, "pubsub-bfs", psb, "receiver")
    pss = simulate(pc, seed + 2, 500 if tier == "quick" else 20000, 100, "c09pss")
    ck.add_tlc("Receiver/pubsub-simulate", pss, "random histories mixing direct and pubsub announcements, seed %d" % (seed + 2))
    do_replay(ck, binary, "pubsub-simulate", pss, "receiver")
    # eviction-heavy random histories for the filter alone: K=8, 12 CIDs
    sim2 = simulate(consts(K=8, Cids=many_cids(12), MaxOps=300, MaxCloses=0, AddrClasses='{"pub+priv"}', Peers='{"ok"}'), seed + 1,
                    50 if tier == "quick" else 2000, 2000, "c09sim8")
    ck.add_tlc("Receiver/simulate-K8", sim2, "random histories, capacity 8, 12 CIDs")
    do_replay(ck, binary, "simulate-K8", sim2, "lru")
    ck.cov["rule"] = ("one behaviour per terminal state (BFS) or per simulated run; 'lru' behaviours run on the real stringLRU with the model's capacity "
                      "(filter content compared after every operation), 'receiver' behaviours on a real announce.Receiver (results of Direct/Next/"
                      "UncacheCid/Close, delivered CID/peer/addresses, blocking and wake-ups; behaviours with pubsub steps run on a Receiver with a libp2p host on a gossipsub topic shared "
                      "with a second, connected host that publishes the announcements -- for itself, on behalf of an original publisher, or (from the receiver's own host) "
                      "as an own re-publication -- and the harness waits for the watcher goroutine to have handled each message before the next step); non-trivial = contains a duplicate drop, a close or a blocked call")
    ck.cov["exhaustive"] = True
    ck.assumptions += ["pubsub announcements come from one remote host over a two-host gossipsub mesh on loopback (relay and publisher are the same remote host)",
                       "where un-cache operations on other CIDs make the property's wording ambiguous (model exp = either) both outcomes are accepted"]
    return ck
