"""C04 -- a failed sync changes nothing durable and does not impair later syncs (spec/SyncFaults.tla).
Also serves C02 (run(pid="C02")): the same model restricted to the response-body classes, concretised for
every multihash function / digest length and many bit positions / truncation lengths."""
import os, shutil
import vlib

BODY = '{"bitflip","truncated","appended","other","empty","oversized","shortwrite"}'    # shortwrite: the body is cut off in transit (connection dropped mid-body)
ALL = '{"bitflip","truncated","appended","other","empty","oversized","s400","s500","s403","s404","reset","shortwrite","stall","cancel","hookfail","hookcancel"}'
INV = ["StoreSound", "ReportedVerified", "FailureIsClean", "Converges", "AnnounceRetryPossible", "ExportBehaviour"]


def run(tier, seed, replay=None, pid="C04"):
    ck = vlib.Check(pid, tier, seed, "model_checking")
    binary = vlib.build_harness()
    kinds = ALL if pid == "C04" else BODY
    if pid == "C04" and tier != "quick":
        # two faulty syncs in a row: one kind of each family (status, not-found, transport, cancellation, hook, body); every kind
        # singly and in pairs at consecutive requests in the runs below
        kinds = '{"s500","s404","reset","cancel","hookfail","truncated"}'
    # quick: one faulty sync, with a second fault at the next request from a small set of kinds; thorough: two faulty syncs in a row
    # (single faults), and -- C04 -- one faulty sync with every pair of kinds
    c = dict(N=3, Segs="{0,1,2}", Kinds=kinds, MaxFaulty=1 if tier == "quick" else 2, FIXED=True, EXPORT=True, MaxAddrs=1 if tier != "quick" else 2,     # thorough: two faulty syncs in a row with one address, two addresses in a run of their own
             PairKinds='{"stall","s500"}' if (pid == "C04" and tier == "quick") else "{}", Depths="{0}", Pends="{FALSE}")
    r = vlib.tlc("SyncFaults", (pid + ".cfg", vlib.cfg_text(c, INV)), timeout=7000, tag=pid.lower(), extra=["-maxSetSize", "8000000"])
    ck.add_tlc("SyncFaults", r, "mode x trigger x segment size x fault kind x request index (%d faulty sync(s)) then a clean sync: store sound, "
               "failure leaves latest/notifications/cache as required, clean retry converges" % c["MaxFaulty"])
    if tier != "quick":
        # two faulty syncs in a row are explored with one address; a publisher given with two addresses with one faulty sync
        ra = vlib.tlc("SyncFaults", (pid + "addrs.cfg", vlib.cfg_text(dict(c, MaxFaulty=1, MaxAddrs=2, Kinds=ALL if pid == "C04" else BODY), INV)), timeout=7000, tag=pid.lower() + "addrs")
        ck.add_tlc("SyncFaults/two-addresses", ra, "one faulty sync against a publisher given with two addresses (body faults do not make the client fail over)")
        with open(os.path.join(r.workdir, "c04_behaviours.ndjson"), "a") as f:
            f.write(open(os.path.join(ra.workdir, "c04_behaviours.ndjson")).read())
        shutil.rmtree(ra.workdir, ignore_errors=True)
    if pid == "C04":
        # a depth limit shorter than the chain: the segment that uses the limit up ends the sync -- with its hooks counted
        rd = vlib.tlc("SyncFaults", ("C04depth.cfg", vlib.cfg_text(dict(c, Segs="{1,2}", Depths="{2}", MaxFaulty=1, PairKinds="{}", MaxAddrs=1,
                                                                          Kinds='{"hookfail","hookcancel","s500","reset","cancel","truncated"}'), INV)), timeout=7000, tag="c04depth")
        ck.add_tlc("SyncFaults/depth", rd, "segmented syncs under a depth limit of 2 on the chain of 3: faults and failing hooks in the segment that reaches the limit")
        with open(os.path.join(r.workdir, "c04_behaviours.ndjson"), "a") as f:
            f.write(open(os.path.join(rd.workdir, "c04_behaviours.ndjson")).read())
        shutil.rmtree(rd.workdir, ignore_errors=True)
    if pid == "C04":
        # another head of the same publisher is announced while the faulty request is being answered: the failing sync un-caches its
        # own head all the same, and the one waiting behind it fails with a notification of its own
        rq = vlib.tlc("SyncFaults", ("C04pend.cfg", vlib.cfg_text(dict(c, Pends="{TRUE}", MaxFaulty=1, PairKinds="{}", MaxAddrs=1, Kinds=ALL), INV)), timeout=7000, tag="c04pend")
        ck.add_tlc("SyncFaults/second-announcement", rq, "announce-triggered faulty sync with another announcement of the same publisher arriving during the faulty request")
        with open(os.path.join(r.workdir, "c04_behaviours.ndjson"), "a") as f:
            f.write(open(os.path.join(rq.workdir, "c04_behaviours.ndjson")).read())
        shutil.rmtree(rq.workdir, ignore_errors=True)
    if pid == "C04" and tier == "thorough":
        r2 = vlib.tlc("SyncFaults", ("C04pairs.cfg", vlib.cfg_text(dict(c, MaxFaulty=1, PairKinds=ALL, Kinds=ALL), INV)), timeout=7000, tag="c04pairs", extra=["-maxSetSize", "8000000"])
        ck.add_tlc("SyncFaults/pairs", r2, "one faulty sync with every pair of fault kinds at two consecutive requests")
        with open(os.path.join(r.workdir, "c04_behaviours.ndjson"), "a") as f:
            f.write(open(os.path.join(r2.workdir, "c04_behaviours.ndjson")).read())
        shutil.rmtree(r2.workdir, ignore_errors=True)
    if pid == "C04":
        p = vlib.tlc("SyncFaults", ("pinned.cfg", vlib.cfg_text(dict(c, FIXED=False, EXPORT=False, MaxFaulty=1), ["Converges"])), workers=4, timeout=900, tag="c04p")
        ck.cov["tlc_runs"].append({"name": "pinned fetch (noPath latched by 404/403) must violate Converges", "violated": p.violated})
        if p.violated != "Converges":
            raise vlib.Infra("model of the pinned Syncer.fetch is no longer refuted")
        shutil.rmtree(p.workdir, ignore_errors=True)
    args = ["c04", "-behaviours", os.path.join(r.workdir, "c04_behaviours.ndjson"), "-seed", str(seed)]
    if pid == "C02":
        args += ["-all-digests", "-variants", "2" if tier == "quick" else "4"]
    else:
        args += ["-variants", "2" if tier == "quick" else "3"]
    if tier == "thorough":
        args += ["-quiet-ms", "40"]
    rep = vlib.run_harness(binary, args, timeout=14000)
    if rep.get("extra", {}).get("read_error") or rep.get("extra", {}).get("shards_failed"):
        raise vlib.Infra("%s harness: %s" % (pid, rep.get("extra")))
    vlib.log("[replay] %d behaviours, %d runs, %d inconclusive, %d divergences, %s" % (rep["evaluations"], rep["extra"].get("behaviour_runs", 0),
                                                                                    rep["inconclusive"], len(rep["divergences"]), rep.get("extra")))
    if rep["evaluations"] and rep["inconclusive"] > 0.1 * rep["evaluations"] and not rep["divergences"]:
        raise vlib.Infra("too many inconclusive replays")
    ck.add_report(rep)
    if pid == "C04":
        # failures inside concurrent schedules: announce-triggered syncs that fail while other announcements arrive
        from props import subfam
        lines, wd = subfam.run_family(ck, binary, "faults", 200 if tier == "quick" else 4000, seed, strict=True)
        shutil.rmtree(wd, ignore_errors=True)
        ck.cov["failed_syncs_in_schedules"] = sum(1 for ln in lines if '"g.failed"' in ln)
        ck.cov["schedules_rule"] = ("family 'faults' of the Subscriber schedules (gate scheduler, 1-3 publishers, 1-3 block requests answered with status 500 at seeded points, "
                                    "failed heads announced again): TLC validates on the trace that every announce-triggered sync that ran sends exactly one notification "
                                    "before its goroutine ends, that a re-announced failed head is acted on, and the end-of-run quiescence clause")
    ck.cov["rule"] = ("one behaviour per terminal TLC state: a 3-advertisement chain, real Publisher behind a fault-injecting proxy (plain-HTTP mount or "
                      "libp2p-HTTP discovery), real Subscriber; each sync observed for result, hook calls, number of stored blocks, a full audit of the "
                      "destination store (every block re-hashed with the function and length of its CID), latest-synced, notifications; body-class faults "
                      "are concretised in several variants (bit position / truncation length / substituted block) and digest specifications "
                      "(sha2-256 full and truncated to 20 and 16 bytes, sha2-512, blake3, and the identity multihash whose digest is the content itself)")
    ck.cov["exhaustive"] = True
    ck.assumptions += ["a connection reset that net/http transparently retries never reaches the library; such runs are counted as tolerated",
                       "publishers with one address, or two in plain-HTTP mode with the faults on the first; collision freedom of >=16-byte digests"]
    shutil.rmtree(r.workdir, ignore_errors=True)
    return ck
