"""C05 -- advertisement signatures verify exactly what was signed, and by whom (spec/AdSignature.tla)."""
import os, shutil
import vlib


def run(tier, seed, replay=None):
    ck = vlib.Check("C05", tier, seed, "model_checking")
    binary = vlib.build_harness()
    c = dict(Ids='{"P","S","X"}', Signers='{"P","S"}', MaxEps=1, FIXED=True, EXPORT=True, SLIM=False, Texts="{}")
    r = vlib.tlc("AdSignature", ("c05.cfg", vlib.cfg_text(c, ["Agree", "ReturnsSigner", "ExportCase"])), timeout=3000, tag="c05")
    ck.add_tlc("AdSignature", r, "every ad shape x signer x key assignment x single mutation: Verify(Mutate(Sign)) = declarative outcome")
    if tier != "quick":
        # every ad shape with lists of up to two extended providers (the signer is not among them: the lists of two and three that
        # include it are in the pairs configuration below)
        rf = vlib.tlc("AdSignature", ("c05f.cfg", vlib.cfg_text(dict(c, Ids='{"P","X"}', MaxEps=2), ["Agree", "ReturnsSigner", "ExportCase"])), timeout=3000, tag="c05f")
        ck.add_tlc("AdSignature/lists-of-two", rf, "every ad shape with 0..2 extended providers over provider and one other identity")
        with open(os.path.join(r.workdir, "c05_cases.ndjson"), "a") as f:
            f.write(open(os.path.join(rf.workdir, "c05_cases.ndjson")).read())
        shutil.rmtree(rf.workdir, ignore_errors=True)
    # lists of two (quick) / three (thorough) extended providers on one fixed advertisement body: the main provider next to others
    r2 = vlib.tlc("AdSignature", ("c05s.cfg", vlib.cfg_text(dict(c, SLIM=True, MaxEps=2 if tier == "quick" else 3), ["Agree", "ReturnsSigner", "ExportCase"])),
                  timeout=3000, tag="c05s")
    ck.add_tlc("AdSignature/pairs", r2, "lists of exactly 2 (3) extended providers, every identity and key assignment, every single mutation")
    with open(os.path.join(r.workdir, "c05_cases.ndjson"), "a") as f:
        f.write(open(os.path.join(r2.workdir, "c05_cases.ndjson")).read())
    shutil.rmtree(r2.workdir, ignore_errors=True)
    # strings that are no peer IDs where a provider is named (the advertisement's provider, entries): no key belongs to them, so an
    # entry naming one is acceptable only as the advertisement's own provider, signed by the advertisement's signer
    rt = vlib.tlc("AdSignature", ("c05t.cfg", vlib.cfg_text(dict(c, SLIM=True, MaxEps=2, Ids='{"P","S"}', Signers='{"P"}', Texts='{"T1","T2"}'), ["Agree", "ReturnsSigner", "ExportCase"])),
                  timeout=3000, tag="c05t")
    ck.add_tlc("AdSignature/texts", rt, "lists of 2 extended providers over two identities and two strings that are no peer IDs, the provider one of the three")
    with open(os.path.join(r.workdir, "c05_cases.ndjson"), "a") as f:
        f.write(open(os.path.join(rt.workdir, "c05_cases.ndjson")).read())
    shutil.rmtree(rt.workdir, ignore_errors=True)
    p = vlib.tlc("AdSignature", ("c05p.cfg", vlib.cfg_text(dict(c, FIXED=False, EXPORT=False, MaxEps=1), ["Agree"])), workers=4, timeout=900, tag="c05p")
    ck.cov["tlc_runs"].append({"name": "pinned VerifySignature (FIXED=FALSE) must violate Agree", "violated": p.violated})
    if p.violated != "Agree":
        raise vlib.Infra("model of the pinned VerifySignature is no longer refuted")
    shutil.rmtree(p.workdir, ignore_errors=True)
    rep = vlib.run_harness(binary, ["c05", "-cases", os.path.join(r.workdir, "c05_cases.ndjson"),
                                    "-rsa-every", "300" if tier == "quick" else "100", "-sweep-every", "60" if tier == "quick" else "30"], timeout=7000)
    if rep.get("extra", {}).get("read_error"):
        raise vlib.Infra(rep["extra"]["read_error"])
    if rep["inconclusive"] and not rep["divergences"]:
        raise vlib.Infra("harness could not construct %d cases: %s" % (rep["inconclusive"], rep["extra"].get("infra_example")))
    ck.add_report(rep)
    ck.cov["rule"] = ("one case per stage-2 TLC state: ad shape (previous link, entries link, addresses, removal flag, extended providers with "
                      "override) x signer (provider or separate publisher) x key assigned to each extended-provider entry x one single-value or "
                      "envelope mutation; concretised with Ed25519 / secp256k1 / ECDSA keys in rotation (RSA on a sample), through no codec / DAG-JSON / "
                      "DAG-CBOR round trip in rotation; plus a byte-alteration sweep over key, payload and signature of every envelope of sampled honest ads; "
                      "non-trivial = has a mutation or extended providers")
    ck.cov["exhaustive"] = True
    ck.assumptions += ["signatures are unforgeable (symbolic model); what is checked is which values are bound and which identities are compared",
                       "simultaneous changes to neighbouring signed values are outside the claim (payload is concatenated without delimiters)"]
    shutil.rmtree(r.workdir, ignore_errors=True)
    return ck
