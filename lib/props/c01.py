"""C01 -- chain sync fetches and reports exactly the requested chain segment (spec/ChainSync.tla)."""
import os, shutil
import vlib

LAYERS_QUICK = {"traversal": dict(MaxLen=4, Depths="{1,2,3,4,5}", Segs="{1,2,3,4,5}"),
                "options": dict(MaxLen=4, Depths="{2,5}", Segs="{1,3}"),
                "entries": dict(MaxLen=3, Depths="{1,2,4}", Segs="{1,2}")}
LAYERS_THOROUGH = {"traversal": dict(MaxLen=5, Depths="{1,2,3,4,5,6}", Segs="{1,2,3,4,5,6}"),
                   "options": dict(MaxLen=5, Depths="{1,3,6}", Segs="{1,2,6}"),
                   "entries": dict(MaxLen=5, Depths="{1,2,4,6}", Segs="{1,2,6}")}


def run(tier, seed, replay=None):
    ck = vlib.Check("C01", tier, seed, "model_checking")
    binary = vlib.build_harness()
    layers = LAYERS_QUICK if tier == "quick" else LAYERS_THOROUGH
    bug = vlib.tlc("ChainSync", ("bug.cfg", vlib.cfg_text(dict(MaxLen=3, Depths="{1,2,3,4}", Segs="{1,2,3,4}", Layer='"traversal"', EXPORT=False,
                                                               BUG='"depth-off-by-one"'), ["Done"])), workers=4, timeout=900, tag="c01bug")
    ck.cov["tlc_runs"].append({"name": "segment loop with depthSoFar > limit must violate Done", "violated": bug.violated})
    if bug.violated != "Done":
        raise vlib.Infra("off-by-one variant of the segment loop is no longer refuted")
    shutil.rmtree(bug.workdir, ignore_errors=True)
    jobs = [(name, dict(module="ChainSync", cfg=(name + ".cfg", vlib.cfg_text(dict(c, Layer='"%s"' % name, EXPORT=True, BUG='"none"'), ["Done", "ExportCase"])),
                        workers=max(2, vlib.NCPU // 3), timeout=14000, tag="c01" + name, extra=["-maxSetSize", "8000000"])) for name, c in layers.items()]
    res = vlib.tlc_parallel(jobs)
    for name, c in layers.items():
        r = res[name]
        ck.add_tlc("ChainSync/" + name, r, "every configuration of layer '%s' (%s): Done = reported/requested/stored/result/latest/notification equal the declarative reading" % (name, c))
        if not r.ok:
            continue
        sample = 1
        if name == "options" and tier == "quick":
            sample = 4
        rep = vlib.run_harness(binary, ["c01", "-cases", os.path.join(r.workdir, "c01_cases.ndjson"), "-maxlen", str(c["MaxLen"]),
                                        "-sample", str(sample), "-seed", str(seed)], timeout=14000)
        if rep.get("extra", {}).get("read_error") or rep.get("extra", {}).get("shards_failed"):
            raise vlib.Infra("c01 harness (%s): %s" % (name, rep.get("extra")))
        vlib.log("[syncs] %s: %d configurations run, %d inconclusive, %d divergences, %s" % (name, rep["evaluations"], rep["inconclusive"],
                                                                                           len(rep["divergences"]), rep.get("extra")))
        ck.add_report(rep)
        shutil.rmtree(r.workdir, ignore_errors=True)
    # syncs of two different publishers at the same time, in every interleaving of their block requests and hook calls
    pbug = vlib.tlc("SyncPair", ("pairbug.cfg", vlib.cfg_text(dict(N=2, Segs="{0,1}", BUG='"shared-buffer"', EXPORT=False), ["Independent"])), workers=2, timeout=600, tag="c01pairbug")
    ck.cov["tlc_runs"].append({"name": "walk order list shared between the syncs must violate Independent", "violated": pbug.violated})
    if pbug.violated != "Independent":
        raise vlib.Infra("shared-buffer variant of SyncPair is no longer refuted")
    shutil.rmtree(pbug.workdir, ignore_errors=True)
    pn = 3 if tier == "quick" else 4
    pr = vlib.tlc("SyncPair", ("pair.cfg", vlib.cfg_text(dict(N=pn, Segs="{0,1}", BUG='"none"', EXPORT=True), ["Independent", "ExportBehaviour"])), workers=4, timeout=3000, tag="c01pair")
    ck.add_tlc("SyncPair", pr, "two syncs of two publishers through one Subscriber, chains of %d, unsegmented and in segments of 1: every interleaving of their block requests and "
               "hook calls; Independent = each sync's hooks see its own chain, head first" % pn)
    if pr.ok:
        rep = vlib.run_harness(binary, ["c01pair", "-cases", os.path.join(pr.workdir, "c01_pairs.ndjson"), "-seed", str(seed)] + (["-sample", "6"] if tier != "quick" else []), timeout=14000)
        if rep.get("extra", {}).get("read_error") or rep.get("extra", {}).get("shards_failed"):
            raise vlib.Infra("c01pair harness: %s" % rep.get("extra"))
        vlib.log("[pairs] %d interleavings replayed, %d inconclusive, %d divergences, %s" % (rep["evaluations"], rep["inconclusive"], len(rep["divergences"]), rep.get("extra")))
        if rep["evaluations"] and rep["inconclusive"] > 0.2 * rep["evaluations"] and not rep["divergences"]:
            raise vlib.Infra("too many inconclusive pair replays")
        ck.add_report(rep)
        ck.cov["pairs_rule"] = ("every exported interleaving replayed: two real Publishers (requests held at the publisher), one real Subscriber (hook calls held), two SyncAdChain "
                                "calls at once, released step by step in the exported order; compared: the blocks each sync's hook calls were for")
    shutil.rmtree(pr.workdir, ignore_errors=True)
    # syncs of the same publisher queueing up: each sync's own (scoped) block hook sees exactly that sync's blocks
    from props import subfam
    lines, wd = subfam.run_family(ck, binary, "scoped", 200 if tier == "quick" else 4000, seed, strict=False)
    shutil.rmtree(wd, ignore_errors=True)
    ck.cov["scoped_hook_calls_validated"] = sum(1 for ln in lines if '"hook"' in ln)
    ck.cov["schedules_rule"] = ("family 'scoped' of the Subscriber schedules (gate scheduler): explicit syncs carrying their own block hook queue up behind announce-triggered syncs "
                                "and behind each other for the same publisher; TLC validates on the trace (SubscriberTrace.tla) that every block-hook call is made by the sync "
                                "holding the publisher's lock and goes to the hook of that very sync")
    ck.cov["rule"] = ("one real sync per exported configuration: real ad / entry-chunk chain, real ipnisync.Publisher (in rotation: plain-HTTP mount, "
                      "libp2p-HTTP discovery, HTTP over libp2p streams between two libp2p hosts) whose read opener logs every block served, real Subscriber with exactly the configured options, pre-stored "
                      "blocks and latest-synced value; compared: hook sequence, set of served blocks, stored blocks, returned head, latest-synced, "
                      "notifications (collected until the listener channel closes); non-trivial = more than one block reported or segmented")
    ck.cov["exhaustive"] = tier == "thorough"
    ck.assumptions += ["hooks choose the previous link as next CID (chain order); depth/segment values beyond the chain length behave like the sampled ones",
                       "quick tier runs every 4th configuration of the options layer (offset by seed); the other layers are run completely"]
    return ck
