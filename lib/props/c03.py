"""C03 -- a chain head is accepted only when signed by the expected publisher (spec/SignedHead.tla)."""
import os, shutil
import vlib


def run(tier, seed, replay=None):
    ck = vlib.Check("C03", tier, seed, "model_checking")
    binary = vlib.build_harness()
    c = dict(Ids='{"P","Q"}' if tier == "quick" else '{"P","Q","R"}', Heads='{"h1","h2"}' if tier == "quick" else '{"h1","h2","h3"}',
             Topics='{"none","t1","t2"}', EXPORT=True, CHECK_SIGNER=True)
    r = vlib.tlc("SignedHead", ("c03.cfg", vlib.cfg_text(c, ["Agree", "PublisherServesValid", "ExportCase"])), workers=4, timeout=900, tag="c03")
    ck.add_tlc("SignedHead", r, "publisher x head x topic x expected peer x alteration: GetHead accepts iff the response is an honest head of the expected publisher")
    m = vlib.tlc("SignedHead", ("c03m.cfg", vlib.cfg_text(dict(c, EXPORT=False, CHECK_SIGNER=False), ["Agree"])), workers=2, timeout=900, tag="c03m")
    ck.cov["tlc_runs"].append({"name": "model without the signer comparison must violate Agree", "violated": m.violated})
    if m.violated != "Agree":
        raise vlib.Infra("signer-comparison mutant of the model is no longer refuted")
    shutil.rmtree(m.workdir, ignore_errors=True)
    rep = vlib.run_harness(binary, ["c03", "-cases", os.path.join(r.workdir, "c03_cases.ndjson"), "-flip-every", "7" if tier == "quick" else "1"], timeout=7000)
    if rep.get("extra", {}).get("read_error") or (rep["inconclusive"] and not rep["divergences"]):
        raise vlib.Infra("c03 harness: %s" % rep.get("extra"))
    ck.add_report(rep)
    ck.cov["rule"] = ("one case per TLC state, concretised with Ed25519 / secp256k1 / ECDSA (RSA on every 8th) keys and run through head.Decode+Validate, "
                      "Syncer.GetHead against an HTTP server returning the crafted head, and (rejected heads) Subscriber.SyncAdChain observing requests after "
                      "/head and the latest-synced value; plus byte alterations of the DAG-JSON encoding of honest heads (accepted only if the decoded value "
                      "is unchanged) and the heads served by a real Publisher for 4 key types x topics; non-trivial = altered response")
    ck.cov["exhaustive"] = True
    ck.assumptions += ["signatures are unforgeable (symbolic model)"]
    shutil.rmtree(r.workdir, ignore_errors=True)
    return ck
