"""C11 -- metadata encoding is canonical, round-trips for any protocol set, and is safe (spec/Metadata.tla)."""
import os, shutil
import vlib

INV = ["RoundTrips", "EveryProtocolRetrievable", "Canonical", "AgreesWithExpected", "CraftedRejected", "ExportCase"]


def run(tier, seed, replay=None):
    ck = vlib.Check("C11", tier, seed, "model_checking")
    binary = vlib.build_harness()
    c = dict(Protos='{"B","G","H","U1","U2"}' if tier == "quick" else '{"B","G","H","U1","U2","U3"}', MaxFrames=4 if tier == "quick" else 5,
             MODE='"fixed"', CHECKSORT=True, EXPORT=True)
    r = vlib.tlc("Metadata", ("c11.cfg", vlib.cfg_text(c, INV)), timeout=7000, tag="c11")
    ck.add_tlc("Metadata", r, "every sequence of 1..%d protocols in every construction order x {round trip, raw concatenation, truncation at every byte}" % c["MaxFrames"])
    for name, cc, inv in (("pinned decode loop must violate RoundTrips", dict(c, MODE='"pinned"', EXPORT=False, MaxFrames=3), "RoundTrips"),
                          ("Validate without the order check must violate Canonical", dict(c, CHECKSORT=False, EXPORT=False, MaxFrames=3), "Canonical")):
        p = vlib.tlc("Metadata", ("c11p.cfg", vlib.cfg_text(cc, INV[:4])), workers=4, timeout=900, tag="c11p")
        ck.cov["tlc_runs"].append({"name": name, "violated": p.violated})
        if p.violated != inv:
            raise vlib.Infra("model variant '%s' is no longer refuted (got %s)" % (name, p.violated))
        shutil.rmtree(p.workdir, ignore_errors=True)
    rep = vlib.run_harness(binary, ["c11", "-cases", os.path.join(r.workdir, "c11_cases.ndjson")], timeout=7000)
    if rep.get("extra", {}).get("read_error") or (rep["inconclusive"] and not rep["divergences"]):
        raise vlib.Infra("c11 harness: %s" % rep.get("extra"))
    ck.add_report(rep)
    ck.cov["rule"] = ("one case per TLC state, concretised with real Bitswap / IpfsGatewayHttp / GraphsyncFilecoinV1 (varying piece CID and flags) / Unknown "
                      "(payload lengths 0, 2, 4 and 300) protocols: encoding compared with the sorted concatenation of the protocols' own encodings, decode "
                      "compared with the model (protocol list, Get by ID, Equal), every accepted input re-encoded and compared with the input, truncations "
                      "inside a frame tried at every real byte offset, hostile length prefixes (5, 2 KiB, 64 MiB, 2^62) with measured allocation")
    ck.cov["exhaustive"] = True
    ck.assumptions += ["the graphsync payload is an opaque canonical token in the model; non-canonical DAG-CBOR inside it is not enumerated",
                       "arbitrary byte strings are covered for the grammar-level mutation classes above, not for all byte strings"]
    shutil.rmtree(r.workdir, ignore_errors=True)
    return ck
