"""C16 -- announce receiver shutdown never hangs.

ReceiverLocks.tla: every lock/unlock/channel step of Close, Direct, Next and UncacheCid as its own
action; TLC checks termination of every call once a Close has returned (weak fairness), the result
table and that the mutex is never leaked, over all interleavings of short thread programs; the
model of the pinned Close (early return keeps the mutex) is refuted.  Receiver.tla: call-level
behaviours with one or more Close calls, blocked Direct / Next calls and wake-ups, replayed on a
real Receiver (without and with a pubsub topic) under a watchdog."""
import os, shutil
import vlib
from props import c09


def run(tier, seed, replay=None):
    ck = vlib.Check("C16", tier, seed, "model_checking")
    binary = vlib.build_harness()
    # 1. fine-grained model
    locks = {"2 threads x 2 calls": dict(Threads="{1,2}", MaxCalls=2, FIXED=True),
             "3 threads x 1 call": dict(Threads="{1,2,3}", MaxCalls=1, FIXED=True)}
    if tier == "thorough":
        locks["3 threads x 2 calls"] = dict(Threads="{1,2,3}", MaxCalls=2, FIXED=True)
        locks["2 threads x 3 calls"] = dict(Threads="{1,2}", MaxCalls=3, FIXED=True)
    jobs = [(n, dict(module="ReceiverLocks", cfg=("rl%d.cfg" % i, vlib.cfg_text(c, ["MutexReleased", "ResultsOK"], properties=["Termination"])),
                     workers=max(2, vlib.NCPU // len(locks)), timeout=7000, tag="c16l%d" % i, heap="10g")) for i, (n, c) in enumerate(locks.items())]
    res = vlib.tlc_parallel(jobs)
    for n in locks:
        ck.add_tlc("ReceiverLocks/" + n, res[n], "all interleavings of lock/unlock/channel steps; Termination under WF, ResultsOK, MutexReleased")
        shutil.rmtree(res[n].workdir, ignore_errors=True)
    pinned = vlib.tlc("ReceiverLocks", ("rlp.cfg", vlib.cfg_text(dict(Threads="{1,2}", MaxCalls=2, FIXED=False), ["MutexReleased"])), workers=4,
                      timeout=900, tag="c16p")
    ck.cov["tlc_runs"].append({"name": "pinned Close (FIXED=FALSE) must violate MutexReleased", "violated": pinned.violated})
    if pinned.violated != "MutexReleased":
        raise vlib.Infra("model of the pinned Close is no longer refuted")
    shutil.rmtree(pinned.workdir, ignore_errors=True)
    # 2. call-level behaviours with closes, on the real Receiver
    if tier == "quick":
        cfgs = {"calls-3closes": (c09.consts(K=64, Cids='{"a","b"}', MaxOps=7, MaxCloses=3, AddrClasses='{"pub+priv"}'), "receiver")}
        every = 10
    else:
        cfgs = {"calls-3closes": (c09.consts(K=64, Cids='{"a","b"}', MaxOps=8, MaxCloses=3, AddrClasses='{"pub+priv"}'), "receiver")}
        every = 25
    r2 = c09.run_cfgs(ck, cfgs, tier)
    for name, (c, mode) in cfgs.items():
        g = r2[name]
        ck.add_tlc("Receiver/" + name, g, "call-level: blocked Direct/Next, wake-ups by Close, repeated Close; NoLeak")
        f = os.path.join(g.workdir, "c09_behaviours.ndjson")
        rep = vlib.run_harness(binary, ["c09", "-mode", "receiver", "-behaviours", f, "-topic-every", str(every)], timeout=7000)
        if rep.get("extra", {}).get("read_error") or rep.get("extra", {}).get("shards_failed"):
            raise vlib.Infra("c16 replay failed: %s" % rep.get("extra"))
        vlib.log("[replay] %s: %d behaviours, %d inconclusive, %d divergences, extra=%s" % (
            name, rep["evaluations"], rep["inconclusive"], len(rep["divergences"]), rep.get("extra")))
        ck.add_report(rep)
        shutil.rmtree(g.workdir, ignore_errors=True)
    ck.cov["rule"] = ("one behaviour per terminal state of Receiver.tla (<= MaxOps calls, up to 3 Close calls, at most one blocked Direct and one blocked Next); "
                      "each call runs in its own goroutine under a 2 s watchdog; every n-th behaviour also on a Receiver with libp2p host + pubsub topic, "
                      "checking that the watcher goroutine is gone after Close; non-trivial = contains a close, a drop or a blocked call")
    ck.assumptions += ["the fine-grained interleavings inside calls are decided on the model (ReceiverLocks.tla); the code is bound at call granularity",
                       "at most one blocked sender and one blocked receiver (Go leaves the wake-up order open)"]
    return ck
