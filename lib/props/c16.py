"""C16 -- announce receiver shutdown never hangs.

ReceiverLocks.tla: every lock/unlock/channel step of Close, Direct, Next and UncacheCid as its own
action; TLC checks termination of every call once a Close has returned (weak fairness), the result
table and that the mutex is never leaked, over all interleavings of short thread programs; the
model of the pinned Close (early return keeps the mutex) is refuted.  Receiver.tla: call-level
behaviours with one or more Close calls, blocked Direct / Next calls and wake-ups, replayed on a
real Receiver (without and with a pubsub topic) under a watchdog."""
import glob, json, os, shutil
import vlib
from props import c09


def run(tier, seed, replay=None):
    ck = vlib.Check("C16", tier, seed, "model_checking")
    binary = vlib.build_harness()
    # 1. fine-grained model: every lock / unlock / channel step, without and with the pubsub watcher
    base = dict(Threads="{1,2}", MaxCalls=2, FIXED=True, UNLOCK='"code"', Watcher=False, MaxMsgs=0, MaxRestarts=0, Resend=False, Cancels=False, Reentrant=False, ALLOWPOS='"before"', CANCELWATCH='"before"')
    locks = {"2 threads x 2 calls": base,
             "3 threads x 1 call": dict(base, Threads="{1,2,3}", MaxCalls=1),
             "watcher, 2 threads x 2 calls, 1 message": dict(base, Watcher=True, MaxMsgs=1),
             "watcher, 3 threads x 1 call, 1 message": dict(base, Watcher=True, MaxMsgs=1, Threads="{1,2,3}", MaxCalls=1),
             "watcher with re-publication, 2 threads x 2 calls": dict(base, Watcher=True, MaxMsgs=2, Resend=True),
             "cancelled contexts, 2 threads x 2 calls": dict(base, Cancels=True),
             "allow-peer callback that calls UncacheCid, 2 threads x 2 calls": dict(base, Reentrant=True),
             "allow-peer callback that calls UncacheCid, watcher, 3 threads x 1 call": dict(base, Reentrant=True, Watcher=True, MaxMsgs=1, Threads="{1,2,3}", MaxCalls=1),
             "cancelled contexts, watcher, 3 threads x 1 call": dict(base, Cancels=True, Watcher=True, MaxMsgs=1, Threads="{1,2,3}", MaxCalls=1)}
    # any number of calls per thread (the call counter is frozen, results keep only the last one): strong fairness, leads-to properties
    unbounded = {"any number of calls, 2 threads": dict(base, MaxCalls=0)}
    if tier == "thorough":
        unbounded["any number of calls, 2 threads, watcher, 2 messages"] = dict(base, MaxCalls=0, Watcher=True, MaxMsgs=2)
        unbounded["any number of calls, 2 threads, cancelled contexts"] = dict(base, MaxCalls=0, Cancels=True)
    for n, c in unbounded.items():
        u = vlib.tlc("ReceiverLocks", ("rlu.cfg", vlib.cfg_text(c, ["MutexReleased", "ResultsOK"], properties=["Returns", "WatcherExits"], spec="SpecU")),
                     workers=8, timeout=7000, tag="c16u", heap="8g")
        ck.add_tlc("ReceiverLocks/" + n, u, "every call under way returns once a Close has been called, for any number of calls per thread (strong fairness)")
        shutil.rmtree(u.workdir, ignore_errors=True)
    if tier == "thorough":
        locks["3 threads x 2 calls"] = dict(base, Threads="{1,2,3}", MaxCalls=2)
        locks["2 threads x 3 calls"] = dict(base, MaxCalls=3)
        locks["watcher, 2 threads x 2 calls, 2 messages, 1 subscription restart"] = dict(base, Watcher=True, MaxMsgs=2, MaxRestarts=1)
        locks["watcher, 3 threads x 1 call, 2 messages, 1 subscription restart"] = dict(base, Watcher=True, MaxMsgs=2, MaxRestarts=1, Threads="{1,2,3}", MaxCalls=1)
    jobs = [(n, dict(module="ReceiverLocks", cfg=("rl%d.cfg" % i, vlib.cfg_text(c, ["MutexReleased", "ResultsOK"], properties=["Termination"])),
                     workers=max(2, vlib.NCPU // min(len(locks), 4)), timeout=7000, tag="c16l%d" % i, heap="6g")) for i, (n, c) in enumerate(locks.items())]
    res = {}
    for k in range(0, len(jobs), 4):
        res.update(vlib.tlc_parallel(jobs[k:k + 4]))
    for n in locks:
        ck.add_tlc("ReceiverLocks/" + n, res[n], "all interleavings of lock/unlock/channel steps; Termination under WF, ResultsOK, MutexReleased")
        shutil.rmtree(res[n].workdir, ignore_errors=True)
    for name, c, want in (("pinned Close (FIXED=FALSE: the repeated Close keeps the mutex) must violate MutexReleased", dict(base, FIXED=False), "MutexReleased"),
                          ("Close with a deferred Unlock (mutex held while waiting for the watcher) must violate Termination",
                           dict(base, Watcher=True, MaxMsgs=1, UNLOCK='"deferred"', Threads="{1}", MaxCalls=1), "Termination"),
                          ("the allow-peer callback consulted under the mutex (ALLOWPOS = under) must violate Termination when the callback calls UncacheCid",
                           dict(base, Reentrant=True, ALLOWPOS='"under"', Threads="{1,2}", MaxCalls=1), "Termination"),
                          ("Close that cancels the watcher's context only when it returns (CANCELWATCH = deferred) must violate Termination once the application has shut its pubsub down",
                           dict(base, Watcher=True, MaxMsgs=1, CANCELWATCH='"deferred"', Threads="{1}", MaxCalls=1), "Termination")):
        v = vlib.tlc("ReceiverLocks", ("rlp.cfg", vlib.cfg_text(c, ["MutexReleased"], properties=["Termination"])), workers=4, timeout=900, tag="c16p")
        ck.cov["tlc_runs"].append({"name": name, "violated": v.violated})
        if v.violated != want:
            raise vlib.Infra("model variant is no longer refuted: %s (got %s)" % (name, v.violated))
        shutil.rmtree(v.workdir, ignore_errors=True)
    # 1b. the same actions validate traces of the real Receiver under the gate scheduler (seeded random interleavings)
    nsc = 240 if tier == "quick" else 6000
    threads = "{%s}" % ",".join(str(i) for i in range(1, 11))
    total = 0
    for conf, watcher, resend in (("plain", False, False), ("hostonly", False, False), ("topic", True, False), ("owntopic", True, True)):
        wd = os.path.join(vlib.BUILD, "tlc", "rcvgate-%s-%d" % (conf, os.getpid()))
        shutil.rmtree(wd, ignore_errors=True)
        os.makedirs(wd)
        rep = vlib.run_harness(binary, ["c16", "-trace-out", os.path.join(wd, "trace"), "-count", str(nsc), "-seed", str(seed), "-config", conf], timeout=7000)
        if rep.get("extra", {}).get("read_error") or rep.get("extra", {}).get("shards_failed"):
            raise vlib.Infra("c16 harness (%s): %s" % (conf, rep.get("extra")))
        vlib.log("[schedules] %s: %d scenarios, %d inconclusive, %d divergences, %s" % (conf, rep["evaluations"], rep["inconclusive"], len(rep["divergences"]), rep.get("extra")))
        if rep["evaluations"] and rep["inconclusive"] > 0.2 * rep["evaluations"] and not rep["divergences"]:
            raise vlib.Infra("too many inconclusive scenarios: " + str(rep["extra"].get("infra_example")))
        ck.add_report(rep)
        lines = []
        for f in sorted(glob.glob(os.path.join(wd, "trace.*"))):
            lines += open(f).read().splitlines()
        if not lines:
            if rep["divergences"]:
                shutil.rmtree(wd, ignore_errors=True)
                continue
            raise vlib.Infra("no trace recorded for configuration " + conf)
        trace = os.path.join(wd, "all.ndjson")
        open(trace, "w").write("\n".join(lines) + "\n")
        c = dict(Threads=threads, MaxCalls=1, FIXED=True, UNLOCK='"code"', Watcher=watcher, MaxMsgs=100000, MaxRestarts=0, Resend=resend, Cancels=True, Reentrant=True, ALLOWPOS='"before"', CANCELWATCH='"before"')
        r = vlib.tlc("ReceiverLocksTrace", ("t.cfg", vlib.cfg_text(c, ["MutexReleased", "ResultsOK"], spec="TSpec", postcondition="Accepted")), workers=1, timeout=3000,
                     env_extra={"VERIF_TRACE": trace}, tag="rlt" + conf, heap="8g")
        ck.cov["tlc_runs"].append({"name": "trace validation " + conf, "events": len(lines), "accepted": r.ok, "wall_s": round(r.wall, 1)})
        total += len(lines)
        vlib.log("[trace] %s: %d events, accepted=%s" % (conf, len(lines), r.ok))
        if not r.ok:
            start = max(i for i in range(0, min(r.depth, len(lines))) if '"reset"' in lines[i])
            bad = json.loads(lines[r.depth - 1]) if 0 < r.depth <= len(lines) else {}
            what = ("invariant %s violated after event %d" % (r.violated, r.depth - 1)) if r.violated else "event %d of the trace is not allowed by the specification" % r.depth
            ck.divergences.append({"key": "trace-rejected@" + str(bad.get("ev")), "detail": "%s (%s): %s" % (what, conf, lines[r.depth - 1] if r.depth <= len(lines) else "?"),
                                   "case": lines[start:r.depth]})
        shutil.rmtree(r.workdir, ignore_errors=True)
        shutil.rmtree(wd, ignore_errors=True)
    ck.cov["trace_events_validated"] = total
    ck.cov["schedules_rule"] = ("seeded random schedules of a real Receiver under the gate scheduler over the yield hooks of receiver.go: 3-8 API calls (Close one or more times, Direct from an "
                                "allowed / a refused peer, Next, UncacheCid; in a third of the runs half of the Direct / Next calls under a context that is cancelled at a random point), each in its own goroutine, one goroutine running at a time; four configurations: no host, host without topic, "
                                "host with a topic on which the harness publishes 0-3 pubsub messages (allowed or not), host with the receiver's own topic and re-publication of direct "
                                "announcements; the run ends when nothing can move: a call that has not returned by then, or a watcher that is still running, is a hang; TLC validates "
                                "each trace against the actions of ReceiverLocks.tla with ResultsOK / MutexReleased as invariants")
    # 2. call-level behaviours with closes, on the real Receiver
    if tier == "quick":
        cfgs = {"calls-3closes": (c09.consts(K=64, Cids='{"a","b"}', MaxOps=7, MaxCloses=3, AddrClasses='{"pub+priv"}'), "receiver")}
        every = 10
    else:
        cfgs = {"calls-3closes": (c09.consts(K=64, Cids='{"a","b"}', MaxOps=8, MaxCloses=3, AddrClasses='{"pub+priv"}'), "receiver")}
        every = 25
    r2 = c09.run_cfgs(ck, cfgs, tier)
    for name, (c, mode) in cfgs.items():
        g = r2[name]
        ck.add_tlc("Receiver/" + name, g, "call-level: blocked Direct/Next, wake-ups by Close, repeated Close; NoLeak")
        f = os.path.join(g.workdir, "c09_behaviours.ndjson")
        rep = vlib.run_harness(binary, ["c09", "-mode", "receiver", "-behaviours", f, "-topic-every", str(every)], timeout=7000)
        if rep.get("extra", {}).get("read_error") or rep.get("extra", {}).get("shards_failed"):
            raise vlib.Infra("c16 replay failed: %s" % rep.get("extra"))
        vlib.log("[replay] %s: %d behaviours, %d inconclusive, %d divergences, extra=%s" % (
            name, rep["evaluations"], rep["inconclusive"], len(rep["divergences"]), rep.get("extra")))
        ck.add_report(rep)
        shutil.rmtree(g.workdir, ignore_errors=True)
    ck.cov["rule"] = ("one behaviour per terminal state of Receiver.tla (<= MaxOps calls, up to 3 Close calls, at most one blocked Direct and one blocked Next); "
                      "each call runs in its own goroutine under a 2 s watchdog; every n-th behaviour also on a Receiver with libp2p host + pubsub topic, "
                      "checking that the watcher goroutine is gone after Close; non-trivial = contains a close, a drop or a blocked call")
    ck.assumptions += ["the watcher's subscription-restart path (an error from the subscription other than cancellation) is explored on the model only: it cannot be provoked from outside",
                       "at most one blocked sender and one blocked receiver (Go leaves the wake-up order open)"]
    return ck
