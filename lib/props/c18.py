"""C18 -- signed ingest and register requests are accepted only from the provider named (spec/SignedRequest.tla)."""
import os, shutil
import vlib


def run(tier, seed, replay=None):
    ck = vlib.Check("C18", tier, seed, "model_checking")
    binary = vlib.build_harness()
    c = dict(Ids='{"P","Q"}' if tier == "quick" else '{"P","Q","R"}', EXPORT=True, FIXED=True)
    r = vlib.tlc("SignedRequest", ("c18.cfg", vlib.cfg_text(c, ["Agree", "ExportCase"])), workers=4, timeout=900, tag="c18")
    ck.add_tlc("SignedRequest", r, "made-for kind x read-as kind x named provider x signing key x alteration")
    m = vlib.tlc("SignedRequest", ("c18m.cfg", vlib.cfg_text(dict(c, EXPORT=False, FIXED=False), ["Agree"])), workers=2, timeout=900, tag="c18m")
    ck.cov["tlc_runs"].append({"name": "pinned ReadIngestRequest (FIXED=FALSE) must violate Agree", "violated": m.violated})
    if m.violated != "Agree":
        raise vlib.Infra("model of the pinned ReadIngestRequest is no longer refuted")
    shutil.rmtree(m.workdir, ignore_errors=True)
    rep = vlib.run_harness(binary, ["c18", "-cases", os.path.join(r.workdir, "c18_cases.ndjson"), "-flip-every", "5" if tier == "quick" else "1"], timeout=7000)
    if rep.get("extra", {}).get("read_error") or (rep["inconclusive"] and not rep["divergences"]):
        raise vlib.Infra("c18 harness: %s" % rep.get("extra"))
    ck.add_report(rep)
    ck.cov["rule"] = ("one case per TLC state x 4 key types, built with the real constructors and envelope-field substitution; read with the real readers; "
                      "plus byte alterations of every honest sealed request (accepted only if key, type, payload and signature decode unchanged); "
                      "non-trivial = altered, cross-domain or foreign-key request")
    ck.cov["exhaustive"] = True
    ck.assumptions += ["signatures are unforgeable (symbolic model)"]
    shutil.rmtree(r.workdir, ignore_errors=True)
    return ck
