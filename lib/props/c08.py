"""C08 -- one sync at a time per publisher; the latest announcement is never lost."""
import shutil
import vlib
from props import subfam


def run(tier, seed, replay=None):
    ck = vlib.Check("C08", tier, seed, "model_checking")
    binary = vlib.build_harness()
    subfam.model_check(ck, thorough=(tier != "quick"))
    n = 160 if tier == "quick" else 4000
    lines, wd = subfam.run_family(ck, binary, "announce", n, seed, strict=True)
    shutil.rmtree(wd, ignore_errors=True)
    lines, wd = subfam.run_family(ck, binary, "faults", n, seed, strict=True)
    shutil.rmtree(wd, ignore_errors=True)
    lines, wd = subfam.run_family(ck, binary, "idle", n, seed, strict=True)
    shutil.rmtree(wd, ignore_errors=True)
    lines, wd = subfam.run_family(ck, binary, "idlex", n, seed, strict=False)
    shutil.rmtree(wd, ignore_errors=True)
    lines, wd = subfam.run_family(ck, binary, "scoped", n, seed, strict=False)
    shutil.rmtree(wd, ignore_errors=True)
    lines, wd = subfam.run_family(ck, binary, "mixed", n, seed, strict=False)
    subfam.quiescence_findings(ck, lines)
    shutil.rmtree(wd, ignore_errors=True)
    ck.cov["rule"] = ("seeded random schedules of a real Subscriber (1-3 real publishers x 3 ads, semaphore none/1/2) under the gate scheduler: at every step "
                      "either one parked goroutine is released or the environment announces the next head / starts an explicit sync; every yield hook is an "
                      "event; TLC validates each trace (lock exclusivity, semaphore bound, coalescing, hooks inside the publisher's sync lock) and the "
                      "end-of-run quiescence clause; family 'faults' answers some block requests with status 500 and announces failed heads again; family 'mixed' adds explicit syncs of the same "
                      "publishers, a quarter of them under a context that is cancelled at a random point")
    ck.assumptions += ["schedules are those reachable by parking goroutines at the hooks (one runs at a time); real-time races between hooks are not explored",
                       "mixed runs: violations of exactly-once / final-latest / notification order in which an explicit sync overlaps another sync of the same publisher are the known findings F-C08-1..3"]
    return ck
