"""X01 -- the HTTP face of ipnisync.Publisher and the content-type hint (spec/PublisherAPI.tla).
Coverage of the system beyond the listed properties: not in MANIFEST.json, evidence under evidence/extra/."""
import os, shutil
import vlib


def run(tier, seed, replay=None):
    ck = vlib.Check("X01", tier, seed, "model_checking")
    binary = vlib.build_harness()
    r = vlib.tlc("PublisherAPI", ("x01.cfg", vlib.cfg_text(dict(EXPORT=True), [])), workers=1, timeout=600, tag="x01")
    ck.add_tlc("PublisherAPI", r, "request table: 3 ways of mounting the publisher x 3 places of the path x 5 things asked for x root set / unset x 4 hints; the declarative "
               "reading of the status codes and of what the link system sees is checked over the whole table (ASSUME)")
    rep = vlib.run_harness(binary, ["x01", "-cases", os.path.join(r.workdir, "x01_cases.ndjson"), "-client-cases", os.path.join(r.workdir, "x01_client.ndjson")], timeout=1200)
    if rep.get("extra", {}).get("read_error") or (rep["inconclusive"] and not rep["divergences"]):
        raise vlib.Infra("x01 harness: %s" % rep.get("extra"))
    ck.add_report(rep)
    ck.cov["rule"] = ("one real HTTP request per row of the table against a real Publisher (own server; handler in the harness's server without and with a path prefix): status, "
                      "body (signed head that verifies for the publisher, root and topic; the stored block's bytes) and the hint the publisher's link system read from the link "
                      "context; then a real Subscriber per kind of sync (SyncAdChain, announce, SyncEntries, SyncOneEntry, SyncHAMTEntries): the hint seen with every block request")
    ck.cov["exhaustive"] = True
    shutil.rmtree(r.workdir, ignore_errors=True)
    return ck
