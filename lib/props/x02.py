"""X02 -- the HTTP client of the ingest API and the way of an announcement made with it (spec/IngestAPI.tla).
Coverage of the system beyond the listed properties: not in MANIFEST.json, evidence under evidence/extra/."""
import os, shutil
import vlib


def run(tier, seed, replay=None):
    ck = vlib.Check("X02", tier, seed, "model_checking")
    binary = vlib.build_harness()
    r = vlib.tlc("IngestAPI", ("x02.cfg", vlib.cfg_text(dict(EXPORT=True), [])), workers=1, timeout=600, tag="x02")
    ck.add_tlc("IngestAPI", r, "call table: 3 operations x 12 forms of the base URL x 6 status codes x 5 kinds of body; announcements: provider with / without ID, 0..3 addresses, "
               "one of them private or not, receiver filtering or not; the declarative reading (what is refused never reaches the wire, what succeeds, the status survives) "
               "is checked over the whole table (ASSUME)")
    rep = vlib.run_harness(binary, ["x02", "-cases", os.path.join(r.workdir, "x02_cases.ndjson"), "-announce-cases", os.path.join(r.workdir, "x02_announce.ndjson")], timeout=1200)
    if rep.get("extra", {}).get("read_error") or (rep["inconclusive"] and not rep["divergences"]):
        raise vlib.Infra("x02 harness: %s" % rep.get("extra"))
    ck.add_report(rep)
    ck.cov["rule"] = ("one real call of the ingest client per row against a recording server (plain and TLS): whether New accepts the base URL, method / path / query / content type "
                      "on the wire, success or API error with the status and the text of the reply, the error once more through EncodeError / DecodeError; then per announcement: "
                      "the CBOR message on the wire decoded (CID, addresses with the provider's ID, nothing else), handed to a real announce.Receiver (Direct) and read from Next")
    ck.cov["exhaustive"] = True
    shutil.rmtree(r.workdir, ignore_errors=True)
    return ck
