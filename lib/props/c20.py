"""C20 -- publisher addresses convert between URL and multiaddr without changing target (spec/AddrConv.tla)."""
import os, shutil
import vlib

INV = ["RoundTrip", "HTTPSelection", "PublicOnly", "KeepsPublic", "ExportCase"]


def run(tier, seed, replay=None):
    ck = vlib.Check("C20", tier, seed, "model_checking")
    binary = vlib.build_harness()
    c = dict(MaxPath=2 if tier == "quick" else 4, MaxList=2 if tier == "quick" else 3, PIPE='"fixed"', EXPORT=True)
    r = vlib.tlc("AddrConv", ("c20.cfg", vlib.cfg_text(c, INV)), timeout=7000, tag="c20")
    ck.add_tlc("AddrConv", r, "every URL (scheme x host kind x port x path of up to %d character classes) and every address list of up to %d entries" % (c["MaxPath"], c["MaxList"]))
    p = vlib.tlc("AddrConv", ("c20p.cfg", vlib.cfg_text(dict(c, PIPE='"pinned"', EXPORT=False, MaxList=0, MaxPath=1), ["RoundTrip"])), workers=2, timeout=600, tag="c20p")
    ck.cov["tlc_runs"].append({"name": "pinned escaping pipeline (PathEscape/PathUnescape) must violate RoundTrip", "violated": p.violated})
    if p.violated != "RoundTrip":
        raise vlib.Infra("model of the pinned escaping pipeline is no longer refuted")
    shutil.rmtree(p.workdir, ignore_errors=True)
    rep = vlib.run_harness(binary, ["c20", "-cases", os.path.join(r.workdir, "c20_cases.ndjson")], timeout=7000)
    if rep.get("extra", {}).get("read_error") or (rep["inconclusive"] and not rep["divergences"]):
        raise vlib.Infra("c20 harness: %s" % rep.get("extra"))
    ck.add_report(rep)
    ck.cov["rule"] = ("one case per TLC state; URL cases are concretised with EVERY combination of the members of the path's character classes (all ASCII members "
                      "of each class, some multi-byte runes), IPv4 / IPv6 / DNS hosts, ports absent / 0 / 80 / 65535, and converted FromURL -> ToURL (plus the tls/http "
                      "spelling); list cases with concrete multiaddrs of every address class, nils and duplicates through FindHTTPAddrs, FilterPublic, "
                      "CleanPeerAddrInfo and MultiaddrsEqual against every permutation; four end-to-end cases check the endpoint a sync client actually requests")
    ck.cov["exhaustive"] = True
    ck.assumptions += ["FilterPublic retains nil entries (the pinned test requires it); 'nil entries are dropped' is asserted for CleanPeerAddrInfo",
                       "paths are compared as url.URL.Path (decoded form); IPv6 zones and IPv4-mapped IPv6 hosts are outside the claim"]
    shutil.rmtree(r.workdir, ignore_errors=True)
    return ck
