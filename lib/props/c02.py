"""C02 -- only bytes that hash to the requested CID are ever stored or reported (spec/SyncFaults.tla, body classes)."""
from props import c04


def run(tier, seed, replay=None):
    return c04.run(tier, seed, replay, pid="C02")
