"""C19 -- find responses written by the server helper are read back identically (spec/FindAPI.tla)."""
import os, shutil
import vlib


def run(tier, seed, replay=None):
    ck = vlib.Check("C19", tier, seed, "model_checking")
    binary = vlib.build_harness()
    c = dict(MaxHeaders=2, MaxTypes=2 if tier == "quick" else 3, MaxResults=1, EXPORT=True)
    r = vlib.tlc("FindAPI", ("c19.cfg", vlib.cfg_text(c, ["ModeAcceptable", "Unsupported400", "ExportCase"])), timeout=7000, tag="c19")
    ck.add_tlc("FindAPI", r, "Accept header lists (0..2 headers x 1..%d media types of 6 kinds) x preferJson x 7 path kinds x empty/non-empty result set" % c["MaxTypes"])
    rep = vlib.run_harness(binary, ["c19", "-cases", os.path.join(r.workdir, "c19_cases.ndjson"), "-client-cases", os.path.join(r.workdir, "c19_client.ndjson")], timeout=7000)
    if rep.get("extra", {}).get("read_error") or (rep["inconclusive"] and not rep["divergences"]):
        raise vlib.Infra("c19 harness: %s" % rep.get("extra"))
    ck.add_report(rep)
    ck.cov["rule"] = ("one raw HTTP request per TLC state against the real rwriter inside an HTTP handler of the usual shape (New, NewProviderResponseWriter, "
                      "WriteProviderResult*, Close, API error -> status): status, content type and framing (one JSON document / one complete result per line) "
                      "compared with the model, bodies decoded and compared with the 1..3 written results (nil / empty / binary context IDs and metadata, 0..2 "
                      "addresses); the real find client queries the prefer-JSON handler for 0..3 results in 12 variants, and a stub server that gives every answer of the model's table "
                      "(status 200/404/400/500 x whole document / cut short of its Content-Length / chunked and aborted / empty / not JSON / empty object): not-found without error only for 404 or a whole document without results; API errors round-trip through "
                      "EncodeError/DecodeError/FromResponse")
    ck.cov["exhaustive"] = True
    ck.assumptions += ["byte fields compared modulo nil/empty (JSON cannot tell them apart)", "client.Find sends no Accept header, so the round-trip law is stated for handlers created with WithPreferJson(true)"]
    shutil.rmtree(r.workdir, ignore_errors=True)
    return ck
