"""C10 -- announce messages survive encoding, and decoding is total (spec/AnnounceMsg.tla)."""
import os, shutil
import vlib

INV = ["RoundTrip", "Stable", "NoPrefix", "CapsEnforced", "AtCapAccepted", "CountEnforced", "WrongTypeRejected", "TrailingIgnored", "ExportCase"]


def run(tier, seed, replay=None):
    ck = vlib.Check("C10", tier, seed, "model_checking")
    binary = vlib.build_harness()
    c = dict(MaxAddrs=2 if tier == "quick" else 3, EXPORT=True)
    r = vlib.tlc("AnnounceMsg", ("c10.cfg", vlib.cfg_text(c, INV)), timeout=3000, tag="c10")
    ck.add_tlc("AnnounceMsg", r, "every message (0..%d addresses of 3 classes, 3 extra-data size classes, with/without original peer) x every token-level mutation" % c["MaxAddrs"])
    rep = vlib.run_harness(binary, ["c10", "-cases", os.path.join(r.workdir, "c10_cases.ndjson")], timeout=7000)
    if rep.get("extra", {}).get("read_error") or (rep["inconclusive"] > 5 and not rep["divergences"]):      # a gossip message lost once on a busy machine is repeated, not judged
        raise vlib.Infra("c10 harness: %s" % rep.get("extra"))
    ck.add_report(rep)
    ck.cov["rule"] = ("one case per TLC state, token streams concretised to CBOR bytes (CIDs of three codecs / hash functions, real multiaddr bytes, an "
                      "unregistered protocol code, empty, 5-byte and 2 MiB extra data, over-cap headers); decode verdict and decoded message compared with the "
                      "model, allocation measured against the caps, decoded messages re-encoded; well-formed encodings additionally compared with MarshalCBOR's "
                      "bytes, truncated at every byte offset (sampled every len/512 for the 2 MiB ones), round-tripped through JSON and sent through the real "
                      "HTTP sender (CBOR and JSON) to an HTTP receiver that decodes them")
    ck.cov["exhaustive"] = True
    ck.assumptions += ["arbitrary byte strings are covered for grammar-level mutation classes and byte-level truncation, not for all byte strings; the CID's own bytes are opaque",
                       "the gossip sender is exercised for messages below 512 KiB only (gossipsub limits messages to 1 MiB)"]
    shutil.rmtree(r.workdir, ignore_errors=True)
    return ck
