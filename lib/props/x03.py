"""X03 -- the find client's ListProviders / GetProvider / GetStats (spec/FindClientAPI.tla).
Coverage of the system beyond the listed properties: not in MANIFEST.json, evidence under evidence/extra/."""
import os, shutil
import vlib


def run(tier, seed, replay=None):
    ck = vlib.Check("X03", tier, seed, "model_checking")
    binary = vlib.build_harness()
    r = vlib.tlc("FindClientAPI", ("x03.cfg", vlib.cfg_text(dict(EXPORT=True), [])), workers=1, timeout=600, tag="x03")
    ck.add_tlc("FindClientAPI", r, "call table: 3 operations x 8 forms of the base URL x 5 status codes x 7 kinds of body x 4 values held by the server; the declarative reading "
               "(only a 200 yields a value, a 200 that does not decode is no API error, every other status is one that keeps the status) is checked over the whole table (ASSUME)")
    rep = vlib.run_harness(binary, ["x03", "-cases", os.path.join(r.workdir, "x03_cases.ndjson")], timeout=1200)
    if rep.get("extra", {}).get("read_error") or (rep["inconclusive"] and not rep["divergences"]):
        raise vlib.Infra("x03 harness: %s" % rep.get("extra"))
    ck.add_report(rep)
    ck.cov["rule"] = ("one real call of the find client per row against a recording server that answers with the row's status and body (valid = what json.Marshal / MarshalStats of the "
                      "library's own types writes): whether New accepts the base URL, GET path / query / Accept header on the wire, the returned value re-encoded and compared with "
                      "the server's, decode errors told from API errors, status and text of API errors")
    ck.cov["exhaustive"] = True
    shutil.rmtree(r.workdir, ignore_errors=True)
    return ck
