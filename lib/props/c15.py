"""C15 -- subscriber shutdown is clean, idempotent and final."""
import shutil
import vlib
from props import subfam


def run(tier, seed, replay=None):
    ck = vlib.Check("C15", tier, seed, "model_checking")
    binary = vlib.build_harness()
    n = 200 if tier == "quick" else 4000
    lines, wd = subfam.run_family(ck, binary, "close", n, seed, strict=True)
    shutil.rmtree(wd, ignore_errors=True)
    ck.cov["close_returns_checked"] = sum(1 for ln in lines if '"env.close.ret"' in ln)
    ck.cov["states"] = max(ck.cov["states"], len(lines))
    ck.cov["transitions"] = max(ck.cov["transitions"], len(lines))
    ck.cov["rule"] = ("seeded random schedules in which one or two concurrent Close calls start at a random point of announce-triggered and explicit syncs, "
                      "listener registration and notification delivery; TLC validates on the trace that when a Close returns no lock is held, and that no block hook, "
                      "lock acquisition or notification delivery follows; afterwards every entry point is called under a 3 s watchdog, a listener registered after "
                      "Close must get a closed channel, and the goroutine dump must contain no frame of the subscriber or its receiver")
    ck.assumptions += ["the states/transitions counts are those of the trace specification over the recorded events (the shutdown steps are validated on traces, not enumerated exhaustively)"]
    return ck
