"""C15 -- subscriber shutdown is clean, idempotent and final."""
import shutil
import vlib
from props import subfam


def run(tier, seed, replay=None):
    ck = vlib.Check("C15", tier, seed, "model_checking")
    binary = vlib.build_harness()
    # exhaustive model of doClose against explicit syncs, the watcher and its goroutines, the distributor and other closers
    big = dict(Closers="{1,2,3}", NG=2, NE=2, FIXED=True, ORDER='"code"', NR=1, REGSEL='"distDone"', NESTED=False, EXPMU='"released"') if tier == "quick" else dict(Closers="{1,2,3}", NG=3, NE=2, FIXED=True, ORDER='"code"', NR=2, REGSEL='"distDone"', NESTED=False, EXPMU='"released"')
    m = vlib.tlc("SubscriberClose", ("sc.cfg", vlib.cfg_text(big, ["NoPanic", "CloseIsFinal", "RefusedOnlyWhenGone"], properties=["QuietAfterClose"])), timeout=3000, tag="c15mc", deadlock=True)
    ck.add_tlc("SubscriberClose", m, "every interleaving of 3 Close callers with 2 explicit syncs, the watcher, 2-3 announcement goroutines and the distributor: no send on a closed "
               "channel, Close is final, nothing happens after it returned, no deadlock (TLC deadlock check on)")
    nm = vlib.tlc("SubscriberClose", ("scn.cfg", vlib.cfg_text(dict(big, NESTED=True, NR=0, NG=1 if tier == "quick" else 2), ["NoPanic", "CloseIsFinal"], properties=["QuietAfterClose"])), timeout=3000, tag="c15mcn", deadlock=True)
    ck.add_tlc("SubscriberClose/nested", nm, "explicit sync 2 is called from inside the block hook of explicit sync 1, which waits for it there, at every point of 3 concurrent Close calls: no deadlock")
    shutil.rmtree(nm.workdir, ignore_errors=True)
    for name, cc, want in (("pinned doClose (no wait for the distributor) must violate CloseIsFinal", dict(Closers="{1}", NG=1, NE=1, FIXED=False, ORDER='"code"', NR=0, REGSEL='"distDone"', NESTED=False, EXPMU='"released"'), "CloseIsFinal"),
                           ("expSyncMutex held for the rest of doClose must deadlock with a sync called from a block hook", dict(Closers="{1}", NG=1, NE=2, FIXED=True, ORDER='"code"', NR=0, REGSEL='"distDone"', NESTED=True, EXPMU='"held"'), "deadlock"),
                           ("a registration falling back on the closing channel must violate RefusedOnlyWhenGone", dict(Closers="{1}", NG=1, NE=1, FIXED=True, ORDER='"code"', NR=1, REGSEL='"closing"', NESTED=False, EXPMU='"released"'), "RefusedOnlyWhenGone"),
                           ("closing inEvents before asyncWG.Wait must violate NoPanic", dict(Closers="{1}", NG=1, NE=1, FIXED=True, ORDER='"events-first"', NR=0, REGSEL='"distDone"', NESTED=False, EXPMU='"released"'), "NoPanic")):
        v = vlib.tlc("SubscriberClose", ("scv.cfg", vlib.cfg_text(cc, ["NoPanic", "CloseIsFinal", "RefusedOnlyWhenGone"])), workers=2, timeout=600, tag="c15v", deadlock=True)
        ck.cov["tlc_runs"].append({"name": name, "violated": v.violated})
        if v.violated != want:
            raise vlib.Infra("model variant '%s' is no longer refuted (got %s)" % (name, v.violated))
        shutil.rmtree(v.workdir, ignore_errors=True)
    shutil.rmtree(m.workdir, ignore_errors=True)
    n = 200 if tier == "quick" else 4000
    lines, wd = subfam.run_family(ck, binary, "close", n, seed, strict=True)
    shutil.rmtree(wd, ignore_errors=True)
    # shutdown with a listener that has never read: its backlog (about 90 notifications, 360 in one run of eight, more than 1100
    # in one run: no bound of a plausible size holds it) must not keep the distributor, and so Close, from finishing
    more, wd = subfam.run_family(ck, binary, "stall", 16 if tier == "quick" else 96, seed, strict=True, extra_args=["-stall-max", "1300"])
    ck.cov["stalled_listener_backlog_max"] = max([sum(1 for e in sc if e["ev"] == "d.event") for sc in subfam.scenarios(more)] or [0])
    if more and ck.cov["stalled_listener_backlog_max"] <= 1024 and not ck.divergences:
        raise vlib.Infra("family stall did not build up a backlog of more than 1024 notifications")
    shutil.rmtree(wd, ignore_errors=True)
    ck.cov["close_returns_checked"] = sum(1 for ln in lines if '"env.close.ret"' in ln)
    ck.cov["rule"] = ("seeded random schedules in which one or two concurrent Close calls start at a random point of announce-triggered and explicit syncs, "
                      "listener registration and notification delivery; TLC validates on the trace that when a Close returns no lock is held, and that no block hook, "
                      "lock acquisition or notification delivery follows; afterwards every entry point is called under a 3 s watchdog, a listener registered after "
                      "Close must get a closed channel, and the goroutine dump must contain no frame of the subscriber or its receiver")
    ck.assumptions += ["the exhaustive model abstracts a sync to one block-hook step and one notification send; the real shutdown interleavings are validated on recorded traces of seeded schedules"]
    return ck
