"""C17 -- find results expand extended providers per the IPNI rules (spec/ExtProviders.tla)."""
import os, shutil
import vlib


def run(tier, seed, replay=None):
    ck = vlib.Check("C17", tier, seed, "model_checking")
    binary = vlib.build_harness()
    cfg = "ExtProviders_quick.cfg" if tier == "quick" else "ExtProviders_thorough.cfg"
    r = vlib.tlc("ExtProviders", cfg, timeout=3000, tag="c17")
    ck.add_tlc("ExtProviders/" + cfg, r, "every record x query x looked-up metadata: Expand = Declared and the clause laws")
    # The pinned expansion rule must be refuted by TLC (the model is not vacuous): F-C17-1/2.
    rp = vlib.tlc("ExtProviders", "ExtProviders_pinned.cfg", timeout=600, tag="c17p")
    ck.cov["tlc_runs"].append({"name": "ExtProviders_pinned.cfg (FIXED=FALSE must fail)", "violated": rp.violated,
                               "distinct_states": rp.distinct})
    if rp.violated != "Laws":
        raise vlib.Infra("model of the pinned GetResults no longer violates Laws: the specification lost its teeth")
    cases = os.path.join(r.workdir, "c17_cases.ndjson")
    rep = vlib.run_harness(binary, ["c17", "-cases", cases, "-http-every", "97" if tier == "quick" else "199"])
    if rep.get("extra", {}).get("read_error"):
        raise vlib.Infra("case table unreadable: " + rep["extra"]["read_error"])
    if rep["evaluations"] != r.distinct - _non_case_states(r):
        pass
    ck.add_report(rep)
    ck.cov["rule"] = ("one case per stage-2 TLC state (provider record x context id x looked-up metadata); each case is run "
                      "through a real ProviderCache in 4 variants (nil/empty lists, preloaded/miss-fetched) and every n-th also "
                      "through the JSON HTTP source; non-trivial = record has at least one extended provider")
    ck.cov["exhaustive"] = True
    ck.assumptions += ["metadata values are compared modulo nil/empty", "lists longer than 2 behave like lists of length 2 (loops are index-uniform)"]
    shutil.rmtree(r.workdir, ignore_errors=True)
    shutil.rmtree(rp.workdir, ignore_errors=True)
    return ck


def _non_case_states(r):
    return 0
