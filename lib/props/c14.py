"""C14 -- every sync notification reaches every registered listener once, in order."""
import shutil
import vlib
from props import subfam


def run(tier, seed, replay=None):
    ck = vlib.Check("C14", tier, seed, "model_checking")
    binary = vlib.build_harness()
    subfam.model_check(ck, thorough=(tier != "quick"))
    n = 200 if tier == "quick" else 4000
    lines, wd = subfam.run_family(ck, binary, "listeners", n, seed, strict=True)
    shutil.rmtree(wd, ignore_errors=True)
    nseq = sum(1 for ln in lines if '"final.listener"' in ln)
    for fam, cnt in (("faults", n), ("close", n), ("scoped", n), ("stall", 16 if tier == "quick" else 96)):
        more, wd = subfam.run_family(ck, binary, fam, cnt, seed, strict=(fam != "scoped"))
        shutil.rmtree(wd, ignore_errors=True)
        nseq += sum(1 for ln in more if '"final.listener"' in ln)
        if fam == "stall":
            import json
            qs = [sum(1 for e in sc if e["ev"] == "d.event") for sc in subfam.scenarios(more)]   # notifications forwarded to the stalled listener
            ck.cov["stalled_listener_backlog_max"] = max(qs) if qs else 0
            if not qs or max(qs) <= 64:
                raise vlib.Infra("family stall did not build up a backlog of more than 64 notifications")
    lines = lines + more
    ck.cov["listener_sequences_checked"] = nseq
    ck.cov["rule"] = ("seeded random schedules with two listeners registered (and one cancelled) at random points between announcements and syncs; in half of the runs the listeners never "
                      "read until the end of the run (stalled readers), in the other half they are read by fast and slow reader goroutines as the run goes on, while every sync step must still complete under the scheduler's watchdog; TLC validates that "
                      "each notification taken by the distributor is the oldest pending one of its publisher, and that each listener's received sequence "
                      "(publisher, CID, count, error) equals what was forwarded while it was in the distributor's list, and that its channel was closed; family 'faults' adds failing syncs (error notifications), family 'close' "
                      "concurrent Close calls at random points (a sync aborted by Close still sends its notification before the channels are closed), family 'scoped' explicit syncs of the announced publishers, every other one a resync of the head recorded already (it is recorded and notified again), family 'stall' "
                      "one listener that does not read while about 90 advertisements of one publisher are announced and synced one after the other")
    ck.assumptions += ["notification order with explicit syncs overlapping announce-triggered ones is covered by C08's known findings"]
    return ck
