"""C14 -- every sync notification reaches every registered listener once, in order."""
import shutil
import vlib
from props import subfam


def run(tier, seed, replay=None):
    ck = vlib.Check("C14", tier, seed, "model_checking")
    binary = vlib.build_harness()
    subfam.model_check(ck)
    n = 200 if tier == "quick" else 4000
    lines, wd = subfam.run_family(ck, binary, "listeners", n, seed, strict=True)
    shutil.rmtree(wd, ignore_errors=True)
    ck.cov["listener_sequences_checked"] = sum(1 for ln in lines if '"final.listener"' in ln)
    ck.cov["rule"] = ("seeded random schedules with two listeners registered (and one cancelled) at random points between announcements and syncs; listeners never "
                      "read until the end of the run (stalled readers) while every sync step must still complete under the scheduler's watchdog; TLC validates that "
                      "each notification taken by the distributor is the oldest pending one of its publisher, and that each listener's received sequence "
                      "(publisher, CID, count, error) equals what was forwarded while it was in the distributor's list, and that its channel was closed")
    ck.assumptions += ["notification order with explicit syncs overlapping announce-triggered ones is covered by C08's known findings"]
    return ck
