"""C07 -- provider cache reads never wait for writers and see consistent snapshots.

SnapshotReads.tla: reader/publisher model (TLC: every read is explained by one published snapshot;
the torn-read variant is refuted).  ProviderCache.tla supplies the writer schedules (behaviours in
which the writer is parked inside a source while readers run).  The harness replays those
behaviours with concurrent reader goroutines on the real cache; the recorded reads are validated
by TLC against SnapshotReadsTrace.tla; the same run under the Go race detector observes the
"free of data races" clause."""
import os, shutil, glob
import vlib
from props import c06


def validate_trace(ck, files, name):
    wd = os.path.join(vlib.BUILD, "tlc", "c07trace-%d" % os.getpid())
    os.makedirs(wd, exist_ok=True)
    trace = os.path.join(wd, name + ".ndjson")
    n = 0
    with open(trace, "w") as out:
        for f in files:
            for line in open(f):
                out.write(line); n += 1
    if n == 0:
        if ck.divergences:       # every behaviour diverged before a read was logged: the verdict comes from the divergences
            vlib.log("[trace] %s: no read events recorded (all behaviours diverged)" % name)
            return
        raise vlib.Infra("no read events recorded")
    r = vlib.tlc("SnapshotReadsTrace", "SnapshotReadsTrace.cfg", workers=1, timeout=3000, env_extra={"VERIF_TRACE": trace},
                 tag="c07" + name, heap="8g")
    ck.cov["tlc_runs"].append({"name": "trace validation " + name, "events": n, "accepted": r.ok, "depth": r.depth, "wall_s": round(r.wall, 1)})
    ck.cov["trace_events_validated"] = ck.cov.get("trace_events_validated", 0) + n
    vlib.log("[trace] %s: %d events, accepted=%s (%.1fs)" % (name, n, r.ok, r.wall))
    if not r.ok:
        # longest matched prefix: the line after it is the read no published snapshot explains
        lines = open(trace).read().splitlines()
        bad = lines[r.depth - 1] if 0 < r.depth <= len(lines) else "?"
        start = max(i for i in range(0, min(r.depth, len(lines))) if '"reset"' in lines[i])
        ck.divergences.append({"key": "unexplained-read", "detail": "trace line %d is not explained by any snapshot published in its window: %s" % (r.depth, bad),
                               "case": lines[start:r.depth]})
    shutil.rmtree(r.workdir, ignore_errors=True)
    return trace


def run(tier, seed, replay=None):
    ck = vlib.Check("C07", tier, seed, "model_checking")
    binary = vlib.build_harness()
    race = vlib.build_harness(race=True)
    # 1. reader model: faithful holds, torn-read mutant refuted
    r = vlib.tlc("SnapshotReads", "SnapshotReads_mc.cfg", timeout=900, tag="c07mc")
    ck.add_tlc("SnapshotReads/mc", r, "2 readers, 2 providers, 5 publications, update and merge publications")
    t = vlib.tlc("SnapshotReads", "SnapshotReads_torn.cfg", timeout=900, tag="c07torn")
    ck.cov["tlc_runs"].append({"name": "SnapshotReads TORN=TRUE must violate ListsConsistent", "violated": t.violated})
    if t.violated != "ListsConsistent":
        raise vlib.Infra("torn-read model is no longer refuted")
    shutil.rmtree(r.workdir, ignore_errors=True); shutil.rmtree(t.workdir, ignore_errors=True)
    # 2. writer schedules from ProviderCache.tla
    cfgs = c06.QUICK if tier == "quick" else c06.THOROUGH
    if tier == "quick":
        cfgs = {"A-versions": c06.consts(MaxEnv=0, MaxTicks=0), "B-env": cfgs["B-env"], "F-merge": cfgs["F-merge"], "D-reappear": cfgs["D-reappear"], "G-stale": cfgs["G-stale"]}
    else:
        # the long timed single-provider histories (TTL expiry cycles) belong to C06; readers add nothing there but hours
        cfgs = {k: v for k, v in cfgs.items() if k not in ("T5-reappear", "T2-ttl3")}
    per = max(2, vlib.NCPU // len(cfgs))
    jobs = [(name, dict(module="ProviderCacheMC", cfg=(name + ".cfg", vlib.cfg_text(c, c06.INV, view="view")), workers=per,
                        timeout=14000, tag="c07" + name)) for name, c in cfgs.items()]
    res = vlib.tlc_parallel(jobs)
    sim = c06.simulate(c06.SIM_NOTICK, seed, 250 if tier == "quick" else 5000, "c07sim")
    cfgs = dict(cfgs); cfgs["simulate"] = c06.SIM_NOTICK; res["simulate"] = sim
    traces = []
    for name, c in cfgs.items():
        g = res[name]
        ck.add_tlc("ProviderCache/" + name, g, "writer schedules; ReadersNeverBlocked and NoRegress checked in every state")
        if not g.ok:
            continue
        f = os.path.join(g.workdir, "c06_behaviours.ndjson")
        s, p = c06.srcs_provs(c)
        common = ["-behaviours", f, "-srcs", s, "-provs", p, "-ttl", str(c["TTL"]), "-ticklen", str(c["TickLen"]), "-unit-ms", "10"]
        sim_run = name == "simulate"
        nbeh = sum(1 for _ in open(f))
        # thorough: the configurations export up to 180 000 behaviours each; every n-th is replayed so that a configuration costs
        # minutes, not hours (8 000 with plain readers, 2 000 under the race detector)
        for label, bin_, every, procs in (("plain", binary, 1 if sim_run else (2 if tier == "quick" else max(1, nbeh // 8000)), vlib.NCPU // 2),
                                          ("race", race, 3 if sim_run else (12 if tier == "quick" else max(4, nbeh // 2000)), vlib.NCPU // 2)):
            prefix = os.path.join(g.workdir, "reads-%s" % label)
            rep = vlib.run_harness(bin_, ["c07"] + common + ["-trace-out", prefix, "-every", str(every), "-procs", str(procs)], timeout=14000)
            if rep.get("extra", {}).get("read_error") or rep.get("extra", {}).get("shards_failed"):
                raise vlib.Infra("c07 harness failed: %s" % rep.get("extra"))
            if rep["evaluations"] and rep["evaluations"] <= 20000 and rep["inconclusive"] > 0.2 * rep["evaluations"] and not rep["divergences"]:
                # the machine is busy: the real-time TTL steps were disturbed; repeat with a coarser clock and fewer processes (the
                # configurations of the quick tier; the thorough ones are too large to be run twice)
                vlib.log("[readers] %s/%s: timing disturbed (%d of %d inconclusive), repeating with a 40 ms clock unit" % (name, label, rep["inconclusive"], rep["evaluations"]))
                for old_trace in glob.glob(prefix + ".*"):
                    os.remove(old_trace)
                slow = [("40" if common[i - 1] == "-unit-ms" else a) for i, a in enumerate(common)]
                rep = vlib.run_harness(bin_, ["c07"] + slow + ["-trace-out", prefix, "-every", str(every), "-procs", str(max(2, procs // 2))], timeout=14000)
                if rep.get("extra", {}).get("read_error") or rep.get("extra", {}).get("shards_failed"):
                    raise vlib.Infra("c07 harness failed: %s" % rep.get("extra"))
            vlib.log("[readers] %s/%s: %d behaviours, %d inconclusive, %d divergences, extra=%s" % (
                name, label, rep["evaluations"], rep["inconclusive"], len(rep["divergences"]), rep.get("extra")))
            ck.add_report(rep)
            ck.cov["reads_while_writer_parked_%s_%s" % (name, label)] = rep["extra"].get("reads_completed_while_writer_parked", 0)
            traces.append((name + "-" + label, sorted(glob.glob(prefix + ".*"))))
        if ck.divergences:
            break       # the verdict is settled: the remaining configurations would only cost watchdog time
    # 3. TLC validates the recorded reads
    for name, files in traces:
        validate_trace(ck, files, name)
    for g in res.values():
        shutil.rmtree(g.workdir, ignore_errors=True)
    ck.cov["rule"] = ("behaviours of ProviderCache.tla with at least one publication, replayed with 2 reader goroutines calling List/Get/GetResults "
                      "continuously; non-trivial = readers completed reads while the writer was parked inside a source (holding the writer lock)")
    ck.assumptions += ["data-race freedom is judged by the Go race detector on these schedules", "Get/GetResults readers only run in histories without TTL expiry (a cached provider cannot turn into a miss there)"]
    return ck
