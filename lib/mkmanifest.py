#!/usr/bin/env python3
"""Regenerates MANIFEST.json from the table below (single source of truth for the interface)."""
import json, os
ROOT = os.path.dirname(os.path.dirname(os.path.abspath(__file__)))

ENV = "cd /verif && "
CHECKS = {
 "C17": dict(level="model_checking", design="6/C17", engine="tlc+harness",
   technique="TLA+ spec ExtProviders.tla model-checked by TLC (expansion transcribed from GetResults vs. declarative IPNI rules); every TLC state exported as a case and executed on a real pcache.ProviderCache (exhaustive case-table conformance)",
   text="TLC enumerates every provider record within the bounds (lists of 0..2 extended providers at chain and context level, all metadata classes nil/empty/equal/different, list-length mismatches, override on/off, main provider anywhere) and checks that the transcription of GetResults equals the declarative rules; each enumerated state is then run through the real ProviderCache in four delivery variants plus the JSON source, so the code is compared with the model on the complete bounded input space rather than on samples.",
   note="Assumes lists longer than the bound behave like bounded ones (index-uniform loops); metadata compared modulo nil/empty; TLC, the Go toolchain and the harness concretisation are trusted."),
 "C06": dict(level="model_checking", design="6/C06", engine="tlc+harness",
   technique="TLA+ spec ProviderCache.tla (writer lock, per-source refresh steps, cancel, miss path, merge rule, TTL clock) model-checked by TLC against declarative convergence/expiry rules; every terminal-state behaviour replayed step-by-step on a real pcache.ProviderCache with gated sources (behaviour replay conformance)",
   text="TLC explores every history within the bounds (2-3 sources, 2-3 providers, record versions, per-source failures, environment changes between the source fetches of one refresh, cancellation at each source index, a second call parked on the writer lock, miss-fetches, negative entries, TTL ticks) and checks the convergence, expiry, negative-entry and merge invariants in every state; the same run exports one behaviour per terminal state and each is executed on the real cache, comparing List/Get/Refresh results and source-call counts after every step. The model of the pinned Refresh is refuted by TLC in the same run (non-vacuity).",
   note="Bounded histories (calls/env changes/ticks per cfg in the evidence); TTL steps use real time with guard bands (disturbed runs are inconclusive, never judged); at most one call parked on the writer lock; TLC + harness trusted."),
 "C07": dict(level="model_checking", design="6/C07", engine="tlc+harness",
   technique="TLA+ specs SnapshotReads.tla (reader/publisher model, TLC; torn-read variant refuted) and ProviderCache.tla (writer schedules); reads recorded from real reader goroutines running against gated refreshes are trace-validated by TLC against SnapshotReadsTrace.tla; Go race detector on the same schedules",
   text="TLC checks on the reader/publisher model that every read is served from exactly one published snapshot inside the read's window and that a reader's snapshot index never decreases (2 readers, 5 publications, update and merge publications); ProviderCache.tla's invariants ReadersNeverBlocked / NoRegress hold in every writer state. The binding replays the exhaustive and the simulated behaviours with reader goroutines calling List/Get/GetResults while the writer is parked inside a source (holding the writer lock) and right before every snapshot Store (yield hooks); a reader that makes no progress is 'blocked where the spec says enabled'; every recorded read is validated by TLC against the publication sequence; the -race build of the same run observes the data-race clause.",
   note="Schedules are those reachable by parking the writer in sources and at the Store hook; data races are judged by the Go race detector on these schedules only; Get/GetResults readers run only in histories without TTL expiry."),
 "C09": dict(level="model_checking", design="6/C09", engine="tlc+harness",
   technique="TLA+ spec Receiver.tla (allow filter -> closed -> LRU duplicate filter, capacity-1 out channel, un-cache) model-checked by TLC against a two-sided declarative reading of the duplicate rule; behaviours replayed on the real stringLRU (small capacities, verif export) and on a real announce.Receiver (capacity 64, BFS + simulated long histories)",
   text="TLC checks for every history within the bounds that the operational LRU never contradicts the declarative rule (dropped only if seen and not un-cached since; certainly filtered inside the K-window; certainly delivered after K kept newer CIDs), that filtered announcements leave the filter untouched and that duplicates refresh recency; every terminal-state behaviour is replayed: filter contents after every operation on the real stringLRU for K=1..3 (exhaustive) and K=8 (simulated), and call results / delivered CID, peer and filtered addresses on a real Receiver for K=64 including simulated histories over 80 CIDs that cross the eviction boundary.",
   note="The pubsub path (OrigPeer attribution, self-republication) is not exercised (no libp2p gossip in the replay); ambiguous corners of the wording (un-cache of other CIDs inside the window) accept both outcomes."),
 "C16": dict(level="model_checking", design="6/C16", engine="tlc+harness",
   technique="TLA+ spec ReceiverLocks.tla (every lock/unlock/channel step; TLC: termination under weak fairness, result table, mutex never leaked; pinned Close refuted) plus call-level behaviours of Receiver.tla replayed on a real Receiver (with and without pubsub topic) under a watchdog",
   text="TLC explores all interleavings of the critical-section steps of Close (1-3 times), Direct, Next and UncacheCid for 2-3 threads and proves on the model that every call returns once a Close has returned, with the specified results and no leaked mutex; the call-level model (blocked Direct / Next, wake-up by Close, repeated Close) is enumerated exhaustively and each behaviour is executed on the real Receiver with every call under a 2 s watchdog, so a return path that leaves the receiver unusable shows as a hang at the next call; a subset runs with a libp2p host and topic and checks that the watcher goroutine exits.",
   note="Interleavings inside calls are decided on the model only; the code is bound at call granularity (all blocking points are API boundaries). At most one blocked sender / receiver."),
 "C03": dict(level="model_checking", design="6/C03", engine="tlc+harness",
   technique="TLA+ spec SignedHead.tla (symbolic signatures; Validate + signer comparison transcribed; full alteration space) checked by TLC; every state exported as a case and executed with real keys through head.Decode/Validate, Syncer.GetHead and Subscriber.SyncAdChain (exhaustive case-table conformance), plus byte alterations of the encoding",
   text="TLC enumerates publisher x head x topic x expected peer x alteration (changed CID/topic, replaced key, foreign signature, re-signed by another identity, swapped key/signature between valid heads, empty or malformed key/signature) and checks that GetHead's rule accepts exactly the honest heads of the expected publisher and yields the signed CID; the model without the signer comparison is refuted. Each case is concretised for three key types (RSA sampled) and run through the real decoder, client and subscriber against an HTTP server returning the crafted head, observing result, latest-synced value and requests after /head; a real Publisher's served heads are verified for all key types.",
   note="Unforgeability assumed (symbolic). Byte-level alterations are sampled in quick (every 7th byte, two masks), exhaustive in thorough."),
 "C05": dict(level="model_checking", design="6/C05", engine="tlc+harness",
   technique="TLA+ spec AdSignature.tla (symbolic envelopes, Sign/SignWithExtendedProviders, single-value and envelope mutations, VerifySignature transcribed) checked by TLC against the declarative rule; every state exported as a case and executed with real keys, both codecs (exhaustive case-table conformance) plus envelope byte-alteration sweeps",
   text="TLC enumerates ad shape x signer x key assigned to each extended-provider entry x single mutation and checks Verify(Mutate(Sign)) against the declarative outcome (accepted iff unchanged, main provider listed, every entry signed by the identity it names); the pinned rule is refuted by TLC. Every case runs on the real Sign/SignWithExtendedProviders/VerifySignature with Ed25519, secp256k1, ECDSA (RSA sampled) keys, through no codec, DAG-JSON and DAG-CBOR round trips; sampled honest ads get every byte of key, payload and signature of every envelope altered.",
   note="Unforgeability assumed; neighbouring-value shifts are outside the claim; lists bounded (<=2 addresses, <=1 (quick) / 2 (thorough) extended providers)."),
 "C18": dict(level="model_checking", design="6/C18", engine="tlc+harness",
   technique="TLA+ spec SignedRequest.tla (symbolic envelopes with domain and payload type; readers transcribed) checked by TLC; every state exported as a case and executed with the real constructors/readers for 4 key types (exhaustive case-table conformance) plus byte alterations of sealed requests",
   text="TLC enumerates made-for kind x read-as kind x named provider x signing key x alteration and checks that the readers accept exactly unaltered same-domain requests signed by the named provider, returning the sealed fields; the pinned ingest reader is refuted. Every case is built with MakeIngestRequest / MakeRegisterRequest and envelope-field substitution and read with ReadIngestRequest / ReadRegisterRequest for Ed25519, secp256k1, ECDSA and RSA keys; every n-th byte of honest sealed requests is altered.",
   note="Unforgeability assumed (symbolic)."),
 "C01": dict(level="model_checking", design="6/C01", engine="tlc+harness",
   technique="TLA+ spec ChainSync.tla (option layer of SyncAdChain/SyncEntries, segmented loop of handle, block walk with stop-link/local/request tests) model-checked by TLC against the declarative segment definition; every configuration exported and executed as a real sync against a real Publisher (exhaustive case-table conformance)",
   text="TLC enumerates every configuration within the bounds -- chain length, queried or explicit head, stop CID (none / on chain / = head / off chain), latest-synced, resync, subscriber / first-sync / per-call depth limits, subscriber / per-call segment sizes, every subset of pre-stored blocks, entries / single-entry / all-links entry points -- and checks that the implementation-shaped walk reports, requests, stores, returns and records exactly what the declarative reading prescribes (an off-by-one variant of the segment loop is refuted); each configuration is then run as a real sync (real chain, real Publisher in plain-HTTP and libp2p-HTTP mode with a read opener that logs served blocks, real Subscriber with exactly those options) and hook sequence, served blocks, store, returned head, latest-synced and notifications are compared.",
   note="Bounds per tier in the evidence (quick: chains <= 4, every 4th option-layer configuration; thorough: chains <= 6, all). Hooks follow the previous link. Tree-shaped DAGs for the all-links variant are not covered."),
 "C02": dict(level="model_checking", design="6/C02", engine="tlc+harness",
   technique="TLA+ spec SyncFaults.tla restricted to response-body classes (bit flip, truncation, appended bytes, another valid block, empty, oversized) at every request index, model-checked by TLC (store soundness, reported-implies-verified, clean retry converges); every behaviour replayed against a real Subscriber through a body-rewriting proxy for five digest specifications, with a full re-hash audit of the destination store after every sync",
   text="TLC checks on the implementation-shaped model that no body class at any request position of an explicit or announce-triggered, segmented or unsegmented sync gets a block committed or reported whose content differs from its CID, that the sync fails instead, and that a later honest sync converges; every terminal behaviour is executed against the real code with the body class concretised (seeded bit positions / truncation lengths / substituted chain blocks incl. the next one wanted, 64 KiB and 4 MiB bodies) for CIDs using sha2-256 (32, 20, 16 byte digests), sha2-512 and blake3, and after every sync every stored block is re-hashed with the function and length of the CID it is stored under.",
   note="Collision freedom of >=16-byte digests assumed. Bit positions and truncation lengths are sampled per run (2 variants quick, 64 thorough), not exhaustive."),
 "C04": dict(level="model_checking", design="6/C04", engine="tlc+harness",
   technique="TLA+ spec SyncFaults.tla (fault kind x request index x client mode x trigger x segmentation, then a clean retry) model-checked by TLC; every behaviour replayed on a real Subscriber through a fault-injecting proxy in front of a real Publisher (behaviour replay conformance); pinned noPath latch refuted",
   text="TLC checks for every single fault (HTTP 400/500/403/404, connection reset, short write, stall past the client timeout, caller cancellation, hook FailSync, and the body classes of C02) at every request index of explicit and announce-triggered, segmented and unsegmented syncs in both client modes that latest-synced and the notification stream are as required after the failure, that verified blocks stay, that an announced CID can be announced again, and that the clean retry ends where a fault-free run ends (pairs of faulty syncs in the thorough tier); each behaviour is executed against the real Subscriber and Publisher through the proxy, comparing result, hook calls, stored blocks, store audit, latest-synced and notifications after every sync.",
   note="Publishers with one address; resets that net/http retries transparently are counted as tolerated; stream-transport (libp2p stream) client not exercised."),
 "C08": dict(level="model_checking", design="6/C08", engine="tlc+harness",
   technique="TLA+ spec Subscriber.tla (receiver cache/out channel, watcher swap+spawn, per-announcement goroutines with asyncMutex/semaphore/syncMutex, explicit syncs) model-checked by TLC; real Subscriber driven through seeded random schedules by a gate scheduler over yield hooks, every recorded trace validated by TLC against SubscriberTrace.tla (trace validation)",
   text="TLC checks exhaustively on the model (2-3 publishers x 2-3 ads, semaphore 1-2) the quiescence clause (latest = last announced head, every advertisement reported exactly once), the semaphore bound and lock exclusivity for announce-only histories, and exhibits the overlap findings when an explicit sync is mixed in. The real Subscriber runs under the gate scheduler: exactly one goroutine runs between hooks, so the recorded event order is the execution order; TLC replays each trace on the abstract state and rejects any step the specification does not allow (a lock taken while held, more syncs than the semaphore allows, a taken message that is not the last one swapped in, a block-hook call outside the publisher's sync lock) and checks the end-of-run quiescence clause. Runs mixed with explicit syncs of the same publishers are validated the same way; their exactly-once / final-latest / order violations are classified structurally as the known findings.",
   note="Schedules explored are those reachable by parking goroutines at the hooks with real publishers (seeded random choice, 160 scenarios per family in quick); known findings F-C08 (explicit sync overlapping / preceding a pending announcement) are open and reported as KNOWN-FINDING."),
 "C14": dict(level="model_checking", design="6/C14", engine="tlc+harness",
   technique="Trace validation by TLC (SubscriberTrace.tla: distributor list, pending notifications per publisher, expected per-listener sequences) of seeded gate-scheduled runs of a real Subscriber with listeners registered / cancelled at random points and never read until the end; Subscriber.tla model-checked for the producers",
   text="Each run registers two listeners (one is cancelled) at random points of announcement bursts and syncs of 1-3 publishers; the gate scheduler interleaves the registration and cancellation rendezvous, the distributor's steps and the syncs' record-then-notify steps one goroutine at a time. TLC replays the trace: every notification the distributor takes must be the oldest pending one of its publisher with the CID recorded as latest and the block count of that sync, it is appended to the expected sequence of exactly the listeners in the distributor's list, and at the end each listener's received sequence must equal its expected sequence and its channel must be closed. Listeners do not read during the run, so a blocked sync or distributor shows as a scheduler hang.",
   note="Order under explicit syncs overlapping announce-triggered ones is part of C08's open findings and excluded here."),
 "C15": dict(level="model_checking", design="6/C15", engine="tlc+harness",
   technique="Trace validation by TLC (SubscriberTrace.tla close clauses) of seeded gate-scheduled runs in which 1-2 concurrent Close calls start at random points of explicit and announce-triggered syncs; followed by API-after-close calls under a watchdog and a goroutine-leak scan",
   text="The gate scheduler starts one or two Close calls at a random step of runs with announce-triggered syncs, explicit syncs (of a separate publisher) and a listener, and interleaves the steps of doClose with everything else. TLC rejects a trace in which a Close returns while a publisher's sync or async lock is still held, or in which a block hook, a lock acquisition or a notification delivery follows a returned Close; a step that never completes is a scheduler hang. After the run every entry point (SyncAdChain, SyncEntries, Announce, OnSyncFinished, GetLatestSync, RemoveHandler, Close) must return within 3 s, a listener registered after Close must get a closed channel, and no goroutine with a Subscriber/handler/Receiver frame may remain.",
   note="Shutdown interleavings are validated on recorded traces (seeded random schedules), not enumerated exhaustively; store writes after Close are covered through the block-hook / lock events (a write happens only inside a sync)."),
}
PENDING = {
}
NOT_YET = ["C01","C02","C03","C04","C05","C06","C07","C08","C09","C10","C11","C12","C13","C14","C15","C16","C18","C19","C20"]

def main():
    checks = []
    for pid in sorted(CHECKS):
        c = CHECKS[pid]
        checks.append({
            "property_id": pid,
            "quick_cmd": ENV + "./check %s --tier quick" % pid,
            "thorough_cmd": ENV + "./check %s --tier thorough" % pid,
            "evidence_file": "/verif/evidence/%s.json" % pid,
            "replay_cmd_template": ENV + "./check %s --replay {path}" % pid,
            "engine": c["engine"],
            "level_claimed": {"category": c["level"], "text": c["text"], "design_ref": "DESIGN.md section " + c["design"]},
            "level_note": c["note"],
            "technique": c["technique"],
        })
    man = {
        "version": 1,
        "setup_cmd": "cd /verif && ./check setup",
        "hooks": {
            "guard": "verif",
            "enable": "go build -tags verif (the harness module under /verif/harness replaces github.com/ipni/go-libipni with /repo)",
            "baseline_off_cmd": "cd /repo && GOFLAGS=-mod=mod GOPROXY=off go test -vet=off -count=1 -timeout 25m ./...",
            "source_commits": json.load(open(os.path.join(ROOT, "lib", "hook_commits.json"))) if os.path.exists(os.path.join(ROOT, "lib", "hook_commits.json")) else [],
            "add_only": True,
        },
        "engines": [
            {"name": "tlc+harness", "path": "/verif/check", "serves_properties": sorted(CHECKS),
             "kind_free_text": "explicit TLA+ specifications under /verif/spec checked by TLC; bound to the Go code by the harness under /verif/harness (case tables, behaviour replay, trace validation)"},
        ],
        "checks": checks,
        "notes": "See DESIGN.md. known_findings.json lists genuine defects (fixed / open).",
        "not_applicable": [{"property_id": p, "reason": "check not built yet in this round (planned, see DESIGN.md section 6); not claimed until it exists"} for p in NOT_YET if p not in CHECKS],
    }
    json.dump(man, open(os.path.join(ROOT, "MANIFEST.json"), "w"), indent=1)
    print("MANIFEST.json: %d checks, %d not_applicable" % (len(checks), len(man["not_applicable"])))

if __name__ == "__main__":
    main()
