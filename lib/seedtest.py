#!/usr/bin/env python3
"""seedtest.py <seed-dir> [--tier quick] [--no-confirm | --confirm-only]
Confirms a seeded change (patch.diff + demo_test.go + meta.json) in a scratch worktree and then runs
the property's check against /repo with the patch applied (and undoes it).  Prints one summary line."""
import json, os, subprocess, sys, shutil, time

def sh(cmd, cwd=None, env=None, timeout=3600):
    p = subprocess.run(cmd, shell=True, cwd=cwd, env=env, stdout=subprocess.PIPE, stderr=subprocess.STDOUT, text=True, timeout=timeout)
    return p.returncode, p.stdout

def main():
    d = os.path.abspath(sys.argv[1])
    tier = "quick"
    if "--tier" in sys.argv:
        tier = sys.argv[sys.argv.index("--tier") + 1]
    meta = json.load(open(os.path.join(d, "meta.json")))
    pid = meta["property"]
    env = dict(os.environ, GOFLAGS="-mod=mod", GOPROXY="off")
    env.pop("GOSUMDB", None)
    out = {"seed": os.path.basename(d), "property": pid}
    if "--no-confirm" not in sys.argv:
        wt = "/tmp/seedcheck-%d" % os.getpid()
        sh("git -C /repo worktree add -q %s HEAD" % wt)
        try:
            rc, o = sh("git apply %s/patch.diff" % d, cwd=wt)
            if rc != 0:
                out["confirm"] = "patch does not apply: " + o[-300:]
                print(json.dumps(out)); return
            td = os.path.join(wt, meta["test_dir"])
            rc, o = sh("go build ./... && go vet ./%s/" % meta["test_dir"], cwd=wt, env=env)
            out["builds"] = rc == 0
            rc, o = sh("go test -count=1 -timeout 20m ./... 2>&1 | tail -40", cwd=wt, env=env)
            out["suite_passes_with_patch"] = ("FAIL" not in o)
            if not out["suite_passes_with_patch"]:
                # a test of the pinned suite that is flaky on a busy machine: run the failed packages once more
                import re
                pkgs = sorted(set(re.findall(r"FAIL\s+(github.com/ipni/go-libipni\S*)", o)))
                if pkgs:
                    rcr, o_r = sh("go test -count=1 -timeout 20m %s 2>&1 | tail -40" % " ".join(pkgs), cwd=wt, env=env)
                    out["suite_passes_with_patch"] = "FAIL" not in o_r
                    out["suite_retried"] = pkgs
                    o = o_r
            if not out["suite_passes_with_patch"]:
                out["suite_tail"] = o[-600:]
            shutil.copy(os.path.join(d, "demo_test.go"), os.path.join(td, "zz_seed_demo_test.go"))
            rc1, o1 = sh("go test -count=1 -run 'Demo|C[0-9][0-9]|Seed|Test' -timeout 10m ./%s/ 2>&1 | tail -30" % meta["test_dir"], cwd=wt, env=env)
            out["demo_fails_with_patch"] = "FAIL" in o1
            sh("git apply -R %s/patch.diff" % d, cwd=wt)
            rc2, o2 = sh("go test -count=1 -timeout 10m ./%s/ 2>&1 | tail -30" % meta["test_dir"], cwd=wt, env=env)
            out["demo_passes_without_patch"] = "FAIL" not in o2 and "ok" in o2
            if not out["demo_passes_without_patch"]:
                out["demo_without_tail"] = o2[-600:]
        finally:
            sh("git -C /repo worktree remove --force %s" % wt)
    if "--confirm-only" in sys.argv:
        print(json.dumps(out)); return
    # The check runs against a scratch worktree with the patch applied (VERIF_REPO), so /repo itself stays
    # untouched and other checks can run meanwhile; evidence and replays of seeded runs go to scratch dirs.
    wt2 = "/tmp/seedrun-%d" % os.getpid()
    sh("git -C /repo worktree add -q %s HEAD" % wt2)
    rc, o = sh("git apply %s/patch.diff" % d, cwd=wt2)
    if rc != 0:
        sh("git -C /repo worktree remove --force %s" % wt2)
        out["check"] = "patch does not apply: " + o[-200:]
        print(json.dumps(out)); return
    t0 = time.time()
    try:
        env2 = dict(os.environ, VERIF_REPO=wt2, VERIF_EVID=wt2 + "-evid", VERIF_REPLAYS=wt2 + "-replays")
        rc, o = sh("./check %s --tier %s" % (pid, tier), cwd=os.path.dirname(os.path.dirname(os.path.abspath(__file__))), env=env2, timeout=7200)
    finally:
        sh("git -C /repo worktree remove --force %s; rm -rf %s-evid %s-replays" % (wt2, wt2, wt2))
    out["check_rc"] = rc
    out["check_wall_s"] = round(time.time() - t0, 1)
    out["detected"] = rc == 1 and "VIOLATION property=%s" % pid in o
    keys = sorted(set(l.split("key=")[1].split(" ")[0] for l in o.splitlines() if l.startswith("[divergence] key=")))
    out["divergence_keys"] = keys
    if rc not in (0, 1):
        out["check_tail"] = o[-800:]
    print(json.dumps(out))

if __name__ == "__main__":
    main()
