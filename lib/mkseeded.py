#!/usr/bin/env python3
"""mkseeded.py <results.jsonl>... : file the confirmed seeded changes under /verif/seeded/<seed>/ and write seeded/README.md.
For a seed that appears in several result files the last line wins (results after the machinery was strengthened)."""
import json, os, shutil, sys

ROOT = os.path.dirname(os.path.dirname(os.path.abspath(__file__)))
SRCS = [os.path.join(ROOT, "seeded"), "/tmp/seed/out", "/tmp/seed2/out", "/tmp/seed3/out", "/tmp/seed4/out", "/tmp/seed5/out", "/tmp/seed6/out", "/tmp/seed7/out", "/tmp/seed8/out", "/tmp/seed9/out", "/tmp/seed10/out"]   # a filed seed wins: its patch may have been ported to a repaired tree   # where a seed's patch / demonstration / meta may be found


def main():
    res = {}
    for f in sys.argv[1:]:
        for line in open(f):
            line = line.strip()
            if not line.startswith("{"):
                continue
            d = json.loads(line)
            prev = res.get(d["seed"], {})
            merged = dict(prev)
            merged.update(d)           # later runs (--no-confirm) keep the earlier confirmation fields
            if d.get("check_rc") in (0, 1, 2):      # exit 2 on a seeded change: not detected
                merged["history"] = prev.get("history", []) + [bool(d.get("detected"))]
            res[d["seed"]] = merged
    rows = []
    for seed in sorted(res):
        d = res[seed]
        confirmed = d.get("builds") and d.get("suite_passes_with_patch") and d.get("demo_fails_with_patch") and d.get("demo_passes_without_patch")
        src = next((os.path.join(d0, seed) for d0 in SRCS if os.path.isfile(os.path.join(d0, seed, "patch.diff"))), "")
        if not confirmed or not src:
            rows.append((seed, "not kept (not confirmed: %s)" % {k: d.get(k) for k in ("builds", "suite_passes_with_patch", "demo_fails_with_patch", "demo_passes_without_patch")}, "", ""))
            continue
        dst = os.path.join(ROOT, "seeded", seed)
        os.makedirs(dst, exist_ok=True)
        for f in ("patch.diff", "demo_test.go"):
            if os.path.abspath(src) != os.path.abspath(dst):
                shutil.copy(os.path.join(src, f), dst)
        meta = json.load(open(os.path.join(src, "meta.json")))
        meta["confirmed_by"] = ["git apply patch.diff in a scratch worktree of /repo HEAD", "go build ./... && go vet ./<test_dir>/",
                                "go test -count=1 ./... (whole pinned suite) passes with the patch",
                                "demo_test.go copied into <test_dir>: fails with the patch, passes after git apply -R"]
        meta["check_run"] = "VERIF_REPO=<scratch worktree with the patch> ./check %s --tier quick" % d["property"]
        meta["check_exit"] = d.get("check_rc")
        meta["detected"] = bool(d.get("detected"))
        meta["divergence_keys"] = d.get("divergence_keys", [])
        hist = d.get("history", [])
        meta["missed_before_strengthening"] = (bool(hist) and not hist[0]) or str(d.get("first", "")).startswith("missed")
        for extra in ("patch.pinned.diff", "demo.pinned_test.go.txt"):      # a change ported to a repaired tree keeps its original form
            if os.path.isfile(os.path.join(src, extra)) and os.path.abspath(src) != os.path.abspath(dst):
                shutil.copy(os.path.join(src, extra), dst)
        json.dump(meta, open(os.path.join(dst, "meta.json"), "w"), indent=1)
        rows.append((seed, meta.get("summary", "")[:160].replace("\n", " "), meta.get("needs", "")[:160].replace("\n", " "),
                     ("caught" + (" (after strengthening the check)" if meta["missed_before_strengthening"] else "") + ": " + ", ".join(meta["divergence_keys"])) if meta["detected"] else "MISSED (exit %s)" % d.get("check_rc")))
    with open(os.path.join(ROOT, "seeded", "README.md"), "w") as f:
        f.write("# Seeded changes (written by sub-agents from the property text only; confirmed; run against the quick checks)\n\n")
        f.write("| seed | change | needs | result |\n|---|---|---|---|\n")
        for r in rows:
            f.write("| %s | %s | %s | %s |\n" % r)
        n = sum(1 for r in rows if r[3].startswith("caught"))
        f.write("\n%d of %d kept seeds are caught by the property's quick check.\n" % (n, sum(1 for r in rows if r[3])))
    print(open(os.path.join(ROOT, "seeded", "README.md")).read())


if __name__ == "__main__":
    main()
