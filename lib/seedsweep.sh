#!/bin/bash
# seedsweep.sh <seed>... : run every quick check with the given VERIF_SEED values on the unchanged tree
# (evidence and replays go to scratch directories); prints one line per run, exits 1 if any run did not exit 0.
cd "$(dirname "$0")/.."
out=${SWEEP_OUT:-/tmp/verif-sweep}
mkdir -p "$out"
bad=0
for seed in "$@"; do
  for p in C01 C02 C03 C04 C05 C06 C07 C08 C09 C10 C11 C12 C13 C14 C15 C16 C17 C18 C19 C20; do
    VERIF_EVID=$out/evid VERIF_REPLAYS=$out/replays ./check $p --tier quick --seed $seed > $out/$p-$seed.log 2>&1
    rc=$?
    echo "$p seed=$seed rc=$rc $(grep -c KNOWN-FINDING $out/$p-$seed.log) known-finding lines"
    [ $rc -ne 0 ] && bad=1
  done
done
exit $bad
