// Command harness binds the TLA+ specifications under /verif/spec to the real go-libipni
// code: each sub-command concretises TLC-exported cases / behaviours, runs them through the
// library and reports divergences (see /verif/DESIGN.md).
package main

import (
	"fmt"
	"os"

	"verifharness/internal/c01"
	"verifharness/internal/c04"
	"verifharness/internal/c05"
	"verifharness/internal/c10"
	"verifharness/internal/c11"
	"verifharness/internal/c12"
	"verifharness/internal/c13"
	"verifharness/internal/c17"
	"verifharness/internal/c19"
	"verifharness/internal/c20"
	"verifharness/internal/findcli"
	"verifharness/internal/ingestapi"
	"verifharness/internal/pc"
	"verifharness/internal/pubapi"
	"verifharness/internal/rcv"
	"verifharness/internal/rcvgate"
	"verifharness/internal/rep"
	"verifharness/internal/sigs"
	"verifharness/internal/sub"
)

var commands = map[string]func(args []string) *rep.Report{
	"c01":     c01.Run,
	"c03":     sigs.RunC03,
	"c04":     c04.Run,
	"c05":     c05.Run,
	"c18":     sigs.RunC18,
	"c10":     c10.Run,
	"c11":     c11.Run,
	"c12":     c12.Run,
	"c13":     c13.Run,
	"c17":     c17.Run,
	"c19":     c19.Run,
	"c20":     c20.Run,
	"c06":     pc.Run,
	"c07":     pc.RunReaders,
	"c08":     sub.Run,
	"c09":     rcv.Run,
	"c16":     rcvgate.Run,
	"c01pair": c01.RunPairs,
	"x01":     pubapi.Run,
	"x02":     ingestapi.Run,
	"x03":     findcli.Run,
}

func main() {
	if len(os.Args) < 2 {
		fmt.Fprintln(os.Stderr, "usage: harness <command> [args]")
		os.Exit(3)
	}
	f, ok := commands[os.Args[1]]
	if !ok {
		fmt.Fprintln(os.Stderr, "unknown command", os.Args[1])
		os.Exit(3)
	}
	r := f(os.Args[2:])
	r.Print()
}
