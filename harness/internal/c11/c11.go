// Package c11 runs the cases of spec/Metadata.tla through the real metadata package.
package c11

import (
	"bytes"
	"encoding/json"
	"flag"
	"fmt"
	"runtime"

	"github.com/ipfs/go-cid"
	"github.com/ipni/go-libipni/metadata"
	"github.com/multiformats/go-multicodec"
	"github.com/multiformats/go-multihash"
	"github.com/multiformats/go-varint"

	"verifharness/internal/rep"
)

type tcase struct {
	Ps   []string `json:"ps"`
	Kind string   `json:"kind"`
	Cut  int      `json:"cut"`
	Ok   bool     `json:"ok"`
	Out  []string `json:"out"`
}

var unknownCodes = map[string]multicodec.Code{"U1": 0x3F0001, "U2": 0x3F0002, "U3": 0x3F0003}
var unknownLens = map[string]int{"U1": 0, "U2": 2, "U3": 4}
var modelSize = map[string]int{"B": 2, "G": 5, "H": 3, "U1": 4, "U2": 6, "U3": 8}

func unknownFrame(code multicodec.Code, n int, prefix uint64) []byte {
	b := varint.ToUvarint(uint64(code))
	b = append(b, varint.ToUvarint(prefix)...)
	for i := 0; i < n; i++ {
		b = append(b, byte(0xA0+i))
	}
	return b
}

func proto(name string, variant int) metadata.Protocol {
	switch name {
	case "B":
		return &metadata.Bitswap{}
	case "H":
		return &metadata.IpfsGatewayHttp{}
	case "G":
		mh, _ := multihash.Sum([]byte(fmt.Sprintf("piece-%d", variant%3)), multihash.SHA2_256, -1)
		return &metadata.GraphsyncFilecoinV1{PieceCID: cid.NewCidV1(cid.Raw, mh), VerifiedDeal: variant%2 == 0, FastRetrieval: variant%4 < 2}
	}
	n := unknownLens[name]
	if variant%5 == 4 && n > 0 {
		n = 300 // a long unknown payload
	}
	return &metadata.Unknown{Code: unknownCodes[name], Payload: unknownFrame(unknownCodes[name], n, uint64(n))}
}

func nameOf(p metadata.Protocol) string {
	switch p.ID() {
	case multicodec.TransportBitswap:
		return "B"
	case multicodec.TransportIpfsGatewayHttp:
		return "H"
	case multicodec.TransportGraphsyncFilecoinv1:
		return "G"
	}
	for n, c := range unknownCodes {
		if c == p.ID() {
			return n
		}
	}
	return fmt.Sprintf("?%x", uint64(p.ID()))
}

func frames(ps []string, variant int) ([]metadata.Protocol, [][]byte, error) {
	var out []metadata.Protocol
	var bs [][]byte
	for i, n := range ps {
		p := proto(n, variant+i)
		b, err := p.MarshalBinary()
		if err != nil {
			return nil, nil, err
		}
		out = append(out, p)
		bs = append(bs, b)
	}
	return out, bs, nil
}

// sortStable orders indices by protocol code, stable.
func sortStable(ps []metadata.Protocol) []int {
	idx := make([]int, len(ps))
	for i := range idx {
		idx[i] = i
	}
	for i := 1; i < len(idx); i++ {
		for j := i; j > 0 && ps[idx[j]].ID() < ps[idx[j-1]].ID(); j-- {
			idx[j], idx[j-1] = idx[j-1], idx[j]
		}
	}
	return idx
}

type decoded struct {
	ok    bool
	names []string
	md    metadata.Metadata
	err   string
	panic string
	alloc uint64
}

func decode(b []byte) (d decoded) {
	defer func() {
		if e := recover(); e != nil {
			d.panic = fmt.Sprint(e)
		}
	}()
	var m0, m1 runtime.MemStats
	runtime.ReadMemStats(&m0)
	md := metadata.Default.New()
	err := md.UnmarshalBinary(b)
	runtime.ReadMemStats(&m1)
	d.alloc = m1.TotalAlloc - m0.TotalAlloc
	if err != nil {
		d.err = err.Error()
		return
	}
	d.ok, d.md = true, md
	for _, c := range md.Protocols() {
		found := md.Get(c)
		if found == nil {
			d.err = "protocol in list but Get returns nil"
			d.ok = false
			return
		}
		d.names = append(d.names, nameOf(found))
	}
	return
}

func eq(a, b []string) bool {
	if len(a) != len(b) {
		return false
	}
	for i := range a {
		if a[i] != b[i] {
			return false
		}
	}
	return true
}

func Run(args []string) *rep.Report {
	fs := flag.NewFlagSet("c11", flag.ExitOnError)
	file := fs.String("cases", "", "ndjson case table exported by TLC")
	fs.Parse(args)
	r := rep.New()
	runtime.GOMAXPROCS(1) // allocation measurements must not see other goroutines
	idx, execs := 0, 0
	// encodings handed out earlier must stay what they were (an encoder that returns memory it writes to again
	// would corrupt metadata a caller still holds)
	type kept struct {
		enc, copyOf []byte
		tc          *tcase
	}
	var retained []kept
	bad := func(key string, tc *tcase, detail string) {
		r.Diverge(rep.Divergence{Key: key, Case: tc, Detail: detail})
	}
	check := func(tc *tcase, input []byte, wantOk bool, want []string, what string) {
		execs++
		d := decode(input)
		bound := uint64(64<<10 + 64*len(input))
		switch {
		case d.panic != "":
			bad("panic", tc, what+": "+d.panic)
		case d.alloc > bound:
			bad("allocation-out-of-proportion", tc, fmt.Sprintf("%s: %d bytes allocated for %d bytes of input", what, d.alloc, len(input)))
		case d.ok != wantOk:
			if d.ok {
				bad("accepted:"+tc.Kind, tc, fmt.Sprintf("%s: decoded %v from %x, model rejects", what, d.names, input))
			} else {
				bad("rejected:"+tc.Kind, tc, fmt.Sprintf("%s: error %q for %x, model accepts %v", what, d.err, input, want))
			}
		case d.ok:
			if want != nil && !eq(d.names, want) {
				bad("decoded-protocols", tc, fmt.Sprintf("%s: decoded %v, model %v", what, d.names, want))
				return
			}
			re, err := d.md.MarshalBinary()
			if err != nil || !bytes.Equal(re, input) {
				bad("not-canonical", tc, fmt.Sprintf("%s: accepted %x re-encodes to %x (%v)", what, input, re, err))
				return
			}
			// what was decoded is the caller's, and so are the bytes it was decoded from and the bytes it encodes to: the caller
			// may overwrite either (a read buffer that is refilled, an encoding that is patched) without the metadata, or
			// anything encoded or decoded later, changing
			orig := append([]byte(nil), input...)
			buf := append([]byte(nil), input...)
			d2 := decode(buf)
			for i := range buf {
				buf[i] = 0xEE
			}
			for i := range re {
				re[i] = 0xDD
			}
			if d2.ok {
				if re2, err := d2.md.MarshalBinary(); err != nil || !bytes.Equal(re2, orig) {
					bad("decoded-aliases-input", tc, fmt.Sprintf("%s: after the input buffer was overwritten the decoded metadata encodes to %x, it was decoded from %x (%v)", what, re2, orig, err))
					return
				}
			}
			if d3 := decode(orig); !d3.ok {
				bad("encoding-aliases-library-state", tc, fmt.Sprintf("%s: after an encoding returned earlier was overwritten, %x no longer decodes: %s", what, orig, d3.err))
			} else if re3, err := d3.md.MarshalBinary(); err != nil || !bytes.Equal(re3, orig) {
				bad("encoding-aliases-library-state", tc, fmt.Sprintf("%s: after an encoding returned earlier was overwritten, %x re-encodes to %x (%v)", what, orig, re3, err))
			}
		}
	}
	err := rep.ReadNDJSON(*file, func(line []byte) error {
		tc := new(tcase)
		if err := json.Unmarshal(line, tc); err != nil {
			return err
		}
		idx++
		r.Eval(len(tc.Ps) > 1 || tc.Kind != "roundtrip")
		if idx%1999 == 0 {
			r.Sample(tc)
		}
		ps, bs, err := frames(tc.Ps, idx)
		if err != nil {
			r.Inconclusive++
			return nil
		}
		order := sortStable(ps)
		var canonical []byte
		var bounds []int
		for _, i := range order {
			canonical = append(canonical, bs[i]...)
			bounds = append(bounds, len(canonical))
		}
		switch tc.Kind {
		case "roundtrip":
			md := metadata.Default.New(ps...)
			enc, err := md.MarshalBinary()
			if err != nil || !bytes.Equal(enc, canonical) {
				bad("encoding-not-sorted-concatenation", tc, fmt.Sprintf("encoded %x, sorted concatenation %x (%v)", enc, canonical, err))
				return nil
			}
			for _, k := range retained {
				if !bytes.Equal(k.enc, k.copyOf) {
					bad("encoding-changed-after-return", k.tc, fmt.Sprintf("bytes returned by MarshalBinary were %x and are now %x after later encodings", k.copyOf, k.enc))
				}
			}
			retained = append(retained, kept{enc: enc, copyOf: append([]byte(nil), enc...), tc: tc})
			if len(retained) > 8 {
				retained = retained[1:]
			}
			check(tc, enc, true, tc.Out, "round trip")
			d := decode(enc)
			if d.ok {
				orig := metadata.Default.New(ps...)
				if !orig.Equal(d.md) {
					bad("decoded-not-equal", tc, "decoded metadata is not Equal to the original")
				}
			}
		case "raw":
			var raw []byte
			for _, b := range bs {
				raw = append(raw, b...)
			}
			check(tc, raw, tc.Ok, tc.Out, "raw concatenation")
		case "crafted":
			// frame tc.Cut (an HTTP gateway frame) replaced by: the gateway's code, a payload length of 2, two payload bytes --
			// and by the same with the payload missing
			var variants [][]byte // what frame tc.Cut is replaced by
			if name := tc.Ps[tc.Cut-1]; name == "H" {
				b := bs[tc.Cut-1]
				for _, tail := range [][]byte{{2, 'x', 'y'}, {1, 'z'}, {2}} {
					variants = append(variants, append(append([]byte(nil), b[:len(b)-1]...), tail...))
				}
			} else {
				// an unknown frame whose length prefix carries one or two padding bytes; the payload ends in bytes that read as
				// whole transports, so that a decoder which loses count finds something to decode
				code := varint.ToUvarint(uint64(unknownCodes[name]))
				// tails of as many bytes as there are padding bytes (where a decoder that counts the minimal form resumes): bitswap,
				// the gateway frame, and an empty frame of the same unknown code (which keeps the codes in order)
				tails := map[int][]byte{1: {0x12}, 2: {0x80, 0x12}, 3: {0xa0, 0x12, 0x00}, len(code) + 1: append(append([]byte(nil), code...), 0x00)}
				for pads, tail := range tails {
					payload := append([]byte{0xA0, 0xA1}, tail...)
					f := append([]byte(nil), code...)
					f = append(f, byte(len(payload))|0x80)
					for k := 1; k < pads; k++ {
						f = append(f, 0x80)
					}
					f = append(f, 0x00)
					variants = append(variants, append(f, payload...))
				}
			}
			for _, v := range variants {
				var raw []byte
				for i, b := range bs {
					if i == tc.Cut-1 {
						raw = append(raw, v...)
					} else {
						raw = append(raw, b...)
					}
				}
				check(tc, raw, false, nil, fmt.Sprintf("frame %d replaced by the crafted frame % x", tc.Cut, v))
			}
		case "truncated":
			// locate the model's cut: frame boundary, or inside the k-th frame (then every real offset inside it)
			pos, k := 0, 0
			for k = 0; k < len(order); k++ {
				sz := modelSize[tc.Ps[order[k]]]
				if tc.Cut < pos+sz {
					break
				}
				pos += sz
			}
			if tc.Cut == pos { // boundary after k frames
				cutAt := 0
				if k > 0 {
					cutAt = bounds[k-1]
				}
				check(tc, canonical[:cutAt], tc.Ok, tc.Out, fmt.Sprintf("cut at frame boundary %d", k))
			} else {
				start := 0
				if k > 0 {
					start = bounds[k-1]
				}
				for c := start + 1; c < bounds[k]; c++ {
					check(tc, canonical[:c], false, nil, fmt.Sprintf("cut at byte %d (inside frame %d)", c, k))
				}
			}
		}
		// hostile length prefixes after a valid canonical prefix (model: an incomplete frame => reject)
		if tc.Kind == "roundtrip" && idx%7 == 0 {
			for _, prefix := range []uint64{5, 2048, 64 << 20, 1 << 62} {
				hostile := append(append([]byte(nil), canonical...), unknownFrame(0x3F00FF, 3, prefix)...)
				check(tc, hostile, false, nil, fmt.Sprintf("unknown frame announcing %d payload bytes with 3 present", prefix))
			}
		}
		return nil
	})
	if err != nil {
		r.SetExtra("read_error", err.Error())
	}
	r.SetExtra("decoder_executions", execs)
	return r
}
