// Package rcvgate drives a real announce.Receiver through seeded random schedules with the gate
// scheduler over the yield hooks of receiver.go and records the trace that TLC validates against
// spec/ReceiverLocksTrace.tla (C16): every API call runs in its own goroutine, one goroutine runs at
// a time, Close races with Direct / Next / UncacheCid and -- for receivers with a libp2p host and a
// pubsub topic -- with the watcher goroutine in the middle of handling a pubsub message.
package rcvgate

import (
	"bytes"
	"context"
	"crypto/sha256"
	"encoding/json"
	"errors"
	"flag"
	"fmt"
	"os"
	"runtime"
	"strings"
	"sync"
	"time"
	"verifharness/internal/netx"

	"github.com/ipfs/go-cid"
	"github.com/ipni/go-libipni/announce"
	"github.com/ipni/go-libipni/announce/message"
	"github.com/libp2p/go-libp2p"
	pubsub "github.com/libp2p/go-libp2p-pubsub"
	"github.com/libp2p/go-libp2p/core/host"
	"github.com/libp2p/go-libp2p/core/peer"
	"github.com/multiformats/go-multiaddr"
	"github.com/multiformats/go-multihash"

	"verifharness/internal/gate"
	"verifharness/internal/ids"
	"verifharness/internal/rep"
)

// Scenario is one run. Config: "plain" (no host), "hostonly" (host, no topic), "topic" (host and a topic of the
// harness: pubsub messages are published by the harness), "owntopic" (host and the receiver's own topic; direct
// announcements are re-published and come back to the watcher).
type Scenario struct {
	Config    string `json:"config"`
	Calls     int    `json:"calls"`
	Publishes int    `json:"publishes"`
	Cancels   bool   `json:"cancels"` // some Direct / Next calls run under a context that is cancelled at a random point
	Seed      int64  `json:"seed"`
	Patience  int    `json:"patience,omitempty"` // watchdog multiplier (confirmation run of a hang)
}

func mkCid(name string) cid.Cid {
	// distinct CIDs need not have distinct multihashes: "b" is the content of "a" under another codec, "d" is "c" in CID
	// version 0 and "c" its version-1 form -- four announcements of four CIDs
	base, form := name, 0
	switch name {
	case "b":
		base, form = "a", 1
	case "c":
		form = 2
	case "d":
		base, form = "c", 3
	}
	h := sha256.Sum256([]byte("verif-cid-" + base))
	mh, _ := multihash.Encode(h[:], multihash.SHA2_256)
	switch form {
	case 1:
		return cid.NewCidV1(cid.Raw, mh)
	case 2:
		return cid.NewCidV1(cid.DagProtobuf, mh)
	case 3:
		return cid.NewCidV0(mh)
	}
	return cid.NewCidV1(cid.DagJSON, mh)
}

func errName(err error) string {
	switch {
	case err == nil:
		return "nil"
	case errors.Is(err, context.Canceled):
		return "cancelled"
	case errors.Is(err, announce.ErrClosed):
		return "closed"
	}
	return "err:" + err.Error()
}

var pubAddr = multiaddr.StringCast("/ip4/8.8.4.4/tcp/3103")

// yieldCtx is a caller's context whose Err method is a scheduling point: wherever the library asks the context for its
// error, other goroutines may run first.
type yieldCtx struct {
	context.Context
	yield func()
}

func (c yieldCtx) Err() error {
	c.yield()
	return c.Context.Err()
}

type call struct {
	op       string
	returned bool
	cancel   context.CancelFunc // Direct / Next calls under a context the scenario may cancel
}

// Execute runs one scenario; key/detail report a failure of the run itself (a call that never returns, ...).
func Execute(sc Scenario) (log []gate.Event, key, detail string) {
	s := gate.New(sc.Seed)
	s.Watchdog = 4 * time.Second
	if sc.Patience > 1 {
		s.Watchdog *= time.Duration(sc.Patience)
	}
	var mu sync.Mutex
	callOf := map[int64]int{}
	passthrough := false
	announce.VerifYield = func(point string) {
		if passthrough {
			return
		}
		mu.Lock()
		k := callOf[gate.Goid()]
		mu.Unlock()
		s.Yield(point, k, 0)
	}
	defer func() { announce.VerifYield = nil }()

	okPeer, noPeer, rePeer := ids.Peer("rcvgate-ok"), ids.Peer("rcvgate-no"), ids.Peer("rcvgate-re")
	var rcvRef *announce.Receiver // the receiver, for the allow-peer callback that calls back into it
	reCid := mkCid("re")
	var h host.Host
	var selfAllowed []bool // per pubsub message published by the harness: is its sender allowed
	selfIdx := 0
	allow := func(p peer.ID) bool {
		if h != nil && p == h.ID() {
			mu.Lock()
			defer mu.Unlock()
			if selfIdx < len(selfAllowed) {
				selfIdx++
				return selfAllowed[selfIdx-1]
			}
			return false
		}
		if p == rePeer {
			// an application whose filter un-caches something before it answers: the callback runs on the caller's goroutine,
			// outside the receiver's critical section
			if rcvRef != nil {
				rcvRef.UncacheCid(reCid)
			}
			return true
		}
		return p == okPeer
	}
	watcher := sc.Config == "topic" || sc.Config == "owntopic"
	var topic *pubsub.Topic
	var probe *pubsub.Subscription
	var psCancel context.CancelFunc
	opts := []announce.Option{announce.WithAllowPeer(allow), announce.WithFilterIPs(true)}
	topicName := ""
	if sc.Config != "plain" {
		var err error
		h, err = netx.Retry(func() (host.Host, error) { return libp2p.New(libp2p.ListenAddrStrings("/ip4/127.0.0.1/tcp/0")) })
		if err != nil {
			return nil, "infra", err.Error()
		}
		defer h.Close()
	}
	switch sc.Config {
	case "topic":
		var ctx context.Context
		ctx, psCancel = context.WithCancel(context.Background())
		defer psCancel()
		ps, err := pubsub.NewGossipSub(ctx, h)
		if err != nil {
			return nil, "infra", err.Error()
		}
		if topic, err = ps.Join("/verif/rcvgate"); err != nil {
			return nil, "infra", err.Error()
		}
		if probe, err = topic.Subscribe(); err != nil {
			return nil, "infra", err.Error()
		}
		opts = append(opts, announce.WithTopic(topic))
	case "owntopic":
		topicName = "/verif/rcvgate-own"
		opts = append(opts, announce.WithResend(true))
	}
	w := 0
	if watcher {
		w = 1
	}
	s.Record(gate.Event{Ev: "reset", N: w})
	r, err := announce.NewReceiver(h, topicName, opts...)
	if err != nil {
		return nil, "infra", err.Error()
	}
	rcvRef = r
	if watcher { // the watcher parks at its first hook
		deadline := time.Now().Add(s.Watchdog)
		for len(s.ParkedIDs()) == 0 {
			s.Settle()
			if time.Now().After(deadline) {
				return s.Log, "hang", "the watcher goroutine did not reach its first hook"
			}
			time.Sleep(100 * time.Microsecond)
		}
	}

	var calls []*call
	callsLeft, pubsLeft := sc.Calls, 0
	if sc.Config == "topic" {
		pubsLeft = sc.Publishes
	}
	closeStarted := false
	cids := []cid.Cid{mkCid("a"), mkCid("b"), mkCid("c")}
	ctx := context.Background()
	startCall := func(op string) {
		c := &call{op: op}
		calls = append(calls, c)
		k := len(calls)
		ci := cids[s.Rng.Intn(len(cids))]
		ctx := ctx
		if sc.Cancels && (op == "directOk" || op == "directRe" || op == "next") && s.Rng.Intn(2) == 0 {
			ctx, c.cancel = context.WithCancel(ctx)
			ctx = yieldCtx{ctx, func() {
				if !passthrough {
					s.Yield("x.ctxerr", k, 0)
				}
			}}
		}
		s.Go(op, func() {
			mu.Lock()
			callOf[gate.Goid()] = k
			mu.Unlock()
			s.RecordG(gate.Event{Ev: "start", P: k, Op: op})
			var res string
			switch op {
			case "close":
				res = errName(r.Close())
			case "directOk":
				res = errName(r.Direct(ctx, ci, peer.AddrInfo{ID: okPeer, Addrs: []multiaddr.Multiaddr{pubAddr}}))
			case "directRe":
				res = errName(r.Direct(ctx, ci, peer.AddrInfo{ID: rePeer, Addrs: []multiaddr.Multiaddr{pubAddr}}))
			case "directNo":
				res = errName(r.Direct(ctx, ci, peer.AddrInfo{ID: noPeer, Addrs: []multiaddr.Multiaddr{pubAddr}}))
			case "next":
				if _, err := r.Next(ctx); err != nil {
					res = errName(err)
				} else {
					res = "msg"
				}
			case "uncache":
				r.UncacheCid(ci)
				res = "nil"
			}
			mu.Lock()
			c.returned = true
			mu.Unlock()
			s.RecordG(gate.Event{Ev: "ret", P: k, Op: op, R: res})
		})
	}
	ops := []string{"close", "close", "directOk", "directOk", "directRe", "directNo", "next", "next", "uncache"}
	pending := func() []string {
		mu.Lock()
		defer mu.Unlock()
		var out []string
		for i, c := range calls {
			if !c.returned {
				out = append(out, fmt.Sprintf("call %d (%s)", i+1, c.op))
			}
		}
		return out
	}
	for step := 0; step < 3000; step++ {
		parked := s.ParkedIDs()
		nenv := 0
		if callsLeft > 0 {
			nenv++
		}
		if pubsLeft > 0 {
			nenv++
		}
		var cancellable []int
		mu.Lock()
		for i, c := range calls {
			if c.cancel != nil && !c.returned {
				cancellable = append(cancellable, i)
			}
		}
		mu.Unlock()
		if len(cancellable) > 0 {
			nenv++
		}
		if len(parked) == 0 && nenv == 0 {
			if len(pending()) == 0 {
				break
			}
			// something may still be on its way (a pubsub message being delivered, a goroutine being woken)
			grace := 400 * time.Millisecond
			if sc.Patience > 1 {
				grace *= time.Duration(sc.Patience)
			}
			deadline := time.Now().Add(grace)
			for len(s.ParkedIDs()) == 0 && len(pending()) > 0 && time.Now().Before(deadline) {
				time.Sleep(200 * time.Microsecond)
				s.Settle()
			}
			if len(s.ParkedIDs()) == 0 {
				break
			}
			continue
		}
		pick := s.Rng.Intn(2*len(parked) + nenv)
		if pick < 2*len(parked) {
			s.Release(parked[pick/2])
		} else if len(cancellable) > 0 && pick == 2*len(parked)+nenv-1 {
			i := cancellable[s.Rng.Intn(len(cancellable))]
			s.Record(gate.Event{Ev: "env.cancel", P: i + 1})
			mu.Lock()
			cf := calls[i].cancel
			calls[i].cancel = nil
			mu.Unlock()
			cf()
		} else if pick-2*len(parked) == 0 && callsLeft > 0 {
			callsLeft--
			op := ops[s.Rng.Intn(len(ops))]
			if callsLeft == 0 && !closeStarted {
				op = "close"
			}
			closeStarted = closeStarted || op == "close"
			startCall(op)
		} else if pubsLeft == sc.Publishes && psCancel != nil && s.Rng.Intn(3) == 0 {
			// the application shuts its pubsub down (the topic is its own): nothing is delivered any more, and the receiver's
			// Close must get its watcher to exit all the same
			pubsLeft = 0
			s.Record(gate.Event{Ev: "env.psstop"})
			psCancel()
			time.Sleep(2 * time.Millisecond)
		} else {
			pubsLeft--
			allowed := s.Rng.Intn(3) != 0
			mu.Lock()
			selfAllowed = append(selfAllowed, allowed)
			mu.Unlock()
			n := 0
			if allowed {
				n = 1
			}
			s.Record(gate.Event{Ev: "env.publish", N: n})
			m := message.Message{Cid: cids[s.Rng.Intn(len(cids))]}
			m.SetAddrs([]multiaddr.Multiaddr{pubAddr})
			var buf bytes.Buffer
			if err := m.MarshalCBOR(&buf); err != nil {
				return s.Log, "infra", err.Error()
			}
			if err := topic.Publish(ctx, buf.Bytes()); err != nil {
				return s.Log, "infra", "publish: " + err.Error()
			}
			pctx, cancel := context.WithTimeout(ctx, 2*time.Second)
			_, err := probe.Next(pctx) // delivered to the harness's own subscription, hence to the receiver's as well
			cancel()
			if err != nil {
				return s.Log, "infra", "published message was not delivered locally: " + err.Error()
			}
			time.Sleep(300 * time.Microsecond)
		}
		if !s.Settle() && !s.Settle() && !s.Settle() { // three watchdog periods before a goroutine on its way counts as stuck
			key, detail = "hang", fmt.Sprintf("after step %d: a goroutine neither reached a hook, nor returned, nor blocked in a library primitive within %v:\n%s", step, s.Watchdog, s.Hang)
			break
		}
	}
	if key == "" && len(pending()) > 0 {
		// confirm before alarm, in this very run (a second run may take another schedule): a call that is really stuck is still
		// stuck after four more watchdog periods
		deadline := time.Now().Add(4 * s.Watchdog)
		for len(pending()) > 0 && len(s.ParkedIDs()) == 0 && time.Now().Before(deadline) {
			time.Sleep(2 * time.Millisecond)
			s.Settle()
		}
		if len(s.ParkedIDs()) > 0 {
			key, detail = "infra", "a goroutine reached a hook long after the run had gone quiet (busy machine)"
		}
	}
	if key == "" {
		if p := pending(); len(p) > 0 {
			var b strings.Builder
			fmt.Fprintf(&b, "a Close was called, nothing is parked and nothing is left to do, but %s never returned\n", strings.Join(p, ", "))
			buf := make([]byte, 1<<20)
			n := runtime.Stack(buf, true)
			for _, blk := range strings.Split(string(buf[:n]), "\n\n") {
				if strings.Contains(blk, "announce.(*Receiver)") {
					b.WriteString(blk + "\n\n")
				}
			}
			key, detail = "hang", b.String()
		}
	}
	if key == "" && watcher {
		deadline := time.Now().Add(2 * time.Second)
		for goroutineRunning("announce.(*Receiver).watch") {
			if time.Now().After(deadline) {
				key, detail = "watcher-leak", "the pubsub watcher goroutine is still running after every call returned"
				break
			}
			time.Sleep(time.Millisecond)
		}
	}
	if key == "" {
		s.Record(gate.Event{Ev: "final"})
	}
	// teardown
	passthrough = true
	s.Drain(30 * time.Millisecond)
	done := make(chan struct{})
	go func() { r.Close(); close(done) }()
	select {
	case <-done:
	case <-time.After(2 * time.Second):
		if key == "" {
			key, detail = "hang", "final Close did not return"
		}
	}
	s.Drain(5 * time.Millisecond)
	return s.Log, key, detail
}

func goroutineRunning(fn string) bool {
	buf := make([]byte, 1<<20)
	n := runtime.Stack(buf, true)
	return strings.Contains(string(buf[:n]), fn)
}

// Run is "harness c16": run scenarios of one configuration, write the concatenated trace.
func Run(args []string) *rep.Report {
	fs := flag.NewFlagSet("c16", flag.ExitOnError)
	out := fs.String("trace-out", "", "trace file prefix")
	shard := fs.String("shard", "", "i/n (internal)")
	procs := fs.Int("procs", runtime.NumCPU(), "worker processes")
	count := fs.Int("count", 100, "scenarios in total")
	seed := fs.Int64("seed", 1, "base seed")
	config := fs.String("config", "plain", "plain | hostonly | topic | owntopic")
	fs.Parse(args)
	if *shard == "" {
		return rep.RunSharded("c16", args, *procs)
	}
	si, sn := rep.ParseShard(*shard)
	r := rep.New()
	f, err := os.Create(fmt.Sprintf("%s.%d", *out, si))
	if err != nil {
		r.SetExtra("read_error", err.Error())
		return r
	}
	defer f.Close()
	enc := json.NewEncoder(f)
	events := 0
	for i := si; i < *count; i += sn {
		if len(r.Divergences) >= 4 {
			r.AddExtra("skipped_after_divergences", 1) // the verdict is settled; the remaining scenarios would only cost watchdog time
			continue
		}
		sc := Scenario{Config: *config, Seed: *seed*100019 + int64(i), Calls: 3 + i%6, Publishes: i % 4, Cancels: i%3 == 2}
		log, key, detail := Execute(sc)
		r.Eval(true)
		if i%29 == 0 {
			r.Sample(map[string]interface{}{"scenario": sc, "first_events": log[:min(len(log), 40)]})
		}
		switch key {
		case "":
			for _, e := range log {
				enc.Encode(e)
				events++
			}
		case "infra":
			r.Inconclusive++
			r.SetExtra("infra_example", detail)
		default:
			if len(detail) > 4000 {
				detail = detail[:4000]
			}
			r.Diverge(rep.Divergence{Key: key, Case: sc, Detail: detail, Observed: log[max(0, len(log)-30):]})
		}
	}
	r.SetExtra("trace_events", events)
	return r
}
