// Package c20 runs the cases of spec/AddrConv.tla through the real maurl / mautil functions.
package c20

import (
	"context"
	"encoding/json"
	"flag"
	"fmt"
	"net/http"
	"net/url"
	"sort"
	"strings"
	"sync"
	"time"
	"verifharness/internal/netx"

	"github.com/ipni/go-libipni/dagsync/ipnisync"
	"github.com/ipni/go-libipni/maurl"
	"github.com/ipni/go-libipni/mautil"
	"github.com/libp2p/go-libp2p/core/peer"
	"github.com/multiformats/go-multiaddr"

	"verifharness/internal/ids"
	"verifharness/internal/lsys"
	"verifharness/internal/rep"
)

type addr struct {
	IP  string `json:"ip"`
	Sfx string `json:"sfx"`
}

type tcase struct {
	Kind string `json:"kind"`
	U    struct {
		Scheme string   `json:"scheme"`
		Host   string   `json:"host"`
		Port   string   `json:"port"`
		Path   []string `json:"path"`
	} `json:"u"`
	L     []addr `json:"l"`
	HTTP  []addr `json:"http"`
	Pub   []addr `json:"pub"`
	Clean []addr `json:"clean"`
}

// every member of each character class (ASCII classes completely)
var members = map[string][]string{
	"alnum":    strings.Split("a b z A Z 0 9 m", " "),
	"slash":    {"/"},
	"space":    {" "},
	"plus":     {"+"},
	"percent":  {"%"},
	"question": {"?", "#", "[", "]", "\"", "<", ">", "\\", "^", "`", "{", "|", "}"},
	"dash":     strings.Split("- _ . ~ $ & = : @ ! * ' ( ) , ;", " "),
	"nonascii": {"ü", "日", "é"},
}

var hosts = map[string]string{"ip4": "8.8.4.4", "ip6": "2001:db8::5", "dns": "publisher.example.com"}

func host(kind, port string) string {
	h := hosts[kind]
	if kind == "ip6" {
		h = "[" + h + "]"
	}
	if port != "none" {
		h += ":" + port
	}
	return h
}

var ipAddrs = map[string][]string{
	"pub4": {"/ip4/8.8.8.8", "/ip4/1.1.1.1"}, "pub6": {"/ip6/2001:4860:4860::8888"}, "priv4": {"/ip4/192.168.1.1", "/ip4/10.0.0.1", "/ip4/172.16.5.5"},
	"loop4": {"/ip4/127.0.0.1"}, "loop6": {"/ip6/::1"}, "unspec4": {"/ip4/0.0.0.0"}, "unspec6": {"/ip6/::"},
	"linklocal": {"/ip4/169.254.1.1", "/ip6/fe80::1"}, "dns": {"/dns4/example.com", "/dns/ipni.example.org", "/dns6/example.net"}, "localhost": {"/dns/localhost", "/dns4/localhost"},
}

const encapsulated = "/p2p/12D3KooWQSMKybsYFnNyCGzFUJPgXLPxbGmuZp5xDrhEYyGkWfQ6"

var sfx = map[string]string{"none": "/tcp/3003", "bare80": "/tcp/80", "http": "/tcp/80/http", "https": "/tcp/443/https", "tls-http": "/tcp/443/tls/http",
	"p2p": "/tcp/3003" + encapsulated, "http-p2p": "/tcp/80/http" + encapsulated, "https-path": "/tcp/443/https/http-path/ipni%2Fv1",
	"https-path-p2p": "/tcp/443/https/http-path/ipni%2Fv1" + encapsulated}

func mk(a addr, variant int) multiaddr.Multiaddr {
	if a.IP == "nil" {
		return nil
	}
	opts := ipAddrs[a.IP]
	return multiaddr.StringCast(opts[variant%len(opts)] + sfx[a.Sfx])
}

func strs(l []multiaddr.Multiaddr) []string {
	var out []string
	for _, a := range l {
		if a == nil {
			out = append(out, "<nil>")
		} else {
			out = append(out, a.String())
		}
	}
	return out
}

func eqStr(a, b []string) bool {
	if len(a) != len(b) {
		return false
	}
	for i := range a {
		if a[i] != b[i] {
			return false
		}
	}
	return true
}

func permutations(n int) [][]int {
	var out [][]int
	var rec func(cur []int, used []bool)
	rec = func(cur []int, used []bool) {
		if len(cur) == n {
			out = append(out, append([]int(nil), cur...))
			return
		}
		for i := 0; i < n; i++ {
			if !used[i] {
				used[i] = true
				rec(append(cur, i), used)
				used[i] = false
			}
		}
	}
	rec(nil, make([]bool, n))
	return out
}

// longLists: equality of address lists is equality of multisets at every length (AddrConv.tla, ListsEqual) -- also where an
// implementation that pairs entries off instead of sorting would run out of whatever it keeps its marks in.
func longLists(r *rep.Report) int {
	n := 0
	x, y := multiaddr.StringCast("/ip4/9.9.9.9/tcp/9"), multiaddr.StringCast("/dns4/y.example.net/tcp/443/https")
	for _, size := range []int{9, 17, 33, 64, 65, 66, 70, 129, 260} {
		var filler []multiaddr.Multiaddr
		for i := 0; i < size-3; i++ {
			filler = append(filler, multiaddr.StringCast(fmt.Sprintf("/ip4/10.%d.%d.1/tcp/%d", i/200, i%200, 1000+i)))
		}
		for _, where := range []string{"front", "back"} {
			var la, lb []multiaddr.Multiaddr
			if where == "front" {
				la = append([]multiaddr.Multiaddr{x, x, y}, filler...)
				lb = append([]multiaddr.Multiaddr{x, y, y}, filler...)
			} else {
				la = append(append([]multiaddr.Multiaddr(nil), filler...), x, x, y)
				lb = append(append([]multiaddr.Multiaddr(nil), filler...), x, y, y)
			}
			cp := func(l []multiaddr.Multiaddr) []multiaddr.Multiaddr { return append([]multiaddr.Multiaddr(nil), l...) }
			rot := append(cp(la[size/2:]), la[:size/2]...)
			rev := cp(la)
			for i, j := 0, len(rev)-1; i < j; i, j = i+1, j-1 {
				rev[i], rev[j] = rev[j], rev[i]
			}
			n += 4
			switch {
			case mautil.MultiaddrsEqual(cp(la), cp(lb)) || mautil.MultiaddrsEqual(cp(lb), cp(la)):
				r.Diverge(rep.Divergence{Key: "multiaddrs-equal", Detail: fmt.Sprintf("lists of %d entries that differ only in how often two addresses occur (at the %s) reported equal", size, where)})
			case !mautil.MultiaddrsEqual(cp(la), rot) || !mautil.MultiaddrsEqual(rev, cp(la)):
				r.Diverge(rep.Divergence{Key: "multiaddrs-equal", Detail: fmt.Sprintf("a list of %d entries and a rearrangement of it reported different", size)})
			}
		}
	}
	return n
}

func Run(args []string) *rep.Report {
	fs := flag.NewFlagSet("c20", flag.ExitOnError)
	file := fs.String("cases", "", "ndjson case table exported by TLC")
	fs.Parse(args)
	r := rep.New()
	idx, urls, lists := 0, 0, 0
	bad := func(key string, tc *tcase, detail string) {
		r.Diverge(rep.Divergence{Key: key, Case: tc, Detail: detail})
	}
	guard := func(tc *tcase, f func()) {
		defer func() {
			if e := recover(); e != nil {
				bad("panic", tc, fmt.Sprint(e))
			}
		}()
		f()
	}
	err := rep.ReadNDJSON(*file, func(line []byte) error {
		tc := new(tcase)
		if err := json.Unmarshal(line, tc); err != nil {
			return err
		}
		idx++
		r.Eval(len(tc.U.Path) > 0 || len(tc.L) > 0)
		if idx%499 == 0 {
			r.Sample(tc)
		}
		if tc.Kind == "url" {
			// every combination of members of the path's character classes
			combos := []string{""}
			for _, cl := range tc.U.Path {
				var next []string
				for _, pre := range combos {
					for _, m := range members[cl] {
						next = append(next, pre+m)
					}
				}
				combos = next
			}
			for _, p := range combos {
				path := ""
				if len(tc.U.Path) > 0 {
					path = "/" + p
				}
				u := &url.URL{Scheme: tc.U.Scheme, Host: host(tc.U.Host, tc.U.Port), Path: path}
				urls++
				guard(tc, func() {
					ma, err := maurl.FromURL(u)
					if err != nil {
						bad("fromurl-error", tc, fmt.Sprintf("%q: %v", u.String(), err))
						return
					}
					back, err := maurl.ToURL(ma)
					if err != nil {
						bad("tourl-error", tc, fmt.Sprintf("%q -> %s: %v", u.String(), ma, err))
						return
					}
					if back.Scheme != u.Scheme || back.Hostname() != u.Hostname() || back.Port() != u.Port() || back.Path != u.Path {
						k := "url-round-trip"
						if back.Path != u.Path {
							k = "url-round-trip-path"
						}
						bad(k, tc, fmt.Sprintf("%q -> %s -> %q (path %q -> %q)", u.String(), ma, back.String(), u.Path, back.Path))
					}
					// the same URL as a parser hands it over when the path was spelled with escapes nobody needs (every byte as %xx, in
					// lower-case hex): net/url keeps that spelling in RawPath; the conversion is a function of the path, not of its spelling
					if path != "" {
						raw := ""
						for _, c := range []byte(path[1:]) {
							raw += fmt.Sprintf("%%%02x", c)
						}
						if pu, perr := url.Parse(u.Scheme + "://" + u.Host + "/" + raw); perr == nil && pu.Path == u.Path {
							if pma, err := maurl.FromURL(pu); err != nil || !pma.Equal(ma) {
								bad("url-spelling", tc, fmt.Sprintf("%q (RawPath %q) -> %v (%v), the same URL spelled canonically -> %s", pu.String(), pu.RawPath, pma, err, ma))
							} else if pb, err := maurl.ToURL(pma); err != nil || pb.Path != u.Path {
								bad("url-spelling", tc, fmt.Sprintf("%q (RawPath %q) -> %s -> %v (%v)", pu.String(), pu.RawPath, pma, pb, err))
							}
						}
					}
					// the tls/http spelling of the same endpoint is https
					// ... also with the server name between the two components (the form libp2p's HTTP host announces)
					if u.Scheme == "https" {
						for _, spelling := range []string{"/tls/http", "/tls/sni/example.net/http"} {
							alt := strings.Replace(ma.String(), "/https", spelling, 1)
							if am, err := multiaddr.NewMultiaddr(alt); err == nil {
								if b2, err := maurl.ToURL(am); err != nil || b2.Scheme != "https" || b2.Host != back.Host || b2.Path != back.Path {
									bad("tls-http-not-https", tc, fmt.Sprintf("%s -> %v (%v)", alt, b2, err))
								}
							}
						}
					}
				})
			}
			return nil
		}
		lists++
		guard(tc, func() {
			var l []multiaddr.Multiaddr
			for i, a := range tc.L {
				l = append(l, mk(a, idx+i))
			}
			want := func(as []addr) []string {
				var out []string
				k := 0
				for i, a := range tc.L {
					if k < len(as) && as[k] == a {
						out = append(out, strs([]multiaddr.Multiaddr{mk(a, idx+i)})[0])
						k++
					}
				}
				return out
			}
			// subsequence extraction above needs the original indices: recompute by predicate instead
			_ = want
			var wHTTP, wPub, wClean []string
			for i, a := range tc.L {
				s := strs([]multiaddr.Multiaddr{mk(a, idx+i)})[0]
				if a.IP != "nil" && a.Sfx != "none" && a.Sfx != "bare80" && a.Sfx != "p2p" {
					wHTTP = append(wHTTP, s)
				}
				if a.IP == "nil" || a.IP == "pub4" || a.IP == "pub6" || a.IP == "dns" {
					wPub = append(wPub, s)
				}
				if a.IP != "nil" {
					wClean = append(wClean, s)
				}
			}
			if len(wHTTP) != len(tc.HTTP) || len(wPub) != len(tc.Pub) || len(wClean) != len(tc.Clean) {
				bad("harness-model-mismatch", tc, "concretisation disagrees with the exported expectation")
				return
			}
			cp := func() []multiaddr.Multiaddr { return append([]multiaddr.Multiaddr(nil), l...) }
			if got := strs(mautil.FindHTTPAddrs(cp())); !eqStr(got, wHTTP) {
				bad("find-http-addrs", tc, fmt.Sprintf("%v -> %v, model %v", strs(l), got, wHTTP))
			}
			if got := strs(mautil.FilterPublic(cp())); !eqStr(got, wPub) {
				bad("filter-public", tc, fmt.Sprintf("%v -> %v, model %v", strs(l), got, wPub))
			}
			got := strs(mautil.CleanPeerAddrInfo(peer.AddrInfo{ID: ids.Peer("c20"), Addrs: cp()}).Addrs)
			sort.Strings(got)
			wc := append([]string(nil), wClean...)
			sort.Strings(wc)
			if !eqStr(got, wc) {
				bad("clean-peer-addr-info", tc, fmt.Sprintf("%v -> %v, model (as a multiset) %v", strs(l), got, wc))
			}
			// FilterPublic and FindHTTPAddrs return new lists: the caller's list is what it was (same entries at the same places)
			for name, f := range map[string]func([]multiaddr.Multiaddr) []multiaddr.Multiaddr{"FilterPublic": mautil.FilterPublic, "FindHTTPAddrs": mautil.FindHTTPAddrs} {
				arg := cp()
				out := f(arg)
				for i := range out {
					if out[i] != nil {
						out[i] = multiaddr.StringCast("/ip4/203.0.113.9/tcp/1") // the result is the caller's too
					}
				}
				if !eqStr(strs(arg), strs(l)) {
					bad("argument-modified", tc, fmt.Sprintf("%s changed its argument %v to %v", name, strs(l), strs(arg)))
				}
			}
			// equality ignores order: every permutation is equal; a list with one address replaced is not
			hasNil := false
			for _, a := range tc.L {
				if a.IP == "nil" {
					hasNil = true
				}
			}
			if !hasNil && len(l) > 0 {
				for _, perm := range permutations(len(l)) {
					p := make([]multiaddr.Multiaddr, len(l))
					for i, j := range perm {
						p[i] = l[j]
					}
					if !mautil.MultiaddrsEqual(cp(), p) {
						bad("multiaddrs-equal", tc, fmt.Sprintf("%v and its permutation %v reported different", strs(l), strs(p)))
					}
				}
				other := cp()
				other[len(other)-1] = multiaddr.StringCast("/ip4/9.9.9.9/tcp/9/http")
				if mautil.MultiaddrsEqual(cp(), other) {
					bad("multiaddrs-equal", tc, fmt.Sprintf("%v and %v reported equal", strs(l), strs(other)))
				}
				if len(l) > 1 && mautil.MultiaddrsEqual(cp(), cp()[:len(l)-1]) {
					bad("multiaddrs-equal", tc, "a list and its strict prefix reported equal")
				}
				// long lists with duplicates: equality is equality of multisets -- the same addresses with other multiplicities
				// (and the same length) are different lists, a rotation of the same list is the same list
				if len(l) > 1 && !l[0].Equal(l[1]) {
					var la, lb []multiaddr.Multiaddr
					for i := 0; i < 11; i++ {
						if i < 6 {
							la = append(la, l[0])
						} else {
							la = append(la, l[1])
						}
						if i < 5 {
							lb = append(lb, l[0])
						} else {
							lb = append(lb, l[1])
						}
					}
					for _, x := range l[2:] {
						la, lb = append(la, x), append(lb, x)
					}
					rot := append(append([]multiaddr.Multiaddr(nil), la[4:]...), la[:4]...)
					if mautil.MultiaddrsEqual(append([]multiaddr.Multiaddr(nil), la...), append([]multiaddr.Multiaddr(nil), lb...)) {
						bad("multiaddrs-equal", tc, fmt.Sprintf("lists of %d entries over the same addresses with different multiplicities reported equal", len(la)))
					}
					if !mautil.MultiaddrsEqual(append([]multiaddr.Multiaddr(nil), la...), rot) {
						bad("multiaddrs-equal", tc, fmt.Sprintf("a list of %d entries and its rotation reported different", len(la)))
					}
				}
			}
		})
		return nil
	})
	if err != nil {
		r.SetExtra("read_error", err.Error())
	}
	r.SetExtra("long_list_comparisons", longLists(r))
	r.SetExtra("urls_converted", urls)
	r.SetExtra("lists_checked", lists)
	// end to end: a publisher advertised by URL is contacted at exactly that endpoint
	for _, p := range []string{"/pub path", "/a+b", "/plain", "/ünï"} {
		if d := endToEnd(p); d != "" {
			r.Diverge(rep.Divergence{Key: "endpoint-contacted", Detail: d})
		}
	}
	return r
}

func endToEnd(prefix string) string {
	var mu sync.Mutex
	var paths []string
	key := ids.Key("c20-pub")
	pub, err := ipnisync.NewPublisher(lsys.NewStore().LinkSystem(), key, ipnisync.WithStartServer(false), ipnisync.WithHandlerPath(prefix))
	if err != nil {
		return "NewPublisher: " + err.Error()
	}
	defer pub.Close()
	srv := netx.NewServer(http.HandlerFunc(func(w http.ResponseWriter, r *http.Request) {
		mu.Lock()
		paths = append(paths, r.URL.Path)
		mu.Unlock()
		pub.ServeHTTP(w, r)
	}))
	defer srv.Close()
	u, _ := url.Parse(srv.URL)
	u.Path = prefix
	ma, err := maurl.FromURL(u)
	if err != nil {
		return "FromURL: " + err.Error()
	}
	sync := ipnisync.NewSync(lsys.NewStore().LinkSystem(), nil, ipnisync.ClientHTTPTimeout(3*time.Second))
	defer sync.Close()
	syncer, err := sync.NewSyncer(peer.AddrInfo{ID: ids.Peer("c20-pub"), Addrs: []multiaddr.Multiaddr{ma}})
	if err != nil {
		return "NewSyncer: " + err.Error()
	}
	syncer.GetHead(nil_ctx())
	mu.Lock()
	defer mu.Unlock()
	want := prefix + "/ipni/v1/ad/head"
	for _, p := range paths {
		if p == want {
			return ""
		}
	}
	return fmt.Sprintf("publisher advertised at %q: client requested %v, never %q", u.String(), paths, want)
}

func nil_ctx() context.Context { return context.Background() }
