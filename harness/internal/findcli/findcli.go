// Package findcli binds spec/FindClientAPI.tla to find/client: every row of the model's table is one real call of
// ListProviders / GetProvider / GetStats against a server that records what arrives and answers as the row says.
package findcli

import (
	"bytes"
	"context"
	"encoding/json"
	"errors"
	"flag"
	"fmt"
	"io"
	"net/http"
	"strings"
	"sync"

	"github.com/ipfs/go-cid"
	"github.com/ipni/go-libipni/apierror"
	findclient "github.com/ipni/go-libipni/find/client"
	"github.com/ipni/go-libipni/find/model"
	"github.com/libp2p/go-libp2p/core/peer"
	"github.com/multiformats/go-multiaddr"

	"verifharness/internal/ids"
	"verifharness/internal/netx"
	"verifharness/internal/rep"
)

type ccase struct {
	C struct {
		Op     string `json:"op"`
		Base   string `json:"base"`
		Status int    `json:"status"`
		Body   string `json:"body"`
		Value  int    `json:"value"`
	} `json:"c"`
	Path  string `json:"path"`
	Query string `json:"query"`
	Out   struct {
		New    string `json:"new"`
		Sent   bool   `json:"sent"`
		Result string `json:"result"`
		Status int    `json:"status"`
		Text   string `json:"text"`
	} `json:"out"`
}

type seen struct{ Method, Path, Query, Accept string }

type server struct {
	mu     sync.Mutex
	got    []seen
	status int
	body   []byte
}

func (s *server) ServeHTTP(w http.ResponseWriter, r *http.Request) {
	io.Copy(io.Discard, r.Body)
	s.mu.Lock()
	s.got = append(s.got, seen{r.Method, r.URL.Path, r.URL.RawQuery, r.Header.Get("Accept")})
	st, body := s.status, s.body
	s.mu.Unlock()
	w.WriteHeader(st)
	if st != http.StatusNoContent {
		w.Write(body)
	}
}

func (s *server) set(st int, body []byte) {
	s.mu.Lock()
	s.got, s.status, s.body = nil, st, body
	s.mu.Unlock()
}

func (s *server) take() []seen {
	s.mu.Lock()
	defer s.mu.Unlock()
	g := s.got
	s.got = nil
	return g
}

const theText = "the indexer says no"

func addrs(ss ...string) []multiaddr.Multiaddr {
	var out []multiaddr.Multiaddr
	for _, s := range ss {
		out = append(out, multiaddr.StringCast(s))
	}
	return out
}

var adCid, _ = cid.Decode("bafkreifjjcie6lypi6ny7amxnfftagclbuxndqonfipmb64f2km2devei4")
var frozenCid, _ = cid.Decode("baguqeeraa5mjufqac5s3ofczryxrbgqdgdmkpmrgvxnwswdhdxbhg6kqsfaq")

// providers: the value the server holds, by the model's value number
func providers(v int) []*model.ProviderInfo {
	plain := &model.ProviderInfo{AddrInfo: peer.AddrInfo{ID: ids.Peer("x03-p1"), Addrs: addrs("/ip4/8.8.8.8/tcp/3104")}, LastAdvertisement: adCid, LastAdvertisementTime: "2024-05-06T07:08:09Z"}
	pubInfo := peer.AddrInfo{ID: ids.Peer("x03-pub"), Addrs: addrs("/dns4/pub.example.net/tcp/443/https")}
	rich := &model.ProviderInfo{
		AddrInfo:          peer.AddrInfo{ID: ids.Peer("x03-p2"), Addrs: addrs("/ip4/9.9.9.9/tcp/1", "/ip4/9.9.9.9/udp/4001/quic-v1")},
		LastAdvertisement: adCid, LastAdvertisementTime: "2024-05-06T07:08:10Z", Lag: 3, Publisher: &pubInfo,
		ExtendedProviders: &model.ExtendedProviders{
			Providers: []peer.AddrInfo{{ID: ids.Peer("x03-e1"), Addrs: addrs("/ip4/7.7.7.7/tcp/7")}},
			Contextual: []model.ContextualExtendedProviders{{Override: true, ContextID: "Y3R4", Providers: []peer.AddrInfo{{ID: ids.Peer("x03-e2"), Addrs: addrs("/ip4/6.6.6.6/tcp/6")}},
				Metadatas: [][]byte{{0x80, 0x12}}}},
			Metadatas: [][]byte{nil},
		},
		FrozenAt: frozenCid, FrozenAtTime: "2024-05-07T00:00:00Z", Inactive: true, LastError: "sync failed", LastErrorTime: "2024-05-06T08:00:00Z",
	}
	switch v {
	case 0:
		return []*model.ProviderInfo{}
	case 1:
		return []*model.ProviderInfo{plain}
	case 2:
		return []*model.ProviderInfo{rich}
	}
	return []*model.ProviderInfo{plain, rich}
}

func stats(v int) *model.Stats {
	return &model.Stats{EntriesEstimate: int64(v) * 1_000_000_007, EntriesCount: int64(v*v) << 33}
}

// validBody: what a server using the library's own types writes for (op, value)
func validBody(op string, v int) ([]byte, interface{}) {
	switch op {
	case "ListProviders":
		ps := providers(v)
		b, _ := json.Marshal(ps)
		return b, ps
	case "GetProvider":
		p := providers(1 + v%2)[0]
		b, _ := json.Marshal(p)
		return b, p
	}
	s := stats(v)
	b, _ := model.MarshalStats(s)
	return b, s
}

func bodyFor(kind, op string, v int) []byte {
	switch kind {
	case "valid":
		b, _ := validBody(op, v)
		return b
	case "null":
		return []byte("null")
	case "other-json":
		return []byte(`"a string, not what was asked for"`)
	case "garbage":
		return []byte(`{"AddrInfo": {"ID": `)
	case "text":
		return []byte("\n " + theText + " \r\n")
	case "spaces":
		return []byte(" \n\t ")
	}
	return nil
}

func baseURL(form, plain string) string {
	host := strings.TrimPrefix(plain, "http://")
	switch form {
	case "plain":
		return plain
	case "slash":
		return plain + "/"
	case "path":
		return plain + "/some/prefix"
	case "query":
		return plain + "/?via=x03"
	case "upper-scheme":
		return "HTTP://" + host
	case "noscheme":
		return host
	case "otherscheme":
		return "ftp://" + host
	}
	return ""
}

func Run(args []string) *rep.Report {
	fs := flag.NewFlagSet("x03", flag.ExitOnError)
	file := fs.String("cases", "", "ndjson call table exported by TLC")
	fs.Parse(args)
	r := rep.New()
	srv := &server{}
	hs := netx.NewServer(srv)
	defer hs.Close()
	ctx := context.Background()
	err := rep.ReadNDJSON(*file, func(line []byte) error {
		tc := new(ccase)
		if err := json.Unmarshal(line, tc); err != nil {
			return err
		}
		r.Eval(tc.Out.Result == "the-value" && tc.C.Value > 0)
		bad := func(k, detail string) { r.Diverge(rep.Divergence{Key: k, Case: tc, Detail: detail}) }
		body := bodyFor(tc.C.Body, tc.C.Op, tc.C.Value)
		srv.set(tc.C.Status, body)
		cl, err := findclient.New(baseURL(tc.C.Base, hs.URL))
		if (err == nil) != (tc.Out.New == "ok") {
			bad("new", fmt.Sprintf("New(%q): %v, model: %s", baseURL(tc.C.Base, hs.URL), err, tc.Out.New))
			return nil
		}
		if err != nil {
			if g := srv.take(); len(g) != 0 {
				bad("sent-after-refusal", fmt.Sprintf("%d requests", len(g)))
			}
			return nil
		}
		_, want := validBody(tc.C.Op, tc.C.Value)
		var got interface{}
		var cerr error
		wantPath := tc.Path
		switch tc.C.Op {
		case "ListProviders":
			got, cerr = cl.ListProviders(ctx)
		case "GetProvider":
			p := want.(*model.ProviderInfo)
			wantPath = "/providers/" + p.AddrInfo.ID.String()
			got, cerr = cl.GetProvider(ctx, p.AddrInfo.ID)
		case "GetStats":
			got, cerr = cl.GetStats(ctx)
		}
		reqs := srv.take()
		if len(reqs) != 1 {
			bad("requests", fmt.Sprintf("%d requests for one call (error %v)", len(reqs), cerr))
			return nil
		}
		if g := reqs[0]; g.Method != "GET" || g.Path != wantPath || g.Query != tc.Query || g.Accept != "application/json" {
			bad("wire", fmt.Sprintf("%s %s ?%s (Accept %q), model: GET %s ?%s (Accept application/json)", g.Method, g.Path, g.Query, g.Accept, wantPath, tc.Query))
		}
		var ae *apierror.Error
		switch tc.Out.Result {
		case "the-value", "nothing":
			if cerr != nil {
				bad("result", fmt.Sprintf("error %v, model: %s", cerr, tc.Out.Result))
				return nil
			}
			gb, _ := json.Marshal(got)
			wb, _ := json.Marshal(want)
			if tc.Out.Result == "nothing" {
				switch tc.C.Op {
				case "ListProviders":
					wb = []byte("null")
				case "GetProvider":
					wb, _ = json.Marshal(&model.ProviderInfo{})
				default:
					wb, _ = json.Marshal(&model.Stats{})
				}
			}
			if !bytes.Equal(gb, wb) {
				bad("value", fmt.Sprintf("the client returned %s, the server holds %s", gb, wb))
			}
		case "decode-error":
			if cerr == nil {
				bad("result", fmt.Sprintf("no error for the body %q", body))
			} else if errors.As(cerr, &ae) {
				bad("decode-error-kind", fmt.Sprintf("a body that does not decode is reported as an API error with status %d", ae.Status()))
			}
		case "api-error":
			switch {
			case cerr == nil:
				bad("result", fmt.Sprintf("no error for status %d", tc.C.Status))
			case !errors.As(cerr, &ae):
				bad("result", fmt.Sprintf("error %v (%T) is no API error", cerr, cerr))
			case ae.Status() != tc.Out.Status:
				bad("error-status", fmt.Sprintf("status %d in the error, %d on the wire", ae.Status(), tc.C.Status))
			default:
				wantText := string(bytes.TrimSpace(body))
				if tc.Out.Text == "status-line" {
					wantText = fmt.Sprintf("%d %s", tc.C.Status, http.StatusText(tc.C.Status))
				}
				if ae.Error() != wantText {
					bad("error-text", fmt.Sprintf("%q, model: %q", ae.Error(), wantText))
				}
			}
		}
		return nil
	})
	if err != nil {
		r.SetExtra("read_error", err.Error())
	}
	return r
}
