// Package sigs concretises the symbolic signature models SignedHead.tla (C03) and
// SignedRequest.tla (C18) with real keys and runs them through the library.
package sigs

import (
	"bytes"
	"context"
	"encoding/json"
	"flag"
	"fmt"
	"net/http"
	"net/http/httptest"
	"strings"
	"sync"
	"time"
	"verifharness/internal/netx"

	"github.com/ipfs/go-cid"
	"github.com/ipld/go-ipld-prime"
	cidlink "github.com/ipld/go-ipld-prime/linking/cid"
	"github.com/ipni/go-libipni/dagsync"
	"github.com/ipni/go-libipni/dagsync/ipnisync"
	"github.com/ipni/go-libipni/dagsync/ipnisync/head"
	"github.com/ipni/go-libipni/maurl"
	ic "github.com/libp2p/go-libp2p/core/crypto"
	"github.com/libp2p/go-libp2p/core/peer"
	"github.com/multiformats/go-multiaddr"
	"github.com/multiformats/go-multihash"

	"verifharness/internal/chain"
	"verifharness/internal/ids"
	"verifharness/internal/lsys"
	"verifharness/internal/rep"
)

type headCase struct {
	Case struct {
		Pub      string `json:"pub"`
		Head     string `json:"head"`
		Topic    string `json:"topic"`
		Expected string `json:"expected"`
		Alt      string `json:"alt"`
	} `json:"case"`
	Out struct {
		Ok   bool   `json:"ok"`
		Head string `json:"head"`
		By   string `json:"by"`
	} `json:"out"`
	nested bool // the head is signed while another head is being made (every third case)
}

func headCid(name string) cid.Cid {
	mh, _ := multihash.Sum([]byte("verif-head-"+name), multihash.SHA2_256, -1)
	return cid.NewCidV1(cid.DagJSON, mh)
}

func topicOf(t string) string {
	if t == "none" {
		return ""
	}
	if t == "t2" {
		// a long topic name: the encoded head grows with it
		return "/indexer/ingest/" + t + "/" + strings.Repeat("long-topic-name/", 20)
	}
	return "/indexer/ingest/" + t
}

func other(all []string, x string) string {
	for _, y := range all {
		if y != x {
			return y
		}
	}
	return x
}

// craft builds the (possibly altered) signed head of a case with keys of type kt.
func craft(hc *headCase, kt string) (*head.SignedHead, error) {
	c := hc.Case
	idsAll, heads, topics := []string{"P", "Q"}, []string{"h1", "h2"}, []string{"none", "t1", "t2"}
	// TLC's CHOOSE picks some other element; the spec's laws hold for any choice, so any other element will do here.
	o, h2, t2 := other(idsAll, c.Pub), other(heads, c.Head), other(topics, c.Topic)
	pk := ids.KeyT(c.Pub, kt)
	ok := ids.KeyT(o, kt)
	signing := pk
	if hc.nested {
		// another head (other CID, other topic, other identity) is signed between encoding this head's payload and signing it
		signing = ids.Nest(pk, func() { head.NewSignedHead(headCid(h2), topicOf(t2), ok) })
	}
	sh, err := head.NewSignedHead(headCid(c.Head), topicOf(c.Topic), signing)
	if err != nil {
		return nil, err
	}
	switch c.Alt {
	case "none":
	case "head":
		sh.Head = cidlink.Link{Cid: headCid(h2)}
	case "topic":
		t := topicOf(t2)
		if t == "" {
			sh.Topic = nil
		} else {
			sh.Topic = &t
		}
	case "key":
		sh.Pubkey, err = ic.MarshalPublicKey(ok.GetPublic())
	case "sig-by-other":
		x, e := head.NewSignedHead(headCid(c.Head), topicOf(c.Topic), ok)
		if e != nil {
			return nil, e
		}
		sh.Sig = x.Sig
	case "resigned-by-other":
		sh, err = head.NewSignedHead(headCid(c.Head), topicOf(c.Topic), ok)
	case "swap-sig-other-head":
		x, e := head.NewSignedHead(headCid(h2), topicOf(c.Topic), pk)
		if e != nil {
			return nil, e
		}
		sh.Sig = x.Sig
	case "swap-key-sig-other-signer":
		x, e := head.NewSignedHead(headCid(c.Head), topicOf(c.Topic), ok)
		if e != nil {
			return nil, e
		}
		sh.Pubkey, sh.Sig = x.Pubkey, x.Sig
	case "empty-key":
		sh.Pubkey = nil
	case "empty-sig":
		sh.Sig = nil
	case "garbage-key":
		sh.Pubkey = []byte{0x08, 0x7f, 0x12, 0x03, 1, 2, 3}
	default:
		return nil, fmt.Errorf("unknown alteration %s", c.Alt)
	}
	return sh, err
}

// headServer serves body at <any>/head and logs every request path.
type headServer struct {
	mu   sync.Mutex
	body []byte
	log  []string
	srv  *httptest.Server
}

func newHeadServer() *headServer {
	hs := &headServer{}
	hs.srv = netx.NewServer(http.HandlerFunc(func(w http.ResponseWriter, r *http.Request) {
		hs.mu.Lock()
		hs.log = append(hs.log, r.URL.Path)
		body := hs.body
		hs.mu.Unlock()
		if strings.HasSuffix(r.URL.Path, "/ipni/v1/ad/head") {
			w.Write(body)
			return
		}
		http.Error(w, "not found", http.StatusNotFound)
	}))
	return hs
}

func (hs *headServer) set(b []byte) {
	hs.mu.Lock()
	hs.body, hs.log = b, nil
	hs.mu.Unlock()
}

func (hs *headServer) afterHead() []string {
	hs.mu.Lock()
	defer hs.mu.Unlock()
	var out []string
	seen := false
	for _, p := range hs.log {
		if seen && !strings.HasSuffix(p, "/head") && !strings.Contains(p, ".well-known") {
			out = append(out, p)
		}
		if strings.HasSuffix(p, "/ipni/v1/ad/head") {
			seen = true
		}
	}
	return out
}

func (hs *headServer) maddr() multiaddr.Multiaddr {
	return chain.HTTPAddr(hs.srv.URL)
}

func mkLinkSystem() ipld.LinkSystem { return lsys.NewStore().LinkSystem() }

var _ = maurl.FromURL

type headObs struct {
	Ok   bool   `json:"ok"`
	Head string `json:"head,omitempty"`
	Err  string `json:"err,omitempty"`
}

// validateBytes runs Decode + Validate + signer comparison (what GetHead does after the fetch).
func validateBytes(b []byte, expected peer.ID) (c cid.Cid, ok bool, panicked string) {
	defer func() {
		if e := recover(); e != nil {
			panicked = fmt.Sprint(e)
		}
	}()
	sh, err := head.Decode(bytes.NewReader(b))
	if err != nil {
		return cid.Undef, false, ""
	}
	signer, err := sh.Validate()
	if err != nil || signer != expected {
		return cid.Undef, false, ""
	}
	return sh.Head.(cidlink.Link).Cid, true, ""
}

func sameHead(a, b *head.SignedHead) bool {
	ta, tb := "", ""
	if a.Topic != nil {
		ta = *a.Topic
	}
	if b.Topic != nil {
		tb = *b.Topic
	}
	return a.Head.String() == b.Head.String() && ta == tb && bytes.Equal(a.Pubkey, b.Pubkey) && bytes.Equal(a.Sig, b.Sig)
}

// RunC03 is "harness c03".
func RunC03(args []string) *rep.Report {
	fs := flag.NewFlagSet("c03", flag.ExitOnError)
	file := fs.String("cases", "", "ndjson case table exported by TLC")
	flipEvery := fs.Int("flip-every", 7, "alter every n-th byte of every honest encoding (1 = every byte)")
	fs.Parse(args)
	r := rep.New()
	hs := newHeadServer()
	defer hs.srv.Close()
	ctx := context.Background()
	flips, syncs, syncs2, pubs := 0, 0, 0, 0
	sharedSyncs := map[string]*ipnisync.Sync{}
	idx := 0
	err := rep.ReadNDJSON(*file, func(line []byte) error {
		hc := new(headCase)
		if err := json.Unmarshal(line, hc); err != nil {
			return err
		}
		idx++
		hc.nested = idx%3 == 0
		r.Eval(hc.Case.Alt != "none")
		if idx%50 == 1 {
			r.Sample(hc)
		}
		kts := []string{"ed25519", "secp256k1", "ecdsa"}
		if idx%8 == 0 {
			kts = append(kts, "rsa")
		}
		if idx%16 == 4 {
			kts = append(kts, "rsa4096") // the largest encoded heads: a 4096-bit key and signature
		}
		for _, kt := range kts {
			sh, err := craft(hc, kt)
			if err != nil {
				r.Inconclusive++
				r.SetExtra("infra_example", err.Error())
				continue
			}
			enc, err := sh.Encode()
			if err != nil {
				r.Inconclusive++
				continue
			}
			expected := ids.PeerT(hc.Case.Expected, kt)
			diverge := func(key, detail string, ob interface{}) {
				r.Diverge(rep.Divergence{Key: key, Case: hc, Expected: hc.Out, Observed: ob, Detail: "key type " + kt + ": " + detail})
			}
			// (a) decode + validate
			c, ok, pn := validateBytes(enc, expected)
			switch {
			case pn != "":
				diverge("panic", pn, nil)
			case ok != hc.Out.Ok:
				diverge(map[bool]string{true: "accepted:" + hc.Case.Alt, false: "honest-head-rejected"}[ok], "Decode/Validate/signer check", headObs{Ok: ok})
			case ok && c != headCid(hc.Out.Head):
				diverge("wrong-head-returned", "Validate accepted but yields another CID", headObs{Ok: ok, Head: c.String()})
			}
			// (b) through the real client: Syncer.GetHead against a server returning these bytes.  One Sync object
			// serves all cases of a key type, and every crafted response is preceded by the honest head of the same
			// publisher being fetched and accepted (a two-step history: whatever the client remembers from a valid
			// head must not make it accept an altered one).
			// client options in rotation: none; "authenticate the server's peer ID" (without a stream host the client falls back
			// on plain HTTP, and the head's signer is still what identifies the publisher); the retrying HTTP client
			ov := idx % 3
			shared := sharedSyncs[fmt.Sprint(kt, ov)]
			if shared == nil {
				copts := []ipnisync.ClientOption{ipnisync.ClientHTTPTimeout(5 * time.Second)}
				switch ov {
				case 1:
					copts = append(copts, ipnisync.ClientAuthServerPeerID(true))
				case 2:
					copts = append(copts, ipnisync.ClientHTTPRetry(2, time.Millisecond, 5*time.Millisecond))
				}
				shared = ipnisync.NewSync(mkLinkSystem(), nil, copts...)
				sharedSyncs[fmt.Sprint(kt, ov)] = shared
			}
			// the publisher's address list as a caller may hand it over: the address alone, or with a nil entry before / after it
			addrList := func() []multiaddr.Multiaddr {
				switch (idx / 3) % 3 {
				case 1:
					return []multiaddr.Multiaddr{nil, hs.maddr()}
				case 2:
					return []multiaddr.Multiaddr{hs.maddr(), nil}
				}
				return []multiaddr.Multiaddr{hs.maddr()}
			}
			if honest, err := head.NewSignedHead(headCid(hc.Case.Head), topicOf(hc.Case.Topic), ids.KeyT(hc.Case.Pub, kt)); err == nil {
				if henc, err := honest.Encode(); err == nil {
					hs.set(henc)
					if sy, err := shared.NewSyncer(peer.AddrInfo{ID: ids.PeerT(hc.Case.Pub, kt), Addrs: []multiaddr.Multiaddr{hs.maddr()}}); err == nil {
						if got, err := sy.GetHead(ctx); err != nil || got != headCid(hc.Case.Head) {
							diverge("honest-head-rejected", fmt.Sprintf("honest head of %s: %v", hc.Case.Pub, err), nil)
						}
						syncs2++
					}
				}
			}
			hs.set(enc)
			syncer, err := shared.NewSyncer(peer.AddrInfo{ID: expected, Addrs: addrList()})
			if err != nil {
				r.Inconclusive++
				r.SetExtra("infra_example", err.Error())
				continue
			}
			got, gerr := syncer.GetHead(ctx)
			syncs++
			gok := gerr == nil && got != cid.Undef
			switch {
			case gok != hc.Out.Ok:
				diverge(map[bool]string{true: "accepted:" + hc.Case.Alt, false: "honest-head-rejected"}[gok], "Syncer.GetHead (after an honest head was accepted)", headObs{Ok: gok, Err: fmt.Sprint(gerr)})
			case gok && got != headCid(hc.Out.Head):
				diverge("wrong-head-returned", "GetHead", headObs{Ok: gok, Head: got.String()})
			}
			// the same two steps on ONE Syncer (the subscriber keeps a publisher's Syncer while its addresses are unchanged):
			// an honest head of the expected publisher, then the crafted response
			if one, err := shared.NewSyncer(peer.AddrInfo{ID: expected, Addrs: addrList()}); err == nil {
				for _, hname := range []string{"h1", "h2"} {
					if honest, err := head.NewSignedHead(headCid(hname), topicOf(hc.Case.Topic), ids.KeyT(hc.Case.Expected, kt)); err == nil {
						if henc, err := honest.Encode(); err == nil {
							hs.set(henc)
							if g, err := one.GetHead(ctx); err != nil || g != headCid(hname) {
								diverge("honest-head-rejected", fmt.Sprintf("honest head %s of %s on a reused Syncer: %v", hname, hc.Case.Expected, err), nil)
							}
						}
					}
					hs.set(enc)
					got, gerr := one.GetHead(ctx)
					syncs++
					gok := gerr == nil && got != cid.Undef
					switch {
					case gok != hc.Out.Ok:
						diverge(map[bool]string{true: "accepted:" + hc.Case.Alt, false: "honest-head-rejected"}[gok], "GetHead on a Syncer that accepted an honest head of the expected publisher before", headObs{Ok: gok, Err: fmt.Sprint(gerr)})
					case gok && got != headCid(hc.Out.Head):
						diverge("wrong-head-returned", "GetHead on a reused Syncer", headObs{Ok: gok, Head: got.String()})
					}
				}
			}
			// (c) rejected head => Subscriber.SyncAdChain fails, requests nothing further and records nothing
			if !hc.Out.Ok && kt == kts[idx%3] {
				hs.set(enc)
				sub, err := dagsync.NewSubscriber(nil, mkLinkSystem(), dagsync.HttpTimeout(5*time.Second))
				if err == nil {
					_, serr := sub.SyncAdChain(ctx, peer.AddrInfo{ID: expected, Addrs: []multiaddr.Multiaddr{hs.maddr()}})
					latest := sub.GetLatestSync(expected)
					after := hs.afterHead()
					syncs++
					if serr == nil || latest != nil || len(after) != 0 {
						diverge("rejected-head-acted-on", fmt.Sprintf("SyncAdChain err=%v latest=%v requests after /head=%v", serr, latest, after), nil)
					}
					// the same subscriber again, after it has seen an honest head of the expected publisher (its sync then fails
					// at the first block, which this server does not have): what the publisher's Syncer remembers must not help
					if honest, err := head.NewSignedHead(headCid("h2"), topicOf(hc.Case.Topic), ids.KeyT(hc.Case.Expected, kt)); err == nil {
						if henc, err := honest.Encode(); err == nil {
							hs.set(henc)
							sub.SyncAdChain(ctx, peer.AddrInfo{ID: expected, Addrs: []multiaddr.Multiaddr{hs.maddr()}})
							hs.set(enc)
							_, serr := sub.SyncAdChain(ctx, peer.AddrInfo{ID: expected, Addrs: []multiaddr.Multiaddr{hs.maddr()}})
							latest := sub.GetLatestSync(expected)
							after := hs.afterHead()
							syncs++
							if serr == nil || latest != nil || len(after) != 0 {
								diverge("rejected-head-acted-on", fmt.Sprintf("second SyncAdChain of one subscriber, after an honest head: err=%v latest=%v requests after /head=%v", serr, latest, after), nil)
							}
						}
					}
					// the publisher's handler is gone (removed by the caller, or by the idle cleaner) and the caller gives no address: the
					// subscriber goes to the address it remembers for that publisher -- and still expects the identity it was asked for
					sub.RemoveHandler(expected)
					hs.set(enc)
					if _, serr := sub.SyncAdChain(ctx, peer.AddrInfo{ID: expected}); serr == nil || sub.GetLatestSync(expected) != nil || len(hs.afterHead()) != 0 {
						diverge("rejected-head-acted-on", fmt.Sprintf("SyncAdChain without addresses after the handler was removed: err=%v latest=%v", serr, sub.GetLatestSync(expected)), nil)
					}
					syncs++
					// the address names the identity that signed the response (/p2p/<signer>) while the caller expects another
					// publisher: the caller's expectation decides
					if signer := ids.PeerT(hc.Case.Pub, kt); signer != expected {
						if withID, err := multiaddr.NewMultiaddr(hs.maddr().String() + "/p2p/" + signer.String()); err == nil {
							hs.set(enc)
							_, serr := sub.SyncAdChain(ctx, peer.AddrInfo{ID: expected, Addrs: []multiaddr.Multiaddr{withID}})
							after := hs.afterHead()
							syncs++
							if serr == nil || sub.GetLatestSync(expected) != nil || sub.GetLatestSync(signer) != nil || len(after) != 0 {
								diverge("rejected-head-acted-on", fmt.Sprintf("SyncAdChain with expected publisher %s and an address ending in /p2p/<signer>: err=%v requests after /head=%v latest(signer)=%v",
									hc.Case.Expected, serr, after, sub.GetLatestSync(signer)), nil)
							}
						}
					}
					sub.Close()
				}
			}
			// (d) byte alterations of an honest encoding: accepted only if the decoded value is unchanged
			if hc.Case.Alt == "none" && hc.Out.Ok && kt == kts[idx%3] {
				for i := 0; i < len(enc); i++ {
					if *flipEvery > 1 && (i+idx)%*flipEvery != 0 {
						continue
					}
					for _, mask := range []byte{0x01, 0x20} {
						b := append([]byte(nil), enc...)
						b[i] ^= mask
						flips++
						c2, ok2, pn := validateBytes(b, expected)
						if pn != "" {
							diverge("panic", fmt.Sprintf("byte %d ^ %#x: %s", i, mask, pn), nil)
							continue
						}
						if !ok2 {
							continue
						}
						d2, derr := head.Decode(bytes.NewReader(b))
						if derr != nil || !sameHead(d2, sh) || c2 != headCid(hc.Case.Head) {
							diverge("accepted-altered-encoding", fmt.Sprintf("byte %d ^ %#x of the encoded head accepted although the decoded value changed", i, mask), nil)
						}
					}
				}
			}
		}
		return nil
	})
	if err != nil {
		r.SetExtra("read_error", err.Error())
	}
	// publisher side: whatever root / topic a real Publisher is given, the head it serves verifies for Publisher.ID()
	for _, kt := range []string{"ed25519", "secp256k1", "ecdsa", "rsa", "rsa4096"} {
		for _, topic := range []string{"", "/indexer/ingest/mainnet", topicOf("t2")} {
			for _, h := range []string{"h1", "h2"} {
				if d := publisherServes(kt, topic, h); d != "" {
					r.Diverge(rep.Divergence{Key: "publisher-head-invalid", Detail: d})
				}
				pubs++
			}
		}
	}
	r.SetExtra("byte_alterations", flips)
	r.SetExtra("client_syncs", syncs)
	r.SetExtra("honest_heads_fetched_first", syncs2)
	r.SetExtra("publisher_setroot_races", racePublisher(r))
	r.SetExtra("publisher_heads_checked", pubs)
	return r
}

// racePublisher: head queries race with SetRoot; once SetRoot(x) has returned and the racing queries are done, the
// head served must be x ("what a publisher serves as the head for the root it was given").  A slow RSA key keeps a
// query inside its signing step long enough for SetRoot calls to land inside it.
func racePublisher(r *rep.Report) int {
	key := ids.KeyT("race-pub", "rsa")
	pub, err := ipnisync.NewPublisher(mkLinkSystem(), key, ipnisync.WithStartServer(false))
	if err != nil {
		return 0
	}
	defer pub.Close()
	roots := []string{"h1", "h2"}
	n := 0
	for i := 0; i < 120; i++ {
		pub.SetRoot(headCid(roots[i%2]))
		var wg sync.WaitGroup
		for q := 0; q < 3; q++ {
			wg.Add(1)
			go func() {
				defer wg.Done()
				rec := httptest.NewRecorder()
				pub.ServeHTTP(rec, httptest.NewRequest("GET", "/ipni/v1/ad/head", nil))
			}()
		}
		want := roots[(i+1)%2]
		time.Sleep(time.Duration(100+50*(i%8)) * time.Microsecond) // let the queries read the root and start signing (about 1 ms with RSA)
		pub.SetRoot(headCid(want))                                 // lands while the queries above are signing the previous root
		wg.Wait()
		rec := httptest.NewRecorder()
		pub.ServeHTTP(rec, httptest.NewRequest("GET", "/ipni/v1/ad/head", nil))
		c, ok, _ := validateBytes(rec.Body.Bytes(), pub.ID())
		n++
		if !ok || c != headCid(want) {
			r.Diverge(rep.Divergence{Key: "publisher-head-stale", Detail: fmt.Sprintf("round %d: SetRoot(%s) returned and all earlier queries finished, yet the publisher serves %s (valid=%v)", i, want, c, ok)})
			break
		}
	}
	return n
}

func publisherServes(kt, topic, h string) string {
	key := ids.KeyT("pub-"+h, kt)
	opts := []ipnisync.Option{ipnisync.WithStartServer(false), ipnisync.WithHeadTopic(topic)}
	pub, err := ipnisync.NewPublisher(mkLinkSystem(), key, opts...)
	if err != nil {
		return "NewPublisher: " + err.Error()
	}
	defer pub.Close()
	pub.SetRoot(headCid(h))
	rec := httptest.NewRecorder()
	pub.ServeHTTP(rec, httptest.NewRequest("GET", "/ipni/v1/ad/head", nil))
	if rec.Code != 200 {
		return fmt.Sprintf("publisher answered %d for /head", rec.Code)
	}
	c, ok, pn := validateBytes(rec.Body.Bytes(), pub.ID())
	if pn != "" || !ok || c != headCid(h) {
		return fmt.Sprintf("head served by publisher (key %s topic %q) does not verify: ok=%v cid=%s panic=%s", kt, topic, ok, c, pn)
	}
	return ""
}
