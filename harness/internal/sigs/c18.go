package sigs

import (
	"bytes"
	"context"
	"encoding/json"
	"errors"
	"flag"
	"fmt"
	"io"
	"net/http"
	"verifharness/internal/netx"

	"github.com/ipni/go-libipni/apierror"
	ingestclient "github.com/ipni/go-libipni/ingest/client"
	"github.com/ipni/go-libipni/ingest/model"
	"github.com/libp2p/go-libp2p/core/crypto"
	"github.com/libp2p/go-libp2p/core/peer"
	"github.com/libp2p/go-libp2p/core/record"
	recpb "github.com/libp2p/go-libp2p/core/record/pb"
	"github.com/multiformats/go-multihash"
	"google.golang.org/protobuf/proto"

	"verifharness/internal/ids"
	"verifharness/internal/rep"
)

type reqCase struct {
	Case struct {
		Made  string `json:"made"`
		Read  string `json:"read"`
		Named string `json:"named"`
		Key   string `json:"key"`
		Alt   string `json:"alt"`
		Via   string `json:"via"`
	} `json:"case"`
	Out struct {
		Ok      bool   `json:"ok"`
		Named   string `json:"named"`
		Content string `json:"content"`
	} `json:"out"`
}

var (
	reqAddrs = []string{"/ip4/8.8.8.8/tcp/9999", "/dns4/provider.example.com/tcp/443/https"}
	reqMD    = []byte("metadata-bytes")
)

func reqMh(content string) multihash.Multihash {
	mh, _ := multihash.Sum([]byte("verif-mh-"+content), multihash.SHA2_256, -1)
	return mh
}

// ingestAddrs: the address strings of an ingest request are the caller's, kept as they are -- so they are spelled as no
// multiaddr printer would spell them (a trailing separator, a port with a leading zero, something that is no multiaddr).
func ingestAddrs(content string) []string {
	if content == "c2" {
		return []string{"/ip4/9.9.9.9/tcp/1234"}
	}
	return []string{"/ip4/8.8.8.8/tcp/9999/", "/dns4/provider.example.com/tcp/0443/https", "provider.example.com:443"}
}

func contentAddrs(content string) []string {
	if content == "c2" {
		return []string{"/ip4/9.9.9.9/tcp/1234"}
	}
	return reqAddrs
}

// nestKey signs like the key it wraps, after having run `before`: what happens between a request's payload being encoded
// and its envelope being sealed.
type nestKey struct {
	crypto.PrivKey
	before func()
}

func (n nestKey) Sign(b []byte) ([]byte, error) {
	n.before()
	return n.PrivKey.Sign(b)
}

func makeReq(kind, named, content, key, kt string) ([]byte, error) {
	return makeReqWith(kind, named, content, ids.KeyT(key, kt), kt)
}

func makeReqWith(kind, named, content string, k crypto.PrivKey, kt string) ([]byte, error) {
	pid := ids.PeerT(named, kt)
	if kind == "ingest" {
		return model.MakeIngestRequest(pid, k, reqMh(content), []byte("ctx-"+content), reqMD, ingestAddrs(content))
	}
	return model.MakeRegisterRequest(pid, k, contentAddrs(content))
}

func editReq(data []byte, f func(e *recpb.Envelope) error) ([]byte, error) {
	var env recpb.Envelope
	if err := proto.Unmarshal(data, &env); err != nil {
		return nil, err
	}
	if err := f(&env); err != nil {
		return nil, err
	}
	return proto.Marshal(&env)
}

func envOf(data []byte) (*recpb.Envelope, error) {
	var env recpb.Envelope
	err := proto.Unmarshal(data, &env)
	return &env, err
}

func craftReq(rc *reqCase, kt string) ([]byte, error) {
	c := rc.Case
	o := other([]string{"P", "Q"}, c.Key)
	var data []byte
	var err error
	if c.Via == "nested" {
		// other requests of both kinds, with other contents and by both identities, are made while this one is being signed
		data, err = makeReqWith(c.Made, c.Named, "c1", nestKey{ids.KeyT(c.Key, kt), func() {
			for _, kind := range []string{"ingest", "register"} {
				makeReq(kind, o, "c2", o, kt)
				makeReq(kind, c.Named, "c2", c.Key, kt)
			}
		}}, kt)
	} else {
		data, err = makeReq(c.Made, c.Named, "c1", c.Key, kt)
	}
	if err != nil {
		return nil, err
	}
	switch c.Alt {
	case "none":
		return data, nil
	case "named-alias":
		// the request names the other multihash form of the signer's own key: the identity form when the real ID is the sha2-256
		// one (ECDSA, RSA), the sha2-256 form when the real ID is the identity one (Ed25519, secp256k1)
		k := ids.KeyT(c.Key, kt)
		kb, err := crypto.MarshalPublicKey(k.GetPublic())
		if err != nil {
			return nil, err
		}
		real, _ := peer.IDFromPublicKey(k.GetPublic())
		code := uint64(multihash.IDENTITY)
		if dm, err := multihash.Decode([]byte(real)); err == nil && dm.Code == multihash.IDENTITY {
			code = multihash.SHA2_256
		}
		amh, err := multihash.Sum(kb, code, -1)
		if err != nil {
			return nil, err
		}
		alias := peer.ID(amh)
		if alias == real {
			return nil, errors.New("alias equals the real peer ID")
		}
		if c.Made == "ingest" {
			return model.MakeIngestRequest(alias, k, reqMh("c1"), []byte("ctx-c1"), reqMD, ingestAddrs("c1"))
		}
		return model.MakeRegisterRequest(alias, k, contentAddrs("c1"))
	case "payload-content", "payload-named":
		named, content := c.Named, "c2"
		if c.Alt == "payload-named" {
			named, content = other([]string{"P", "Q"}, c.Named), "c1"
		}
		d2, err := makeReq(c.Made, named, content, c.Key, kt)
		if err != nil {
			return nil, err
		}
		e2, err := envOf(d2)
		if err != nil {
			return nil, err
		}
		return editReq(data, func(e *recpb.Envelope) error { e.Payload = e2.Payload; return nil })
	case "key":
		d2, err := makeReq(c.Made, c.Named, "c1", o, kt)
		if err != nil {
			return nil, err
		}
		e2, _ := envOf(d2)
		return editReq(data, func(e *recpb.Envelope) error { e.PublicKey = e2.PublicKey; return nil })
	case "sig":
		d2, err := makeReq(c.Made, c.Named, "c1", o, kt)
		if err != nil {
			return nil, err
		}
		e2, _ := envOf(d2)
		return editReq(data, func(e *recpb.Envelope) error { e.Signature = e2.Signature; return nil })
	case "sealed-as-foreign-type":
		// the same payload, validly sealed by the same key for the same domain, under a payload type of its own
		e0, err := envOf(data)
		if err != nil {
			return nil, err
		}
		dom := model.IngestRequestEnvelopeDomain
		if c.Made == "register" {
			dom = peer.PeerRecordEnvelopeDomain
		}
		env, err := record.Seal(&foreignRecord{domain: dom, payload: e0.Payload}, ids.KeyT(c.Key, kt))
		if err != nil {
			return nil, err
		}
		return env.Marshal()
	case "type":
		d2, err := makeReq(other([]string{"ingest", "register"}, c.Made), c.Named, "c1", c.Key, kt)
		if err != nil {
			return nil, err
		}
		e2, _ := envOf(d2)
		return editReq(data, func(e *recpb.Envelope) error { e.PayloadType = e2.PayloadType; return nil })
	}
	return nil, fmt.Errorf("unknown alteration %s", c.Alt)
}

// foreignRecord seals arbitrary payload bytes under a payload type that is not registered for requests.
type foreignRecord struct {
	domain  string
	payload []byte
}

func (f *foreignRecord) Domain() string                 { return f.domain }
func (f *foreignRecord) Codec() []byte                  { return []byte("verif-foreign-payload-type") }
func (f *foreignRecord) MarshalRecord() ([]byte, error) { return f.payload, nil }
func (f *foreignRecord) UnmarshalRecord(b []byte) error { f.payload = b; return nil }

type reqObs struct {
	Ok      bool   `json:"ok"`
	Named   string `json:"named,omitempty"`
	Content string `json:"content,omitempty"`
	Err     string `json:"err,omitempty"`
	Panic   string `json:"panic,omitempty"`
}

func nameOfPeer(p peer.ID, kt string) string {
	for _, n := range []string{"P", "Q", "R"} {
		if ids.PeerT(n, kt) == p {
			return n
		}
	}
	return "?" + p.String()
}

func readReq(kind string, data []byte, kt string) (ob reqObs) {
	defer func() {
		if e := recover(); e != nil {
			ob.Panic = fmt.Sprint(e)
		}
	}()
	if kind == "ingest" {
		req, err := model.ReadIngestRequest(data)
		if err != nil {
			ob.Err = err.Error()
			return
		}
		ob.Ok, ob.Named = true, nameOfPeer(req.ProviderID, kt)
		for _, ct := range []string{"c1", "c2"} {
			if bytes.Equal(req.Multihash, reqMh(ct)) && string(req.ContextID) == "ctx-"+ct && bytes.Equal(req.Metadata, reqMD) &&
				fmt.Sprintf("%q", req.Addrs) == fmt.Sprintf("%q", ingestAddrs(ct)) && req.Seq != 0 {
				ob.Content = ct
			}
		}
		return
	}
	rec, err := model.ReadRegisterRequest(data)
	if err != nil {
		ob.Err = err.Error()
		return
	}
	ob.Ok, ob.Named = true, nameOfPeer(rec.PeerID, kt)
	for _, ct := range []string{"c1", "c2"} {
		want := contentAddrs(ct)
		if len(rec.Addrs) == len(want) {
			same := true
			for i := range want {
				if rec.Addrs[i].String() != want[i] {
					same = false
				}
			}
			if same {
				ob.Content = ct
			}
		}
	}
	return
}

// RunC18 is "harness c18".
func RunC18(args []string) *rep.Report {
	fs := flag.NewFlagSet("c18", flag.ExitOnError)
	file := fs.String("cases", "", "ndjson case table exported by TLC")
	flipEvery := fs.Int("flip-every", 5, "alter every n-th byte of every honest sealed request (1 = every byte)")
	fs.Parse(args)
	r := rep.New()
	// server side of the ingest client: the endpoint decides the reader
	var srvObs reqObs
	srvKt := ""
	mux := http.NewServeMux()
	serve := func(kind string) http.HandlerFunc {
		return func(w http.ResponseWriter, req *http.Request) {
			body, _ := io.ReadAll(req.Body)
			srvObs = readReq(kind, body, srvKt)
			if !srvObs.Ok {
				http.Error(w, string(apierror.EncodeError(apierror.New(errors.New(srvObs.Err+srvObs.Panic), http.StatusBadRequest))), http.StatusBadRequest)
			}
		}
	}
	mux.HandleFunc("/ingest/content", serve("ingest"))
	mux.HandleFunc("/register", serve("register"))
	srv := netx.NewServer(mux)
	defer srv.Close()
	icl, ierr := ingestclient.New(srv.URL)
	if ierr != nil {
		r.SetExtra("read_error", ierr.Error())
		return r
	}
	idx, flips, execs := 0, 0, 0
	err := rep.ReadNDJSON(*file, func(line []byte) error {
		rc := new(reqCase)
		if err := json.Unmarshal(line, rc); err != nil {
			return err
		}
		idx++
		r.Eval(rc.Case.Alt != "none" || rc.Case.Key != rc.Case.Named || rc.Case.Made != rc.Case.Read)
		if idx%20 == 1 {
			r.Sample(rc)
		}
		for _, kt := range []string{"ed25519", "secp256k1", "ecdsa", "rsa"} {
			if rc.Case.Via == "client" {
				// made and posted by the real ingest client, read by the server's reader for that endpoint
				srvObs, srvKt = reqObs{}, kt
				pid, k := ids.PeerT(rc.Case.Named, kt), ids.KeyT(rc.Case.Key, kt)
				var cerr error
				if rc.Case.Made == "ingest" {
					cerr = icl.IndexContent(context.Background(), pid, k, reqMh("c1"), []byte("ctx-c1"), reqMD, ingestAddrs("c1"))
				} else {
					cerr = icl.Register(context.Background(), pid, k, contentAddrs("c1"))
				}
				execs++
				ob := srvObs
				key := ""
				switch {
				case ob.Panic != "":
					key = "panic"
				case ob.Ok && !rc.Out.Ok:
					key = "accepted:signed-by-other-identity"
				case !ob.Ok && rc.Out.Ok:
					key = "own-request-rejected"
				case ob.Ok && (ob.Named != rc.Out.Named || ob.Content != rc.Out.Content):
					key = "fields-changed"
				case (cerr == nil) != ob.Ok:
					key = "client-outcome"
				}
				if key != "" {
					r.Diverge(rep.Divergence{Key: key, Case: rc, Expected: rc.Out, Observed: ob, Detail: fmt.Sprintf("through the ingest client, key type %s, client error: %v", kt, cerr)})
				}
				continue
			}
			data, err := craftReq(rc, kt)
			if err != nil {
				r.Inconclusive++
				r.SetExtra("infra_example", err.Error())
				continue
			}
			ob := readReq(rc.Case.Read, data, kt)
			execs++
			// reading is a function of the bytes: the same bytes read again (and once more after another request was read)
			// give the same verdict
			for again := 0; again < 2; again++ {
				if ob2 := readReq(rc.Case.Read, data, kt); ob2 != ob {
					execs++
					r.Diverge(rep.Divergence{Key: "verdict-changes-on-reread", Case: rc, Expected: ob, Observed: ob2,
						Detail: fmt.Sprintf("key type %s: read %d of the same bytes gave another verdict", kt, again+2)})
					break
				}
				if honest, err := makeReq(rc.Case.Read, "Q", "c2", "Q", kt); err == nil {
					readReq(rc.Case.Read, honest, kt)
				}
			}
			key := ""
			switch {
			case ob.Panic != "":
				key = "panic"
			case ob.Ok && !rc.Out.Ok:
				key = "accepted:"
				switch {
				case rc.Case.Alt != "none":
					key += rc.Case.Alt
				case rc.Case.Made != rc.Case.Read:
					key += "other-domain"
				default:
					key += "signed-by-other-identity"
				}
			case !ob.Ok && rc.Out.Ok:
				key = "own-request-rejected"
			case ob.Ok && (ob.Named != rc.Out.Named || ob.Content != rc.Out.Content):
				key = "fields-changed"
			}
			if key != "" {
				r.Diverge(rep.Divergence{Key: key, Case: rc, Expected: rc.Out, Observed: ob, Detail: "key type " + kt})
			}
			// byte alterations of an honest sealed request
			if rc.Out.Ok {
				orig, _ := envOf(data)
				for i := 0; i < len(data); i++ {
					if *flipEvery > 1 && (i+idx)%*flipEvery != 0 {
						continue
					}
					b := append([]byte(nil), data...)
					b[i] ^= 0x04
					flips++
					ob := readReq(rc.Case.Read, b, kt)
					if ob.Panic != "" {
						r.Diverge(rep.Divergence{Key: "panic", Case: rc, Detail: fmt.Sprintf("%s: byte %d altered: %s", kt, i, ob.Panic)})
						continue
					}
					if !ob.Ok {
						continue
					}
					e2, err := envOf(b)
					if err != nil || !proto.Equal(orig.PublicKey, e2.PublicKey) || !bytes.Equal(orig.PayloadType, e2.PayloadType) ||
						!bytes.Equal(orig.Payload, e2.Payload) || !bytes.Equal(orig.Signature, e2.Signature) {
						r.Diverge(rep.Divergence{Key: "accepted-altered-bytes", Case: rc, Detail: fmt.Sprintf("%s: byte %d of the sealed request altered, still accepted", kt, i)})
					}
				}
			}
		}
		return nil
	})
	if err != nil {
		r.SetExtra("read_error", err.Error())
	}
	r.SetExtra("byte_alterations", flips)
	r.SetExtra("impl_executions", execs)
	return r
}
