// Package pubapi binds spec/PublisherAPI.tla to ipnisync.Publisher: every request of the model's table goes to a real
// Publisher (as its own server, and as a handler in the harness's server, without and with a path prefix) whose link
// system records the content-type hint it is handed; a real Subscriber then shows what hint each kind of sync sends.
package pubapi

import (
	"bytes"
	"context"
	"encoding/json"
	"errors"
	"flag"
	"fmt"
	"io"
	"net/http"
	"strings"
	"sync"
	"verifharness/internal/netx"

	"github.com/ipfs/go-cid"
	"github.com/ipld/go-ipld-prime"
	cidlink "github.com/ipld/go-ipld-prime/linking/cid"
	"github.com/ipni/go-libipni/dagsync"
	"github.com/ipni/go-libipni/dagsync/ipnisync"
	"github.com/ipni/go-libipni/dagsync/ipnisync/head"
	"github.com/libp2p/go-libp2p/core/peer"
	"github.com/multiformats/go-multiaddr"
	manet "github.com/multiformats/go-multiaddr/net"

	"verifharness/internal/chain"
	"verifharness/internal/ids"
	"verifharness/internal/lsys"
	"verifharness/internal/rep"
)

type req struct {
	Mode  string `json:"mode"`
	Place string `json:"place"`
	Ask   string `json:"ask"`
	Root  string `json:"root"`
	Hint  string `json:"hint"`
}

type tcase struct {
	R   req `json:"r"`
	Out struct {
		Status int    `json:"status"`
		Body   string `json:"body"`
		Seen   string `json:"seen"`
	} `json:"out"`
}

type clientCase struct {
	Op   string `json:"op"`
	Hint string `json:"hint"`
}

// recorder wraps a store's link system: the read opener notes what hint the link context carries.
type recorder struct {
	mu      sync.Mutex
	seen    []string
	loadErr cid.Cid
}

func (rc *recorder) wrap(ls ipld.LinkSystem) ipld.LinkSystem {
	inner := ls.StorageReadOpener
	ls.StorageReadOpener = func(lc ipld.LinkContext, lnk ipld.Link) (io.Reader, error) {
		v := "none"
		if lc.Ctx != nil {
			if s, _ := ipnisync.CidSchemaFromCtx(lc.Ctx); s != "" { // an unknown value comes with an error AND the value
				v = s
			}
		}
		rc.mu.Lock()
		rc.seen = append(rc.seen, v)
		rc.mu.Unlock()
		if lnk.(cidlink.Link).Cid == rc.loadErr {
			return nil, errors.New("disk on fire")
		}
		return inner(lc, lnk)
	}
	return ls
}

func (rc *recorder) take() []string {
	rc.mu.Lock()
	defer rc.mu.Unlock()
	s := rc.seen
	rc.seen = nil
	return s
}

type target struct {
	base string // URL up to and including the handler path
	pub  *ipnisync.Publisher
	rec  *recorder
	ch   *chain.Chain
	stop func()
}

const topic = "/indexer/ingest/x01"

func newTarget(mode string) (*target, error) {
	ch, err := chain.Build("ads", 3, "x01-"+mode)
	if err != nil {
		return nil, err
	}
	rec := &recorder{loadErr: ch.Cids[1]}
	ls := rec.wrap(ch.Store.LinkSystem())
	key := ids.Key("x01-pub-" + mode)
	t := &target{rec: rec, ch: ch}
	switch mode {
	case "served":
		t.pub, err = netx.Retry(func() (*ipnisync.Publisher, error) {
			return ipnisync.NewPublisher(ls, key, ipnisync.WithHTTPListenAddrs("127.0.0.1:0"), ipnisync.WithHeadTopic(topic))
		})
		if err != nil {
			return nil, err
		}
		na, err := manet.ToNetAddr(t.pub.Addrs()[0].Decapsulate(multiaddr.StringCast("/http")))
		if err != nil {
			return nil, err
		}
		t.base = "http://" + na.String() + ipnisync.IPNIPath
		t.stop = func() { t.pub.Close() }
	default:
		opts := []ipnisync.Option{ipnisync.WithStartServer(false), ipnisync.WithHeadTopic(topic)}
		pfx := ""
		if mode == "handler-pfx" {
			pfx = "/some/prefix"
			opts = append(opts, ipnisync.WithHandlerPath(pfx))
		}
		t.pub, err = ipnisync.NewPublisher(ls, key, opts...)
		if err != nil {
			return nil, err
		}
		srv := netx.NewServer(t.pub)
		t.base = srv.URL + pfx + ipnisync.IPNIPath
		t.stop = func() { srv.Close(); t.pub.Close() }
	}
	t.base = strings.TrimSuffix(t.base, "/")
	return t, nil
}

func (t *target) url(r req) string {
	last := ""
	switch r.Ask {
	case "head":
		last = "head"
	case "cid-present":
		last = t.ch.Cids[2].String()
	case "cid-absent":
		last = t.ch.Off.String()
	case "cid-loaderr":
		last = t.ch.Cids[1].String()
	case "not-a-cid":
		last = "certainly-not-a-cid"
	}
	switch r.Place {
	case "deeper":
		return t.base + "/extra/" + last
	case "outside":
		if r.Mode == "served" {
			return strings.TrimSuffix(t.base, strings.TrimSuffix(ipnisync.IPNIPath, "/")) + "/elsewhere/" + last
		}
		return strings.TrimSuffix(t.base, strings.TrimSuffix(ipnisync.IPNIPath, "/")) + "/elsewhere/ipni/" + last
	}
	return t.base + "/" + last
}

func Run(args []string) *rep.Report {
	fs := flag.NewFlagSet("x01", flag.ExitOnError)
	file := fs.String("cases", "", "ndjson request table exported by TLC")
	clientFile := fs.String("client-cases", "", "ndjson table of what each kind of sync announces")
	fs.Parse(args)
	r := rep.New()
	targets := map[string]*target{}
	for _, m := range []string{"served", "handler", "handler-pfx"} {
		t, err := newTarget(m)
		if err != nil {
			r.SetExtra("read_error", m+": "+err.Error())
			return r
		}
		defer t.stop()
		targets[m] = t
	}
	err := rep.ReadNDJSON(*file, func(line []byte) error {
		tc := new(tcase)
		if err := json.Unmarshal(line, tc); err != nil {
			return err
		}
		r.Eval(tc.R.Place != "at" || tc.R.Hint != "none")
		t := targets[tc.R.Mode]
		if tc.R.Root == "set" {
			t.pub.SetRoot(t.ch.Cids[3])
		} else {
			t.pub.SetRoot(cid.Undef)
		}
		t.rec.take()
		hr, _ := http.NewRequest("GET", t.url(tc.R), nil)
		if tc.R.Hint != "none" {
			v := tc.R.Hint
			if v == "other" {
				v = "SomethingNewer"
			}
			hr.Header.Set(ipnisync.CidSchemaHeader, v)
		}
		resp, err := http.DefaultClient.Do(hr)
		if err != nil {
			r.Inconclusive++
			r.SetExtra("infra_example", err.Error())
			return nil
		}
		body, _ := io.ReadAll(resp.Body)
		resp.Body.Close()
		bad := func(key, detail string) {
			r.Diverge(rep.Divergence{Key: key, Case: tc, Detail: fmt.Sprintf("%s %s: %s", hr.Method, hr.URL, detail)})
		}
		seen := t.rec.take()
		switch {
		case resp.StatusCode != tc.Out.Status:
			bad("status", fmt.Sprintf("status %d, model %d", resp.StatusCode, tc.Out.Status))
			return nil
		case tc.Out.Seen == "not-consulted" && len(seen) != 0:
			bad("store-consulted", fmt.Sprintf("the link system was consulted (%v) for a request that must be answered without it", seen))
		case tc.Out.Seen != "not-consulted":
			want := tc.Out.Seen
			if want == "other" {
				want = "SomethingNewer"
			}
			if len(seen) != 1 || seen[0] != want {
				bad("hint-seen", fmt.Sprintf("the link system saw %v, the request carried %q", seen, want))
			}
		}
		switch tc.Out.Body {
		case "head":
			sh, err := head.Decode(bytes.NewReader(body))
			if err != nil {
				bad("head-body", err.Error())
				break
			}
			signer, err := sh.Validate()
			if err != nil || signer != t.pub.ID() || sh.Head.(cidlink.Link).Cid != t.ch.Cids[3] || sh.Topic == nil || *sh.Topic != topic {
				bad("head-body", fmt.Sprintf("signer %v (publisher %v), head %v, topic %v, %v", signer, t.pub.ID(), sh.Head, sh.Topic, err))
			}
		case "block":
			want, _ := t.ch.Store.Get(t.ch.Cids[2])
			if !bytes.Equal(body, want) {
				bad("block-body", fmt.Sprintf("%d bytes served, the block has %d", len(body), len(want)))
			}
		case "empty":
			if len(bytes.TrimSpace(body)) != 0 {
				bad("empty-body", fmt.Sprintf("%q", body))
			}
		}
		return nil
	})
	if err != nil {
		r.SetExtra("read_error", err.Error())
		return r
	}
	if *clientFile != "" {
		if err := clients(r, *clientFile); err != nil {
			r.SetExtra("read_error", err.Error())
		}
	}
	return r
}

// clients: a real Subscriber syncs from a real Publisher whose link system records the hints.
func clients(r *rep.Report, file string) error {
	ads, err := chain.Build("ads", 3, "x01-client")
	if err != nil {
		return err
	}
	ents, err := chain.Build("entries", 3, "x01-client")
	if err != nil {
		return err
	}
	for _, c := range ents.Cids[1:] { // one store serves both chains
		b, _ := ents.Store.Get(c)
		ads.Store.Put(c, b)
	}
	rec := &recorder{}
	pub, err := netx.Retry(func() (*ipnisync.Publisher, error) {
		return ipnisync.NewPublisher(rec.wrap(ads.Store.LinkSystem()), ids.Key("x01-client-pub"), ipnisync.WithHTTPListenAddrs("127.0.0.1:0"))
	})
	if err != nil {
		return err
	}
	defer pub.Close()
	info := peer.AddrInfo{ID: pub.ID(), Addrs: pub.Addrs()}
	return rep.ReadNDJSON(file, func(line []byte) error {
		cc := new(clientCase)
		if err := json.Unmarshal(line, cc); err != nil {
			return err
		}
		r.Eval(true)
		dst := lsys.NewStore()
		sub, err := dagsync.NewSubscriber(nil, dst.LinkSystem(), dagsync.RecvAnnounce(""))
		if err != nil {
			return err
		}
		defer sub.Close()
		pub.SetRoot(ads.Cids[3])
		rec.take()
		ctx := context.Background()
		var serr error
		switch cc.Op {
		case "SyncAdChain":
			_, serr = sub.SyncAdChain(ctx, info)
		case "announce":
			evs, cancel := sub.OnSyncFinished()
			serr = sub.Announce(ctx, ads.Cids[3], info)
			if serr == nil {
				<-evs
			}
			cancel()
		case "SyncEntries":
			serr = sub.SyncEntries(ctx, info, ents.Cids[3])
		case "SyncOneEntry":
			serr = sub.SyncOneEntry(ctx, info, ents.Cids[3])
		case "SyncHAMTEntries":
			serr = sub.SyncHAMTEntries(ctx, info, ents.Cids[3])
		}
		seen := rec.take()
		if serr != nil {
			r.Diverge(rep.Divergence{Key: "client-sync-failed", Case: cc, Detail: serr.Error()})
			return nil
		}
		if len(seen) == 0 {
			r.Diverge(rep.Divergence{Key: "client-hint", Case: cc, Detail: "the publisher's link system was not consulted"})
		}
		for _, s := range seen {
			if s != cc.Hint {
				r.Diverge(rep.Divergence{Key: "client-hint", Case: cc, Detail: fmt.Sprintf("the publisher's link system saw %v, model: %s with every block request", seen, cc.Hint)})
				break
			}
		}
		return nil
	})
}
