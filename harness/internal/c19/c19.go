// Package c19 runs the cases of spec/FindAPI.tla against the real rwriter helper (inside an HTTP handler of
// the usual server shape) and the real find client.
package c19

import (
	"bufio"
	"bytes"
	"context"
	"encoding/hex"
	"encoding/json"
	"errors"
	"flag"
	"fmt"
	"io"
	"log"
	"net"
	"net/http"
	"net/http/httptest"
	"net/url"
	"runtime"
	"strconv"
	"strings"
	"time"
	"verifharness/internal/netx"

	"github.com/ipfs/go-cid"
	"github.com/ipni/go-libipni/apierror"
	"github.com/ipni/go-libipni/find/client"
	"github.com/ipni/go-libipni/find/model"
	"github.com/ipni/go-libipni/rwriter"
	"github.com/libp2p/go-libp2p/core/peer"
	"github.com/multiformats/go-multiaddr"
	"github.com/multiformats/go-multihash"

	"verifharness/internal/ids"
	"verifharness/internal/rep"
)

type tcase struct {
	Hs     [][]string `json:"hs"`
	Prefer bool       `json:"prefer"`
	Pk     string     `json:"pk"`
	Nres   int        `json:"nres"`
	Out    string     `json:"out"`
	Status int        `json:"status"`
}

var media = map[string]string{"json": "application/json", "ndjson": "application/x-ndjson", "any": "*/*", "other": "text/html",
	"malformed": "application/;;json=", "jsonq": "application/json; q=0.9"}

type answer struct {
	Status int    `json:"status"`
	Body   string `json:"body"`
	N      int    `json:"n"`
}

type clientCase struct {
	A   answer `json:"a"`
	Out struct {
		Err bool `json:"err"`
		N   int  `json:"n"`
	} `json:"out"`
}

func theMh() multihash.Multihash {
	mh, _ := multihash.Sum([]byte("c19-key"), multihash.SHA2_256, -1)
	return mh
}

// hexLikeMh is an identity multihash whose base58 form consists of hex digits only and has even length: read as hex it is
// something else (and no multihash).
var hexLikeMh = func() multihash.Multihash {
	for a := 0; a < 1<<24; a++ {
		mh, _ := multihash.Sum([]byte{byte(a >> 16), byte(a >> 8), byte(a)}, multihash.IDENTITY, -1)
		s := mh.B58String()
		if len(s)%2 != 0 {
			continue
		}
		if _, err := hex.DecodeString(s); err == nil {
			return mh
		}
	}
	panic("no hex-like base58 multihash found")
}()

// mhFor is the multihash a request of path kind pk asks for.
func longMh(n int) multihash.Multihash {
	mh, _ := multihash.Sum(bytes.Repeat([]byte("verif-c19-long-key-"), 8)[:n], multihash.IDENTITY, -1)
	return mh
}

func mhFor(pk string) multihash.Multihash {
	if pk == "mh-b58-hexlike" {
		return hexLikeMh
	}
	if pk == "mh-b58-long" {
		return longMh(100)
	}
	if pk == "mh-hex-long" {
		return longMh(70)
	}
	return theMh()
}

func pathFor(pk string) string {
	mh := theMh()
	switch pk {
	case "mh-b58-hexlike":
		return "/multihash/" + hexLikeMh.B58String()
	case "mh-b58-long":
		return "/multihash/" + longMh(100).B58String()
	case "mh-hex-long":
		return "/multihash/" + hex.EncodeToString(longMh(70))
	case "mh-b58":
		return "/multihash/" + mh.B58String()
	case "mh-hex":
		return "/multihash/" + hex.EncodeToString(mh)
	case "cid":
		return "/cid/" + cid.NewCidV1(cid.Raw, mh).String()
	case "other-type":
		return "/metadata/" + mh.B58String()
	case "no-type":
		return "/" + mh.B58String()
	case "bad-key":
		return "/multihash/not_base58_0OIl!"
	case "not-a-multihash":
		return "/multihash/" + hex.EncodeToString([]byte{0x12, 0x40, 0x01})
	case "double-slash":
		return "/multihash//" + mh.B58String()
	case "empty-path":
		return ""
	}
	return "/"
}

// rawGet writes a GET request with the request target in absolute form (scheme://host + path, the path possibly empty)
// and reads the response.
func rawGet(base, p string, h http.Header) (*http.Response, error) {
	u, err := url.Parse(base)
	if err != nil {
		return nil, err
	}
	conn, err := net.DialTimeout("tcp", u.Host, 2*time.Second)
	if err != nil {
		return nil, err
	}
	conn.SetDeadline(time.Now().Add(5 * time.Second))
	var b bytes.Buffer
	fmt.Fprintf(&b, "GET %s%s HTTP/1.1\r\nHost: %s\r\nConnection: close\r\n", base, p, u.Host)
	for _, v := range h.Values("Accept") {
		fmt.Fprintf(&b, "Accept: %s\r\n", v)
	}
	b.WriteString("\r\n")
	if _, err := conn.Write(b.Bytes()); err != nil {
		conn.Close()
		return nil, err
	}
	resp, err := http.ReadResponse(bufio.NewReader(conn), nil)
	if err != nil {
		conn.Close()
		return nil, err
	}
	body, _ := io.ReadAll(resp.Body)
	conn.Close()
	resp.Body = io.NopCloser(bytes.NewReader(body))
	return resp, nil
}

// results returns n provider results exercising nil / empty / binary context IDs and metadata and 0..2 addresses.
func results(n, variant int) []model.ProviderResult {
	var out []model.ProviderResult
	for i := 0; i < n; i++ {
		k := i + variant
		pr := model.ProviderResult{Provider: &peer.AddrInfo{ID: ids.Peer(fmt.Sprintf("c19-%d", k%4))}}
		switch k % 3 {
		case 0:
			pr.ContextID = []byte{0x00, 0xff, 0x7f, '"', '\n'}
		case 1:
			pr.ContextID = []byte{}
		}
		switch k % 4 {
		case 0:
			pr.Metadata = []byte{0x80, 0x12}
		case 1:
			pr.Metadata = bytes.Repeat([]byte{0xAB}, 300)
		case 2:
			pr.Metadata = []byte{}
		}
		for a := 0; a < k%3; a++ {
			pr.Provider.Addrs = append(pr.Provider.Addrs, multiaddr.StringCast(fmt.Sprintf("/ip4/8.8.%d.%d/tcp/%d", k%200, a+1, 3000+a)))
		}
		out = append(out, pr)
	}
	return out
}

func sameResult(a, b model.ProviderResult) bool {
	if !bytes.Equal(a.ContextID, b.ContextID) || !bytes.Equal(a.Metadata, b.Metadata) {
		return false
	}
	if (a.Provider == nil) != (b.Provider == nil) {
		return false
	}
	if a.Provider == nil {
		return true
	}
	if a.Provider.ID != b.Provider.ID || len(a.Provider.Addrs) != len(b.Provider.Addrs) {
		return false
	}
	for i := range a.Provider.Addrs {
		if !a.Provider.Addrs[i].Equal(b.Provider.Addrs[i]) {
			return false
		}
	}
	return true
}

func Run(args []string) *rep.Report {
	fs := flag.NewFlagSet("c19", flag.ExitOnError)
	file := fs.String("cases", "", "ndjson case table exported by TLC")
	clientCases := fs.String("client-cases", "", "ndjson table of server answers and client outcomes exported by TLC")
	shard := fs.String("shard", "", "i/n (internal)")
	procs := fs.Int("procs", runtime.NumCPU(), "worker processes")
	fs.Parse(args)
	if *shard == "" {
		return rep.RunSharded("c19", args, *procs)
	}
	si, sn := rep.ParseShard(*shard)
	r := rep.New()
	var cur *tcase
	var curResults []model.ProviderResult
	var handlerPanic string
	handler := func(prefer bool) http.Handler {
		return http.HandlerFunc(func(w http.ResponseWriter, req *http.Request) {
			defer func() {
				if e := recover(); e != nil {
					handlerPanic = fmt.Sprint(e)
					http.Error(w, "panic", 500)
				}
			}()
			rw, err := rwriter.New(w, req, rwriter.WithPreferJson(prefer))
			if err != nil {
				var ae *apierror.Error
				if errors.As(err, &ae) {
					http.Error(w, ae.Error(), ae.Status())
				} else {
					http.Error(w, err.Error(), 500)
				}
				return
			}
			pw := rwriter.NewProviderResponseWriter(rw)
			for _, pr := range curResults {
				if err := pw.WriteProviderResult(pr); err != nil {
					http.Error(w, err.Error(), 500)
					return
				}
			}
			if err := pw.Close(); err != nil {
				var ae *apierror.Error
				if errors.As(err, &ae) {
					http.Error(w, ae.Error(), ae.Status())
				} else {
					http.Error(w, err.Error(), 500)
				}
			}
		})
	}
	srvs := map[bool]*httptest.Server{true: netx.NewServer(handler(true)), false: netx.NewServer(handler(false))}
	defer srvs[true].Close()
	defer srvs[false].Close()
	// the same handlers behind middleware whose ResponseWriter cannot flush (http.TimeoutHandler buffers the response): what
	// is negotiated and written must not depend on it
	tsrvs := map[bool]*httptest.Server{true: netx.NewServer(http.TimeoutHandler(handler(true), 30*time.Second, "timeout")),
		false: netx.NewServer(http.TimeoutHandler(handler(false), 30*time.Second, "timeout"))}
	defer tsrvs[true].Close()
	defer tsrvs[false].Close()
	idx, clientFinds := 0, 0
	bad := func(key string, tc *tcase, detail string) {
		r.Diverge(rep.Divergence{Key: key, Case: tc, Detail: detail})
	}
	err := rep.ReadNDJSON(*file, func(line []byte) error {
		tc := new(tcase)
		if err := json.Unmarshal(line, tc); err != nil {
			return err
		}
		idx++
		if idx%sn != si {
			return nil
		}
		cur, handlerPanic = tc, ""
		nres := tc.Nres
		if nres > 0 {
			nres = 1 + idx%3 // 1..3 results
		}
		curResults = results(nres, idx)
		r.Eval(len(tc.Hs) > 0)
		if idx%4999 == 0 {
			r.Sample(tc)
		}
		base := srvs[tc.Prefer].URL
		if idx%3 == 0 {
			base = tsrvs[tc.Prefer].URL // every third case: through the writer that cannot flush
		}
		req, _ := http.NewRequest("GET", base+pathFor(tc.Pk), nil)
		for _, h := range tc.Hs {
			var vals []string
			for _, t := range h {
				vals = append(vals, media[t])
			}
			req.Header.Add("Accept", strings.Join(vals, ", "))
		}
		var resp *http.Response
		var err error
		if tc.Pk == "empty-path" || tc.Pk == "double-slash" {
			// written to the wire by hand: net/http's client would send "/" for an empty path and might clean the doubled slash
			resp, err = rawGet(base, pathFor(tc.Pk), req.Header)
			if err != nil {
				if handlerPanic != "" || strings.Contains(err.Error(), "EOF") {
					bad("panic", tc, fmt.Sprintf("no response to a request with %s (%v); handler panic: %q", tc.Pk, err, handlerPanic))
					return nil
				}
				r.Inconclusive++
				return nil
			}
		} else {
			resp, err = http.DefaultClient.Do(req)
		}
		if err != nil {
			r.Inconclusive++
			return nil
		}
		body, _ := io.ReadAll(resp.Body)
		resp.Body.Close()
		if handlerPanic != "" {
			bad("panic", tc, handlerPanic)
			return nil
		}
		if resp.StatusCode != tc.Status {
			bad(fmt.Sprintf("status-%d-model-%d", resp.StatusCode, tc.Status), tc, fmt.Sprintf("Accept %v path %s: status %d body %.200q", req.Header.Values("Accept"), pathFor(tc.Pk), resp.StatusCode, body))
			return nil
		}
		if resp.StatusCode != 200 {
			return nil
		}
		ct := resp.Header.Get("Content-Type")
		switch tc.Out {
		case "json":
			if !strings.HasPrefix(ct, "application/json") {
				bad("content-type", tc, ct)
			}
			fr, err := model.UnmarshalFindResponse(body)
			if err != nil || len(fr.MultihashResults) != 1 || !bytes.Equal(fr.MultihashResults[0].Multihash, mhFor(tc.Pk)) || len(fr.MultihashResults[0].ProviderResults) != len(curResults) {
				bad("json-body", tc, fmt.Sprintf("%v %.300q", err, body))
				return nil
			}
			for i, pr := range fr.MultihashResults[0].ProviderResults {
				if !sameResult(pr, curResults[i]) {
					bad("json-body", tc, fmt.Sprintf("result %d differs", i))
				}
			}
		case "ndjson":
			if !strings.HasPrefix(ct, "application/x-ndjson") {
				bad("content-type", tc, ct)
			}
			sc := bufio.NewScanner(bytes.NewReader(body))
			sc.Buffer(make([]byte, 1<<20), 1<<22)
			i := 0
			for sc.Scan() {
				var pr model.ProviderResult
				if err := json.Unmarshal(sc.Bytes(), &pr); err != nil || i >= len(curResults) || !sameResult(pr, curResults[i]) {
					bad("ndjson-line", tc, fmt.Sprintf("line %d: %v %.200q", i, err, sc.Bytes()))
					return nil
				}
				i++
			}
			if i != len(curResults) || !bytes.HasSuffix(body, []byte("\n")) {
				bad("ndjson-line", tc, fmt.Sprintf("%d lines for %d results", i, len(curResults)))
			}
		}
		return nil
	})
	if err != nil {
		r.SetExtra("read_error", err.Error())
	}
	// the real client against the prefer-JSON handler: results in order; empty = not found = empty response
	cl, err := client.New(srvs[true].URL)
	if err == nil {
		for n := 0; n <= 3; n++ {
			for v := 0; v < 12; v++ {
				curResults = results(n, v)
				fr, err := cl.Find(context.Background(), theMh())
				clientFinds++
				switch {
				case err != nil:
					r.Diverge(rep.Divergence{Key: "client-error", Detail: fmt.Sprintf("%d results: %v", n, err)})
				case n == 0 && len(fr.MultihashResults) != 0:
					r.Diverge(rep.Divergence{Key: "client-empty", Detail: "empty result set not returned as an empty response"})
				case n == 0:
					// the empty response is the caller's: what the caller puts into it does not show in the next one
					fr.MultihashResults = append(fr.MultihashResults, model.MultihashResult{Multihash: theMh(), ProviderResults: results(2, v)})
				case n > 0 && (len(fr.MultihashResults) != 1 || len(fr.MultihashResults[0].ProviderResults) != n || !bytes.Equal(fr.MultihashResults[0].Multihash, theMh())):
					r.Diverge(rep.Divergence{Key: "client-results", Detail: fmt.Sprintf("%d results written, client got %+v", n, fr)})
				case n > 0:
					for i, pr := range fr.MultihashResults[0].ProviderResults {
						if !sameResult(pr, curResults[i]) {
							r.Diverge(rep.Divergence{Key: "client-results", Detail: fmt.Sprintf("result %d of %d differs or is out of order", i, n)})
						}
					}
				}
			}
		}
	}
	// a large result set (a response of about 2.5 MiB) through the real writer and the real client
	if cl != nil && si == 0 {
		curResults = nil
		for i := 0; i < 3000; i++ {
			pr := results(1, i)[0]
			pr.Metadata = append(bytes.Repeat([]byte{byte(i)}, 509), byte(i>>8), byte(i), 0x7f)
			curResults = append(curResults, pr)
		}
		want := curResults
		fr, err := cl.Find(context.Background(), theMh())
		clientFinds++
		switch {
		case err != nil:
			r.Diverge(rep.Divergence{Key: "client-error", Detail: fmt.Sprintf("3000 results with 512-byte metadata: %v", err)})
		case len(fr.MultihashResults) != 1 || len(fr.MultihashResults[0].ProviderResults) != len(want):
			r.Diverge(rep.Divergence{Key: "client-results", Detail: "3000 results written, the client got another number"})
		default:
			for i, pr := range fr.MultihashResults[0].ProviderResults {
				if !sameResult(pr, want[i]) {
					r.Diverge(rep.Divergence{Key: "client-results", Detail: fmt.Sprintf("result %d of 3000 differs or is out of order", i)})
					break
				}
			}
		}
	}
	// the real client against whatever a server answers (FindAPI.tla, Answers / ClientFind)
	if *clientCases != "" && si == 0 {
		var ans answer
		stub := netx.NewServer(http.HandlerFunc(func(w http.ResponseWriter, req *http.Request) {
			doc, _ := model.MarshalFindResponse(&model.FindResponse{MultihashResults: []model.MultihashResult{{Multihash: theMh(), ProviderResults: results(ans.N, 1)}}})
			if ans.N == 0 {
				doc, _ = model.MarshalFindResponse(&model.FindResponse{})
			}
			w.Header().Set("Content-Type", "application/json")
			switch ans.Body {
			case "doc":
				w.WriteHeader(ans.Status)
				w.Write(doc)
			case "cut-short": // the announced length is not delivered: the server closes the connection
				w.Header().Set("Content-Length", strconv.Itoa(len(doc)))
				w.WriteHeader(ans.Status)
				w.Write(doc[:len(doc)/2])
			case "cut-chunked": // a chunked response aborted part-way
				w.WriteHeader(ans.Status)
				w.Write(doc[:len(doc)/2])
				w.(http.Flusher).Flush()
				panic(http.ErrAbortHandler)
			case "empty":
				w.WriteHeader(ans.Status)
			case "garbage":
				w.WriteHeader(ans.Status)
				w.Write([]byte("<html>not json</html>"))
			case "empty-object":
				w.WriteHeader(ans.Status)
				w.Write([]byte("{}"))
			}
		}))
		stub.Config.ErrorLog = log.New(io.Discard, "", 0)
		scl, err := client.New(stub.URL)
		if err != nil {
			r.SetExtra("read_error", err.Error())
		} else {
			err = rep.ReadNDJSON(*clientCases, func(line []byte) error {
				cc := new(clientCase)
				if err := json.Unmarshal(line, cc); err != nil {
					return err
				}
				ans = cc.A
				r.Eval(cc.A.Body != "doc" || cc.A.Status != 200)
				fr, ferr := scl.Find(context.Background(), theMh())
				clientFinds++
				got := 0
				if ferr == nil && fr != nil {
					for _, mr := range fr.MultihashResults {
						got += len(mr.ProviderResults)
					}
				}
				switch {
				case (ferr != nil) != cc.Out.Err:
					k := "client-error-for-answer"
					if ferr == nil {
						k = "client-no-error-for-failed-answer"
					}
					r.Diverge(rep.Divergence{Key: k, Case: cc, Detail: fmt.Sprintf("client: %d results, error %v", got, ferr)})
				case ferr == nil && got != cc.Out.N:
					r.Diverge(rep.Divergence{Key: "client-results", Case: cc, Detail: fmt.Sprintf("client: %d results", got)})
				}
				return nil
			})
			if err != nil {
				r.SetExtra("read_error", err.Error())
			}
		}
		stub.Close()
	}
	// API errors keep status and message through encode / decode -- also an error that has only a status (what the writer returns
	// for an empty result set) and one wrapped by the caller
	for _, st := range []int{400, 404, 429, 500, 503} {
		bare := apierror.New(nil, st)
		d := apierror.DecodeError(apierror.EncodeError(bare))
		var ae *apierror.Error
		if !errors.As(d, &ae) || ae.Status() != st || d.Error() != bare.Error() || d.Error() == "" {
			r.Diverge(rep.Divergence{Key: "apierror-round-trip", Detail: fmt.Sprintf("status-only error %d (%q) came back as %q", st, bare.Error(), d)})
		}
		wrapped := fmt.Errorf("looking up providers: %w", apierror.New(errors.New("inner cause"), st))
		d = apierror.DecodeError(apierror.EncodeError(wrapped))
		if !errors.As(d, &ae) || ae.Status() != st || !strings.Contains(d.Error(), "looking up providers") || !strings.Contains(d.Error(), "inner cause") {
			r.Diverge(rep.Divergence{Key: "apierror-round-trip", Detail: fmt.Sprintf("wrapped error with status %d (%q) came back as %q", st, wrapped, d)})
		}
	}
	// the law in one line: DecodeError(EncodeError(e)) says what e says and has e's status -- for every way of making e
	for _, st := range []int{400, 404, 429, 500, 503} {
		for name, e := range map[string]error{
			"status only, wrapped by the caller":         fmt.Errorf("find providers: %w", apierror.New(nil, st)),
			"status only, wrapped twice":                 fmt.Errorf("outer: %w", fmt.Errorf("inner: %w", apierror.New(nil, st))),
			"an error whose message is the empty string": apierror.New(errors.New(""), st),
			"message and status, wrapped":                fmt.Errorf("find providers: %w", apierror.New(errors.New("no such thing"), st)),
			"a message that is only white space":         apierror.New(errors.New("  "), st),
		} {
			d := apierror.DecodeError(apierror.EncodeError(e))
			var ae *apierror.Error
			if d == nil || !errors.As(d, &ae) || ae.Status() != st || d.Error() != e.Error() {
				r.Diverge(rep.Divergence{Key: "apierror-round-trip", Detail: fmt.Sprintf("%s, status %d: %q came back as %q (%T)", name, st, e.Error(), d, d)})
			}
		}
	}
	for _, st := range []int{400, 404, 429, 500, 503} {
		for _, msg := range []string{"plain message", "with \"quotes\" and \n newline", "ünïcode"} {
			e := apierror.New(errors.New(msg), st)
			d := apierror.DecodeError(apierror.EncodeError(e))
			var ae *apierror.Error
			if !errors.As(d, &ae) || ae.Status() != st || !strings.Contains(d.Error(), msg) {
				r.Diverge(rep.Divergence{Key: "apierror-round-trip", Detail: fmt.Sprintf("status %d message %q came back as %v", st, msg, d)})
			}
			var fa *apierror.Error
			if fe := apierror.FromResponse(st, []byte(msg)); fe == nil || !errors.As(fe, &fa) || fa.Status() != st || !strings.Contains(fe.Error(), strings.TrimSpace(msg)) {
				r.Diverge(rep.Divergence{Key: "apierror-round-trip", Detail: fmt.Sprintf("FromResponse(%d) lost the message: %v", st, fe)})
			}
		}
	}
	_ = cur
	r.SetExtra("client_finds", clientFinds)
	return r
}
