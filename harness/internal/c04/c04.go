// Package c04 replays the behaviours of spec/SyncFaults.tla (C02 and C04): real chain, real publisher
// behind a fault-injecting proxy, real subscriber; one or two faulty syncs followed by a clean one.
package c04

import (
	"context"
	"encoding/json"
	"errors"
	"flag"
	"fmt"
	"net/http"
	"runtime"
	"strings"
	"sync"
	"sync/atomic"
	"time"

	"github.com/ipfs/go-cid"
	cidlink "github.com/ipld/go-ipld-prime/linking/cid"
	"github.com/ipni/go-libipni/dagsync"
	"github.com/ipni/go-libipni/ingest/schema"
	"github.com/libp2p/go-libp2p/core/peer"
	"github.com/multiformats/go-multiaddr"
	"github.com/multiformats/go-multihash"

	"verifharness/internal/chain"
	"verifharness/internal/gate"
	"verifharness/internal/lsys"
	"verifharness/internal/rep"
)

type fault struct {
	At   int    `json:"at"`
	Kind string `json:"kind"`
	K2   string `json:"k2"` // a second fault at request At+1 ("none": no)
}

type mevent struct {
	Cid   int  `json:"cid"`
	Err   bool `json:"err"`
	Count int  `json:"count"`
}

type msync struct {
	Result   string   `json:"result"`
	Reported []int    `json:"reported"`
	Stored   int      `json:"stored"`
	Latest   int      `json:"latest"`
	Events   []mevent `json:"events"`
	Probes   int      `json:"probes"`
}

type behaviour struct {
	Cfg struct {
		Mode    string  `json:"mode"`
		Pend    bool    `json:"pend"`
		Trigger string  `json:"trigger"`
		Seg     int     `json:"seg"`
		Addrs   int     `json:"addrs"`
		Depth   int     `json:"depth"` // the subscriber's AdsDepthLimit (0: none)
		Faults  []fault `json:"faults"`
	} `json:"cfg"`
	Syncs []msync `json:"syncs"`
}

var bodyKinds = map[string]bool{"bitflip": true, "truncated": true, "appended": true, "other": true, "empty": true, "oversized": true, "shortwrite": true}

// digest specifications for the chain's CIDs (C02: every multihash function and digest length)
var prefixes = []struct {
	name string
	p    cid.Prefix
}{
	{"sha2-256", schema.Linkproto.Prefix},
	{"sha2-256-trunc20", cid.Prefix{Version: 1, Codec: cid.DagJSON, MhType: multihash.SHA2_256, MhLength: 20}},
	{"sha2-256-trunc16", cid.Prefix{Version: 1, Codec: cid.DagJSON, MhType: multihash.SHA2_256, MhLength: 16}},
	{"sha2-512", cid.Prefix{Version: 1, Codec: cid.DagJSON, MhType: multihash.SHA2_512, MhLength: -1}},
	{"blake3", cid.Prefix{Version: 1, Codec: cid.DagJSON, MhType: multihash.BLAKE3, MhLength: 32}},
	// the identity "hash": the digest is the content itself, and must have exactly the content's length
	{"identity", cid.Prefix{Version: 1, Codec: cid.DagJSON, MhType: multihash.IDENTITY, MhLength: -1}},
}

type env struct {
	ch    *chain.Chain
	pub   *chain.Pub
	proxy *chain.Proxy
}

type observedSync struct {
	Result   string   `json:"result"`
	Reported []int    `json:"reported"`
	Stored   int      `json:"stored"`
	Latest   int      `json:"latest"`
	Events   []mevent `json:"events"`
	Err      string   `json:"err,omitempty"`
	Audit    []string `json:"audit,omitempty"`
	Paths    []string `json:"paths,omitempty"`
	Probes   int      `json:"probes,omitempty"`
}

const n = 3

// quietPeriod: how long a sync's notification stream is watched for an event too many once the expected ones have arrived
var quietPeriod = 120 * time.Millisecond

func num(ch *chain.Chain, c cid.Cid) int {
	if c == cid.Undef {
		return 0
	}
	if i, ok := ch.Index[c]; ok {
		return i
	}
	if c == ch.Off {
		return n + 1 // the model's Off: a CID the publisher does not have
	}
	return -1
}

// replay runs one behaviour; variant picks the concrete bit / length / block for body-class faults.
func replay(b *behaviour, e *env, variant int) (key, detail string, at int, obs []observedSync) {
	ch := e.ch
	e.pub.Reset(n)
	dst := lsys.NewStore()
	var mu sync.Mutex
	var reported []int
	failBlock, cancelBlock := 0, 0
	var cancelCur context.CancelFunc
	hook := func(_ peer.ID, bc cid.Cid, actions dagsync.SegmentSyncActions) {
		mu.Lock()
		reported = append(reported, num(ch, bc))
		fb := failBlock
		if cancelBlock != 0 && num(ch, bc) == cancelBlock && cancelCur != nil {
			cancelCur() // the hook cancels the caller's context
		}
		mu.Unlock()
		if variant%2 == 1 {
			// every other variant steers the segments with the library's own general block hook: the failure is an error
			// of its "previous advertisement" callback
			dagsync.MakeGeneralBlockHook(func(c cid.Cid) (cid.Cid, error) {
				if fb != 0 && num(ch, c) == fb {
					return cid.Undef, errors.New("injected hook failure")
				}
				return ch.Prev(c), nil
			})(peer.ID(""), bc, actions)
			return
		}
		if fb != 0 && num(ch, bc) == fb {
			actions.FailSync(errors.New("injected hook failure"))
			return
		}
		actions.SetNextSyncCid(ch.Prev(bc))
	}
	seg := int64(-1)
	if b.Cfg.Seg > 0 {
		seg = int64(b.Cfg.Seg)
	}
	opts := []dagsync.Option{dagsync.BlockHook(hook), dagsync.SegmentDepthLimit(seg), dagsync.HttpTimeout(400 * time.Millisecond)}
	if b.Cfg.Trigger == "announce" {
		opts = append(opts, dagsync.RecvAnnounce(""))
	}
	if b.Cfg.Depth > 0 {
		opts = append(opts, dagsync.AdsDepthLimit(int64(b.Cfg.Depth)))
	}
	sub, err := dagsync.NewSubscriber(nil, dst.LinkSystem(), opts...)
	if err != nil {
		return "infra", err.Error(), 0, nil
	}
	defer sub.Close()
	defer e.proxy.DropClients() // runs before sub.Close
	evCh, cancelEv := sub.OnSyncFinished()
	defer cancelEv()
	pi := peer.AddrInfo{ID: e.pub.ID, Addrs: []multiaddr.Multiaddr{e.proxy.Addr()}}
	if b.Cfg.Addrs == 2 {
		// second address: the publisher itself, without the fault-injecting proxy
		pi.Addrs = append(pi.Addrs, e.pub.Addrs[0])
	}
	e.proxy.Other = func(k int) []byte {
		x, _ := ch.Store.Get(ch.Cids[k])
		return x
	}
	var pendErr error
	for i := range b.Syncs {
		want := &b.Syncs[i]
		e.proxy.Reset()
		ctx, cancel := context.WithTimeout(context.Background(), 10*time.Second)
		mu.Lock()
		reported, failBlock, cancelBlock, cancelCur = nil, 0, 0, cancel
		mu.Unlock()
		var f *fault
		if i < len(b.Cfg.Faults) {
			f = &b.Cfg.Faults[i]
		}
		e.proxy.OnCancel = cancel
		e.proxy.Discovery = nil
		if f != nil && f.At == 0 {
			e.proxy.Discovery = &chain.Fault{Kind: f.Kind}
		}
		e.proxy.Plan = func(seq int, path string) *chain.Fault {
			if f == nil {
				return nil
			}
			if b.Cfg.Pend && seq == f.At {
				// while this request is being answered the publisher announces another head (one it does not have); the request
				// is answered once the announcement sits in the publisher's pending slot
				handed := make(chan struct{})
				offHanded.Store(&handed)
				pendErr = sub.Announce(context.Background(), ch.Off, pi)
				select {
				case <-handed:
				case <-time.After(5 * time.Second):
					if pendErr == nil {
						pendErr = errors.New("the second announcement was not handed to the publisher's handler within 5 s")
					}
				}
				offHanded.Store(nil)
			}
			kind := ""
			switch {
			case seq == f.At:
				kind = f.Kind
			case seq == f.At+1 && f.K2 != "" && f.K2 != "none":
				kind = f.K2
			default:
				return nil
			}
			if kind == "hookfail" || kind == "hookcancel" {
				// the hook of the block requested now will fail the sync / cancel the caller's context
				for k := 1; k <= n; k++ {
					if strings.HasSuffix(path, "/"+ch.Cids[k].String()) {
						mu.Lock()
						if kind == "hookfail" {
							failBlock = k
						} else {
							cancelBlock = k
						}
						mu.Unlock()
					}
				}
				return nil
			}
			arg := variant*7919 + f.At*31
			if kind == "other" {
				// another valid block of the chain (never the requested one), including the one the walker wants next
				req := 0
				for k := 1; k <= n; k++ {
					if strings.HasSuffix(path, ch.Cids[k].String()) {
						req = k
					}
				}
				if req == 0 {
					return nil // the head query has no "other block" class
				}
				arg = (req-1+1+variant%(n-1))%n + 1
			}
			return &chain.Fault{Kind: kind, Arg: arg}
		}
		pendErr = nil
		ob := observedSync{}
		if b.Cfg.Trigger == "explicit" {
			c, err := sub.SyncAdChain(ctx, pi)
			if err != nil {
				ob.Result, ob.Err = "error", err.Error()
			} else {
				ob.Result = "ok"
				if num(ch, c) != n {
					ob.Err = fmt.Sprintf("returned head %s", c)
				}
			}
		} else {
			if err := sub.Announce(ctx, ch.Cids[n], pi); err != nil {
				ob.Result, ob.Err = "error", "announce: "+err.Error()
			}
		}
		cancel()
		// notifications: an explicit sync has delivered its event before returning (to the distributor); an
		// announce-triggered sync reports through the event only.
		expectEvents := len(want.Events)
		deadline := time.After(6 * time.Second)
		quiet := quietPeriod
	collect:
		for {
			var to <-chan time.Time
			if len(ob.Events) >= expectEvents {
				to = time.After(quiet) // nothing more is expected: make sure nothing more arrives
			} else {
				to = deadline
			}
			select {
			case ev, ok := <-evCh:
				if !ok {
					break collect
				}
				ob.Events = append(ob.Events, mevent{Cid: num(ch, ev.Cid), Err: ev.Err != nil, Count: ev.Count})
				if b.Cfg.Trigger == "announce" && ev.Cid != ch.Off { // the sync's own notification (a second announcement has one of its own)
					if ev.Err != nil {
						ob.Result = "error"
						ob.Err = ev.Err.Error()
					} else {
						ob.Result = "ok"
					}
				}
			case <-to:
				break collect
			}
		}
		if b.Cfg.Trigger == "announce" && ob.Result == "" {
			ob.Result = want.Result // "dropped" / "nothing" are indistinguishable from outside: no event, nothing changes
			if want.Result != "dropped" && want.Result != "nothing" {
				ob.Result = "no-event"
			}
		}
		mu.Lock()
		ob.Reported = append([]int(nil), reported...)
		mu.Unlock()
		ob.Stored = dst.Len()
		ob.Audit = dst.Audit()
		if l := sub.GetLatestSync(e.pub.ID); l != nil {
			ob.Latest = num(ch, l.(cidlink.Link).Cid)
		}
		if pendErr != nil {
			return "infra", "second announcement: " + pendErr.Error(), i, obs
		}
		ob.Paths = e.proxy.Paths
		ob.Probes = e.proxy.ProbeCount()
		obs = append(obs, ob)
		// judge this sync
		switch {
		case len(ob.Audit) != 0:
			return "store-holds-unverified-block", fmt.Sprintf("sync %d: stored blocks that do not hash to their CID: %v", i+1, ob.Audit), i, obs
		case b.Cfg.Mode == "legacy" && ob.Probes != want.Probes:
			return "legacy-probe", fmt.Sprintf("sync %d: %d requests under the IPNI path (answered 404), model %d; path-less requests %v", i+1, ob.Probes, want.Probes, ob.Paths), i, obs
		case ob.Result == "ok" && want.Result == "error" && f != nil && f.Kind == "reset" && repeated(ob.Paths):
			// net/http transparently repeats an idempotent request whose connection broke: the fault never reached the library
			return "", "tolerated:transport-retried-request", i, obs
		case ob.Result != want.Result:
			k := "sync-result"
			if want.Result == "ok" && i == len(b.Syncs)-1 {
				k = "retry-fails-after-" + lastFault(b)
			}
			return k, fmt.Sprintf("sync %d: result %s (%s), model %s; request paths %v", i+1, ob.Result, ob.Err, want.Result, ob.Paths), i, obs
		case ob.Latest != want.Latest:
			return "latest-synced", fmt.Sprintf("sync %d: latest %d, model %d", i+1, ob.Latest, want.Latest), i, obs
		case !eqInts(ob.Reported, want.Reported):
			return "reported-blocks", fmt.Sprintf("sync %d: hook saw %v, model %v", i+1, ob.Reported, want.Reported), i, obs
		case ob.Stored != want.Stored:
			return "stored-blocks", fmt.Sprintf("sync %d: %d blocks stored, model %d", i+1, ob.Stored, want.Stored), i, obs
		case !eqEvents(ob.Events, want.Events):
			return "notification", fmt.Sprintf("sync %d: events %v, model %v", i+1, ob.Events, want.Events), i, obs
		}
	}
	return "", "", len(b.Syncs), obs
}

func repeated(paths []string) bool {
	seen := map[string]bool{}
	for _, p := range paths {
		if seen[p] {
			return true
		}
		seen[p] = true
	}
	return false
}

func lastFault(b *behaviour) string {
	if len(b.Cfg.Faults) == 0 {
		return "none"
	}
	return b.Cfg.Faults[len(b.Cfg.Faults)-1].Kind + "-" + b.Cfg.Mode
}

func eqInts(a, b []int) bool {
	if len(a) != len(b) {
		return false
	}
	for i := range a {
		if a[i] != b[i] {
			return false
		}
	}
	return true
}

func eqEvents(a, b []mevent) bool {
	if len(a) != len(b) {
		return false
	}
	for i := range a {
		if a[i].Cid != b[i].Cid || a[i].Err != b[i].Err || (!a[i].Err && a[i].Count != b[i].Count) {
			return false
		}
	}
	return true
}

// Run is "harness c04" (also used for C02 with -only-body).
// overlapRound: two publishers are synced through one Subscriber at the same time, and the sync of the first is held each time
// it is about to store a block until a fetch of the other has gone through -- whatever one fetch holds between receiving a body and
// storing it must be its own (C02: every block in the store hashes to the CID it is stored under, after any sequence of syncs).
// One processor for the round, so that the two goroutines share whatever per-processor caches the library keeps.
func overlapRound(r *rep.Report, rounds int) int {
	prev := runtime.GOMAXPROCS(1)
	defer runtime.GOMAXPROCS(prev)
	var pubs []*chain.Pub
	for i := 0; i < 2; i++ {
		ch, err := chain.Build("ads", 4, fmt.Sprintf("c02-overlap-%d", i))
		if err != nil {
			return 0
		}
		p, err := chain.NewPub(ch, fmt.Sprintf("c02-overlap-pub-%d", i), true)
		if err != nil {
			return 0
		}
		defer p.Close()
		pubs = append(pubs, p)
	}
	done := 0
	for n := 0; n < rounds; n++ {
		dst := lsys.NewStore()
		for _, p := range pubs {
			p.Reset(4)
		}
		var mu sync.Mutex
		other := make(chan struct{}, 64) // a token per block the second publisher has served
		pubs[1].Intercept = func(w http.ResponseWriter, req *http.Request, seq int) bool {
			select {
			case other <- struct{}{}:
			default:
			}
			return false
		}
		first := true
		holder := int64(0)
		dst.OnWriteOpen = func() {
			mu.Lock()
			if first {
				first, holder = false, gate.Goid()
			}
			mine := holder == gate.Goid()
			mu.Unlock()
			if mine { // the first sync to store something: let a fetch of the other publisher go through first
				select {
				case <-other:
				case <-time.After(20 * time.Millisecond):
				}
				runtime.Gosched()
			}
		}
		sub, err := dagsync.NewSubscriber(nil, dst.LinkSystem(), dagsync.HttpTimeout(2*time.Second))
		if err != nil {
			return done
		}
		var wg sync.WaitGroup
		for _, p := range pubs {
			wg.Add(1)
			go func(p *chain.Pub) {
				defer wg.Done()
				ctx, cancel := context.WithTimeout(context.Background(), 5*time.Second)
				defer cancel()
				sub.SyncAdChain(ctx, p.AddrInfo())
			}(p)
		}
		wg.Wait()
		sub.Close()
		pubs[1].Intercept = nil
		done++
		if bad := dst.Audit(); len(bad) != 0 {
			r.Diverge(rep.Divergence{Key: "store-holds-unverified-block", Detail: fmt.Sprintf("two publishers synced at the same time through one subscriber (round %d): stored blocks that do not hash to their CID: %v", n, bad)})
			break
		}
	}
	return done
}

// offHanded: closed by the library's hook when an announcement of a chain's Off CID has been put into its publisher's pending slot.
var offHanded atomic.Pointer[chan struct{}]

func Run(args []string) *rep.Report {
	dagsync.VerifYield = func(point string, _ peer.ID, c cid.Cid) {
		if point == "w.swap.first" || point == "w.swap.replaced" {
			if h := offHanded.Swap(nil); h != nil {
				close(*h)
			}
		}
	}
	fs := flag.NewFlagSet("c04", flag.ExitOnError)
	file := fs.String("behaviours", "", "ndjson behaviours exported by TLC")
	shard := fs.String("shard", "", "i/n (internal)")
	procs := fs.Int("procs", runtime.NumCPU(), "worker processes")
	variants := fs.Int("variants", 2, "concrete variants per behaviour with a body-class fault")
	allPrefixes := fs.Bool("all-digests", false, "run body-class behaviours with every multihash function / digest length")
	seed := fs.Int("seed", 1, "seed for variant choice")
	quietMs := fs.Int("quiet-ms", 120, "how long to watch for a notification too many after each sync")
	fs.Parse(args)
	if *shard == "" {
		return rep.RunSharded("c04", args, *procs)
	}
	si, sn := rep.ParseShard(*shard)
	quietPeriod = time.Duration(*quietMs) * time.Millisecond
	r := rep.New()
	envs := map[string]*env{}
	getEnv := func(pfx int, mode string) (*env, error) {
		k := fmt.Sprintf("%d/%s", pfx, mode)
		if e, ok := envs[k]; ok {
			return e, nil
		}
		ch, err := chain.BuildWith("ads", n, "c04-"+prefixes[pfx].name, prefixes[pfx].p)
		if err != nil {
			return nil, err
		}
		pub, err := chain.NewPub(ch, "c04-pub-"+k, mode != "libp2p")
		if err != nil {
			return nil, err
		}
		e := &env{ch: ch, pub: pub, proxy: chain.NewProxy(pub.Addrs[0])}
		e.proxy.Legacy = mode == "legacy"
		envs[k] = e
		return e, nil
	}
	defer func() {
		for _, e := range envs {
			e.proxy.Close()
			e.pub.Close()
		}
	}()
	idx := -1
	runs := 0
	err := rep.ReadNDJSON(*file, func(line []byte) error {
		idx++
		if idx%sn != si {
			return nil
		}
		if len(r.Divergences) >= 8 {
			// enough confirmed divergences in this shard: the verdict is settled, the remaining behaviours would only cost time
			r.AddExtra("skipped_after_divergences", 1)
			return nil
		}
		b := new(behaviour)
		if err := json.Unmarshal(line, b); err != nil {
			return err
		}
		body := false
		for _, f := range b.Cfg.Faults {
			if bodyKinds[f.Kind] {
				body = true
			}
		}
		nv, pf := 1, []int{0}
		if body {
			nv = *variants
			if *allPrefixes {
				pf = pf[:0]
				for i := range prefixes {
					pf = append(pf, i)
				}
			} else {
				pf = []int{(idx + *seed) % len(prefixes)}
			}
		}
		r.Eval(true)
		if idx%97 == 0 {
			r.Sample(b)
		}
		for _, p := range pf {
			e, err := getEnv(p, b.Cfg.Mode)
			if err != nil {
				return err
			}
			for v := 0; v < nv; v++ {
				variant := v + *seed*1000 + idx
				k, d, _, obs := replay(b, e, variant)
				runs++
				if k == "infra" {
					r.Inconclusive++
					continue
				}
				if k == "" && d != "" {
					r.AddExtra(d, 1)
				}
				if k != "" {
					// confirm before alarm
					if k2, _, _, _ := replay(b, e, variant); k2 != k {
						r.Inconclusive++
						continue
					}
					r.Diverge(rep.Divergence{Key: k, Case: b.Cfg, Expected: b.Syncs, Observed: obs,
						Detail: fmt.Sprintf("digest %s variant %d: %s", prefixes[p].name, variant, d)})
				}
			}
		}
		if idx%50 == 0 {
			http.DefaultTransport.(*http.Transport).CloseIdleConnections()
		}
		return nil
	})
	if err != nil {
		r.SetExtra("read_error", err.Error())
	}
	r.SetExtra("behaviour_runs", runs)
	if *allPrefixes && si < 4 { // C02: four shards each run overlapping syncs of two publishers
		r.AddExtra("overlapping_sync_rounds", overlapRound(r, 40))
	}
	return r
}
