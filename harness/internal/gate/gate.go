// Package gate is the cooperative scheduler over the library's yield hooks: every goroutine that
// reaches a hook parks until the driver releases it, so that exactly the goroutines the driver chose
// are running and the recorded event order IS the execution order (no wall-clock merging).
package gate

import (
	"encoding/json"
	"fmt"
	"io"
	"math/rand"
	"runtime"
	"sort"
	"strconv"
	"strings"
	"sync"
	"time"
)

// Event is one line of the trace validated by TLC.
type Event struct {
	Ev  string `json:"ev"`
	G   int    `json:"g"` // small goroutine number (order of first appearance), 0 = harness
	P   int    `json:"p"` // publisher number, 0 = none
	C   int    `json:"c"` // block / CID number, 0 = none
	N   int    `json:"n"` // count / listener number / misc
	Err bool   `json:"err,omitempty"`
	Q   []int  `json:"q,omitempty"`  // sequences (e.g. what a listener got, flattened)
	Op  string `json:"op,omitempty"` // operation of a call ("start" events)
	R   string `json:"r,omitempty"`  // result of a call ("ret" events)
}

type Arrival struct {
	Gid    int64
	Point  string
	P, C   int
	resume chan struct{}
}

type Sched struct {
	mu       sync.Mutex
	arrive   chan *Arrival
	Parked   map[int64]*Arrival
	running  map[int64]string // released (or started by the harness) and not yet parked / blocked / gone
	Blocked  map[int64]string // confirmed blocked in a primitive (value = what we know)
	gnum     map[int64]int
	Log      []Event
	Rng      *rand.Rand
	Watchdog time.Duration
	Hang     string
}

func New(seed int64) *Sched {
	return &Sched{arrive: make(chan *Arrival, 64), Parked: map[int64]*Arrival{}, running: map[int64]string{}, Blocked: map[int64]string{},
		gnum: map[int64]int{}, Rng: rand.New(rand.NewSource(seed)), Watchdog: 5 * time.Second}
}

func Goid() int64 {
	var buf [64]byte
	n := runtime.Stack(buf[:], false)
	f := strings.Fields(string(buf[:n]))
	id, _ := strconv.ParseInt(f[1], 10, 64)
	return id
}

// Yield is what the library's hook calls: report and park.
func (s *Sched) Yield(point string, p, c int) {
	a := &Arrival{Gid: Goid(), Point: point, P: p, C: c, resume: make(chan struct{})}
	s.arrive <- a
	<-a.resume
}

func (s *Sched) num(gid int64) int {
	if n, ok := s.gnum[gid]; ok {
		return n
	}
	n := len(s.gnum) + 1
	s.gnum[gid] = n
	return n
}

// Record appends a harness-side event (block hook call, API return, ...). Safe from any goroutine.
func (s *Sched) Record(e Event) {
	s.mu.Lock()
	s.Log = append(s.Log, e)
	s.mu.Unlock()
}

// RecordG is Record with the calling goroutine's number.
func (s *Sched) RecordG(e Event) {
	gid := Goid()
	s.mu.Lock()
	e.G = s.num(gid)
	s.Log = append(s.Log, e)
	s.mu.Unlock()
}

// Go starts f as a harness-owned goroutine that the scheduler tracks as running until it parks, blocks or returns.
func (s *Sched) Go(what string, f func()) {
	started := make(chan int64)
	registered := make(chan struct{})
	go func() {
		gid := Goid()
		started <- gid
		<-registered // not before the scheduler knows the goroutine: its first arrival must find it registered as running
		f()
		s.arrive <- &Arrival{Gid: gid, Point: "#done"}
	}()
	gid := <-started
	s.mu.Lock()
	s.running[gid] = what
	s.mu.Unlock()
	close(registered)
}

func (s *Sched) accept(a *Arrival) {
	s.mu.Lock()
	defer s.mu.Unlock()
	delete(s.running, a.Gid)
	delete(s.Blocked, a.Gid)
	if a.Point == "#done" {
		return
	}
	s.Parked[a.Gid] = a
	s.Log = append(s.Log, Event{Ev: a.Point, G: s.num(a.Gid), P: a.P, C: a.C})
}

// states returns goroutine id -> (state, stack) for the given ids.
func states(ids map[int64]bool) map[int64][2]string {
	buf := make([]byte, 1<<18)
	for {
		n := runtime.Stack(buf, true)
		if n < len(buf) {
			buf = buf[:n]
			break
		}
		buf = make([]byte, 2*len(buf))
	}
	out := map[int64][2]string{}
	for _, blk := range strings.Split(string(buf), "\n\n") {
		if !strings.HasPrefix(blk, "goroutine ") {
			continue
		}
		sp := strings.IndexByte(blk[10:], ' ')
		id, err := strconv.ParseInt(blk[10:10+sp], 10, 64)
		if err != nil || !ids[id] {
			continue
		}
		hdr := blk[:strings.IndexByte(blk, '\n')]
		st := hdr[strings.IndexByte(hdr, '[')+1:]
		if i := strings.IndexAny(st, ",]"); i >= 0 {
			st = st[:i]
		}
		out[id] = [2]string{st, blk}
	}
	return out
}

// stableBlocked: the goroutine waits in a synchronisation primitive that was called directly by library code
// (a mutex, a channel operation, a WaitGroup of go-libipni).  Waiting inside net/http, inside the harness's own
// locks or anywhere else resolves by itself and is not a blocked state the driver has to act on.
func stableBlocked(state, stack string) bool {
	switch state {
	case "chan receive", "chan send", "select", "sync.Mutex.Lock", "sync.WaitGroup.Wait", "semacquire", "sync.Cond.Wait", "sync.RWMutex.Lock", "sync.RWMutex.RLock":
	default:
		return false
	}
	for _, ln := range strings.Split(stack, "\n")[1:] {
		if ln == "" || ln[0] == '\t' {
			continue
		}
		if strings.HasPrefix(ln, "runtime.") || strings.HasPrefix(ln, "sync.") || strings.HasPrefix(ln, "internal/") || strings.HasPrefix(ln, "time.") {
			continue
		}
		if strings.HasPrefix(ln, "github.com/libp2p/go-libp2p-pubsub.(*Subscription).Next") {
			continue // the announce watcher waiting for the next pubsub message (called from go-libipni)
		}
		return strings.HasPrefix(ln, "github.com/ipni/go-libipni/")
	}
	return false
}

// BlockedIDs returns the goroutines confirmed blocked in a primitive of the library, with what is known of them.
func (s *Sched) BlockedIDs() map[int64]string {
	s.mu.Lock()
	defer s.mu.Unlock()
	out := map[int64]string{}
	for g, w := range s.Blocked {
		out[g] = w
	}
	return out
}

// Settle waits until every goroutine the driver set in motion is parked at a hook, has returned, or is
// confirmed blocked in a synchronisation primitive of the library; goroutines that were blocked before
// and have been woken are waited for as well.  Returns false on a hang (watchdog).
func (s *Sched) Settle() bool {
	deadline := time.Now().Add(s.Watchdog)
	idle := 0
	for {
		// drain arrivals
		for drained := false; !drained; {
			select {
			case a := <-s.arrive:
				s.accept(a)
				idle = 0
			default:
				drained = true
			}
		}
		s.mu.Lock()
		ids := map[int64]bool{}
		for g := range s.running {
			ids[g] = true
		}
		for g := range s.Blocked {
			ids[g] = true
		}
		s.mu.Unlock()
		st := states(ids)
		busy := false
		s.mu.Lock()
		for g := range s.running {
			x, ok := st[g]
			if !ok {
				delete(s.running, g) // the goroutine has ended
				continue
			}
			if stableBlocked(x[0], x[1]) {
				s.Blocked[g] = s.running[g]
				delete(s.running, g)
			} else {
				busy = true
			}
		}
		for g := range s.Blocked {
			x, ok := st[g]
			if !ok {
				delete(s.Blocked, g)
				continue
			}
			if !stableBlocked(x[0], x[1]) {
				busy = true // woken: on its way to a hook
			}
		}
		s.mu.Unlock()
		if !busy {
			idle++
			if idle >= 2 { // two consecutive quiet looks, in case an arrival was in flight
				return true
			}
			runtime.Gosched()
			continue
		}
		idle = 0
		if time.Now().After(deadline) {
			s.mu.Lock()
			var b strings.Builder
			for g, w := range s.running {
				fmt.Fprintf(&b, "running %d (%s): %s\n", g, w, st[g][1])
			}
			s.Hang = b.String()
			s.mu.Unlock()
			return false
		}
		time.Sleep(30 * time.Microsecond)
	}
}

// Stragglers counts goroutines that have one of the given frames on their stack and are neither parked at a hook
// nor blocked in a primitive of the library: goroutines still on their way to a hook.  The driver uses it to make
// sure a run is really over before it takes the final observations.
func (s *Sched) Stragglers(frames []string) int {
	moving, _, _ := s.Unfinished(frames)
	return moving
}

// Unfinished looks for goroutines that have one of the given frames on their stack and are not parked at a hook:
// moving = on their way to a hook, blocked = waiting in a primitive of the library (with their stacks).
func (s *Sched) Unfinished(frames []string) (moving, blocked int, stacks string) {
	buf := make([]byte, 1<<18)
	for {
		n := runtime.Stack(buf, true)
		if n < len(buf) {
			buf = buf[:n]
			break
		}
		buf = make([]byte, 2*len(buf))
	}
	s.mu.Lock()
	defer s.mu.Unlock()
	for _, blk := range strings.Split(string(buf), "\n\n") {
		if !strings.HasPrefix(blk, "goroutine ") {
			continue
		}
		has := false
		for _, f := range frames {
			has = has || strings.Contains(blk, f)
		}
		if !has {
			continue
		}
		sp := strings.IndexByte(blk[10:], ' ')
		id, err := strconv.ParseInt(blk[10:10+sp], 10, 64)
		if err != nil {
			continue
		}
		if _, parked := s.Parked[id]; parked {
			continue
		}
		hdr := blk[:strings.IndexByte(blk, '\n')]
		st := hdr[strings.IndexByte(hdr, '[')+1:]
		if i := strings.IndexAny(st, ",]"); i >= 0 {
			st = st[:i]
		}
		if stableBlocked(st, blk) {
			blocked++
			stacks += blk + "\n\n"
			continue
		}
		moving++
	}
	return
}

// ParkedIDs returns the parked goroutine ids in a deterministic order.
func (s *Sched) ParkedIDs() []int64 {
	s.mu.Lock()
	defer s.mu.Unlock()
	ids := make([]int64, 0, len(s.Parked))
	for g := range s.Parked {
		ids = append(ids, g)
	}
	sort.Slice(ids, func(i, j int) bool { return s.gnum[ids[i]] < s.gnum[ids[j]] })
	return ids
}

// ParkedAt returns the goroutine parked at the given hook point (0: none).
func (s *Sched) ParkedAt(point string) int64 {
	s.mu.Lock()
	defer s.mu.Unlock()
	for g, a := range s.Parked {
		if a.Point == point {
			return g
		}
	}
	return 0
}

// Release lets one parked goroutine continue.
func (s *Sched) Release(gid int64) {
	s.mu.Lock()
	a := s.Parked[gid]
	delete(s.Parked, gid)
	if a != nil {
		s.running[gid] = "after " + a.Point
	}
	s.mu.Unlock()
	if a != nil {
		close(a.resume)
	}
}

// ReleaseAll frees every parked goroutine and keeps accepting arrivals without parking them (teardown).
func (s *Sched) Drain(d time.Duration) {
	end := time.After(d)
	for {
		for _, g := range s.ParkedIDs() {
			s.Release(g)
		}
		select {
		case a := <-s.arrive:
			if a.Point != "#done" {
				close(a.resume)
			}
		case <-end:
			return
		case <-time.After(2 * time.Millisecond):
			if len(s.ParkedIDs()) == 0 {
				s.mu.Lock()
				n := len(s.running)
				s.mu.Unlock()
				if n == 0 {
					return
				}
			}
		}
	}
}

// WriteTrace writes the log as ndjson.
func (s *Sched) WriteTrace(w io.Writer) error {
	enc := json.NewEncoder(w)
	for _, e := range s.Log {
		if err := enc.Encode(e); err != nil {
			return err
		}
	}
	return nil
}
