// Package c10 concretises the token streams of spec/AnnounceMsg.tla to CBOR bytes and runs them through the real
// announce/message codec and the HTTP sender.
package c10

import (
	"bytes"
	"context"
	"encoding/json"
	"flag"
	"fmt"
	"io"
	"net/http"
	"net/url"
	"reflect"
	"runtime"
	"testing/iotest"
	"time"
	"verifharness/internal/netx"

	"github.com/ipfs/go-cid"
	"github.com/ipni/go-libipni/announce/httpsender"
	"github.com/ipni/go-libipni/announce/message"
	"github.com/ipni/go-libipni/announce/p2psender"
	pubsub "github.com/libp2p/go-libp2p-pubsub"
	"github.com/multiformats/go-multiaddr"
	"github.com/multiformats/go-multihash"
	"github.com/multiformats/go-varint"
	cbg "github.com/whyrusleeping/cbor-gen"

	"verifharness/internal/ids"
	"verifharness/internal/psenv"
	"verifharness/internal/rep"
)

type amsg struct {
	Addrs []string `json:"addrs"`
	Extra string   `json:"extra"`
	Orig  bool     `json:"orig"`
}

type tcase struct {
	M   amsg `json:"m"`
	Mut struct {
		K string `json:"k"`
		I int    `json:"i"`
	} `json:"mut"`
	Ok   bool `json:"ok"`
	Out  amsg `json:"out"`
	HTTP amsg `json:"http"`
}

var (
	okAddrs   = []multiaddr.Multiaddr{multiaddr.StringCast("/ip4/8.8.8.8/tcp/3103"), multiaddr.StringCast("/dns4/announce.example.com/tcp/443/https")}
	unkAddr   = append(varint.ToUvarint(7777777), 1, 2, 3) // an unregistered protocol code
	relayAddr = multiaddr.StringCast("/ip4/8.8.4.4/tcp/4001/p2p/" + ids.Peer("c10-relay").String() + "/p2p-circuit")
	origPeer  = ids.Peer("c10-orig").String()
)

func theCid(i int) cid.Cid {
	codecs := []uint64{cid.DagJSON, cid.DagCBOR, cid.Raw}
	fns := []uint64{multihash.SHA2_256, multihash.SHA2_512, multihash.BLAKE3}
	mh, _ := multihash.Sum([]byte(fmt.Sprintf("c10-%d", i)), fns[i%3], -1)
	return cid.NewCidV1(codecs[(i/3)%3], mh)
}

func addrBytes(class string, i int) []byte {
	switch class {
	case "ok":
		return okAddrs[i%2].Bytes()
	case "relay":
		return relayAddr.Bytes()
	case "unk":
		return unkAddr
	}
	return []byte{}
}

func extraBytes(class string) []byte {
	switch class {
	case "small":
		return []byte("extra")
	case "atcap":
		return bytes.Repeat([]byte{0xEE}, cbg.ByteArrayMaxLen)
	}
	return nil
}

func build(m amsg, i int) message.Message {
	msg := message.Message{Cid: theCid(i), ExtraData: extraBytes(m.Extra)}
	for k, a := range m.Addrs {
		msg.Addrs = append(msg.Addrs, addrBytes(a, k))
	}
	if m.Orig {
		msg.OrigPeer = origPeer
	}
	return msg
}

// project maps a real message back to the model's alphabet.
func project(msg *message.Message) amsg {
	out := amsg{Addrs: []string{}}
	for k, a := range msg.Addrs {
		switch {
		case len(a) == 0:
			out.Addrs = append(out.Addrs, "empty")
		case bytes.Equal(a, unkAddr):
			out.Addrs = append(out.Addrs, "unk")
		case bytes.Equal(a, relayAddr.Bytes()):
			out.Addrs = append(out.Addrs, "relay")
		case bytes.Equal(a, okAddrs[k%2].Bytes()):
			out.Addrs = append(out.Addrs, "ok")
		default:
			out.Addrs = append(out.Addrs, fmt.Sprintf("?%x", a))
		}
	}
	switch {
	case len(msg.ExtraData) == 0:
		out.Extra = "none"
	case bytes.Equal(msg.ExtraData, []byte("extra")):
		out.Extra = "small"
	case len(msg.ExtraData) == cbg.ByteArrayMaxLen:
		out.Extra = "atcap"
	default:
		out.Extra = "?"
	}
	out.Orig = msg.OrigPeer != ""
	if out.Orig && msg.OrigPeer != origPeer {
		out.Extra = "?orig"
	}
	return out
}

func same(a, b amsg) bool {
	if a.Extra != b.Extra || a.Orig != b.Orig || len(a.Addrs) != len(b.Addrs) {
		return false
	}
	for i := range a.Addrs {
		if a.Addrs[i] != b.Addrs[i] {
			return false
		}
	}
	return true
}

type tok struct {
	t string
	n int
	c string
	k int // address index
}

func tokens(m amsg) []tok {
	n := 3
	if m.Orig {
		n = 4
	}
	ts := []tok{{t: "arr", n: n}, {t: "cid"}, {t: "arr", n: len(m.Addrs)}}
	for k, a := range m.Addrs {
		ts = append(ts, tok{t: "bytes", c: a, k: k})
	}
	ts = append(ts, tok{t: "bytes", c: m.Extra})
	if m.Orig {
		ts = append(ts, tok{t: "text", c: "peer"})
	}
	return ts
}

func writeTok(w *bytes.Buffer, t tok, i int) {
	switch t.t {
	case "arr":
		cbg.WriteMajorTypeHeader(w, cbg.MajArray, uint64(t.n))
		if t.c == "full" { // every announced element is there: n empty byte strings
			w.Write(bytes.Repeat([]byte{0x40}, t.n))
		}
	case "cid":
		cbg.WriteCid(w, theCid(i))
	case "int":
		cbg.WriteMajorTypeHeader(w, cbg.MajUnsignedInt, 7)
	case "bytes":
		if t.c == "overcap" {
			cbg.WriteMajorTypeHeader(w, cbg.MajByteString, cbg.ByteArrayMaxLen+1)
			w.Write([]byte{1, 2, 3})
			return
		}
		var b []byte
		if t.c == "ok" || t.c == "unk" || t.c == "empty" || t.c == "relay" {
			b = addrBytes(t.c, t.k)
		} else {
			b = extraBytes(t.c)
		}
		cbg.WriteMajorTypeHeader(w, cbg.MajByteString, uint64(len(b)))
		w.Write(b)
	case "text":
		if t.c == "overcap" {
			cbg.WriteMajorTypeHeader(w, cbg.MajTextString, cbg.MaxLength+1)
			w.WriteString("xyz")
			return
		}
		cbg.WriteMajorTypeHeader(w, cbg.MajTextString, uint64(len(origPeer)))
		w.WriteString(origPeer)
	}
}

func mutate(ts []tok, k string, i int) []tok {
	out := append([]tok(nil), ts...)
	switch k {
	case "count":
		out[0] = tok{t: "arr", n: i}
	case "wrongtype":
		if out[i-1].t == "int" {
			out[i-1] = tok{t: "cid"}
		} else {
			out[i-1] = tok{t: "int"}
		}
	case "overcap":
		switch out[i-1].t {
		case "arr":
			out[i-1] = tok{t: "arr", n: cbg.MaxLength + 1}
		case "bytes":
			out[i-1] = tok{t: "bytes", c: "overcap"}
		case "text":
			out[i-1] = tok{t: "text", c: "overcap"}
		default:
			out[i-1] = tok{t: "int"}
		}
	case "hugecount":
		out[i-1] = tok{t: "arr", n: cbg.ByteArrayMaxLen}
	case "fullover":
		out[2] = tok{t: "arr", n: cbg.MaxLength + 1, c: "full"}
	case "fullat":
		out[2] = tok{t: "arr", n: cbg.MaxLength, c: "full"}
	case "truncate":
		out = out[:i-1]
	case "trailing":
		out = append(out, tok{t: "int"}, tok{t: "bytes", c: "small"})
	}
	return out
}

type decoded struct {
	ok    bool
	m     amsg
	msg   message.Message
	panic string
	alloc uint64
	err   string
}

func decode(b []byte) (d decoded) {
	defer func() {
		if e := recover(); e != nil {
			d.panic = fmt.Sprint(e)
		}
	}()
	var m0, m1 runtime.MemStats
	runtime.ReadMemStats(&m0)
	var msg message.Message
	err := msg.UnmarshalCBOR(bytes.NewReader(b))
	runtime.ReadMemStats(&m1)
	d.alloc = m1.TotalAlloc - m0.TotalAlloc
	if err != nil {
		d.err = err.Error()
		return
	}
	d.ok, d.msg, d.m = true, msg, project(&msg)
	return
}

// reused is decoded into again and again: decoding is a function of the bytes, whatever the Message held before.
var reused message.Message

func decodeReused(b []byte) (d decoded) {
	defer func() {
		if e := recover(); e != nil {
			d.panic = fmt.Sprint(e)
		}
	}()
	if err := reused.UnmarshalCBOR(bytes.NewReader(b)); err != nil {
		d.err = err.Error()
		reused = message.Message{Addrs: reused.Addrs} // keep the capacity the earlier messages left behind
		return
	}
	d.ok, d.msg, d.m = true, reused, project(&reused)
	return
}

func Run(args []string) *rep.Report {
	fs := flag.NewFlagSet("c10", flag.ExitOnError)
	file := fs.String("cases", "", "ndjson case table exported by TLC")
	fs.Parse(args)
	r := rep.New()
	runtime.GOMAXPROCS(2)
	// HTTP receiver for the sender clause
	var lastBody []byte
	var lastCT string
	srv := netx.NewServer(http.HandlerFunc(func(w http.ResponseWriter, req *http.Request) {
		lastBody, _ = io.ReadAll(req.Body)
		lastCT = req.Header.Get("Content-Type")
		w.WriteHeader(http.StatusNoContent)
	}))
	defer srv.Close()
	u, _ := url.Parse(srv.URL + "/announce")
	senderID := ids.Peer("c10-sender")
	snd, err := httpsender.New([]*url.URL{u}, senderID)
	if err != nil {
		r.SetExtra("read_error", err.Error())
		return r
	}
	// gossip sender: published on host 1's topic, read from a subscription on the connected host 2
	pe, perr := psenv.Get()
	var psnd *p2psender.Sender
	var psub interface {
		Next(context.Context) (*pubsub.Message, error)
	}
	if perr == nil {
		if psnd, perr = p2psender.New(nil, "", p2psender.WithTopic(pe.T1)); perr == nil {
			psub, perr = pe.T2.Subscribe()
			deadline := time.Now().Add(5 * time.Second)
			for perr == nil && len(pe.T1.ListPeers()) == 0 {
				if time.Now().After(deadline) {
					perr = fmt.Errorf("host 1 did not learn of host 2's subscription")
				}
				time.Sleep(2 * time.Millisecond)
			}
		}
	}
	if perr != nil {
		r.SetExtra("p2p_sender_unavailable", perr.Error())
	}
	p2pSent := 0
	idx, execs := 0, 0
	bad := func(key string, tc *tcase, detail string) {
		r.Diverge(rep.Divergence{Key: key, Case: tc, Detail: detail})
	}
	err = rep.ReadNDJSON(*file, func(line []byte) error {
		tc := new(tcase)
		if err := json.Unmarshal(line, tc); err != nil {
			return err
		}
		idx++
		r.Eval(tc.Mut.K != "none" || len(tc.M.Addrs) > 0)
		if idx%397 == 0 {
			r.Sample(tc)
		}
		var buf bytes.Buffer
		for _, t := range mutate(tokens(tc.M), tc.Mut.K, tc.Mut.I) {
			writeTok(&buf, t, idx)
		}
		input := buf.Bytes()
		d := decode(input)
		execs++
		if d.ok && len(input) < 64<<10 {
			// decoded from a bytes.Buffer whose storage the caller then refills: the message keeps what it decoded
			store := append([]byte(nil), input...)
			var held message.Message
			if err := held.UnmarshalCBOR(bytes.NewBuffer(store)); err == nil {
				for i := range store {
					store[i] = 0xEE
				}
				var re bytes.Buffer
				if err := held.MarshalCBOR(&re); err != nil || !reflect.DeepEqual(project(&held), d.m) {
					bad("decoded-aliases-input", tc, fmt.Sprintf("after the buffer it was decoded from was overwritten the message reads %+v, it was decoded as %+v (%v)", project(&held), d.m, err))
				}
			}
		}
		if len(input) < 64<<10 {
			if dr := decodeReused(input); dr.ok != d.ok || dr.panic != "" || (d.ok && !reflect.DeepEqual(dr.m, d.m)) {
				bad("decode-depends-on-earlier-message", tc, fmt.Sprintf("into a fresh Message: ok=%v %+v; into a Message that had been decoded into before: ok=%v %+v %s %s", d.ok, d.m, dr.ok, dr.m, dr.err, dr.panic))
			}
		}
		if len(input) < 64<<10 {
			// decoding is a function of the bytes, however the reader hands them out: one at a time, in halves, the last ones together with io.EOF
			for name, rd := range map[string]io.Reader{"one byte per Read": iotest.OneByteReader(bytes.NewReader(input)), "half of what is asked for per Read": iotest.HalfReader(bytes.NewReader(input)),
				"data together with EOF": iotest.DataErrReader(bytes.NewReader(input))} {
				var sm message.Message
				serr := func() (err error) {
					defer func() {
						if e := recover(); e != nil {
							err = fmt.Errorf("panic: %v", e)
						}
					}()
					return sm.UnmarshalCBOR(rd)
				}()
				if (serr == nil) != d.ok || (d.ok && !reflect.DeepEqual(project(&sm), d.m)) {
					bad("decode-depends-on-reader", tc, fmt.Sprintf("from a byte slice: ok=%v %+v %s; from a reader that delivers %s: %v %+v", d.ok, d.m, d.err, name, serr, project(&sm)))
					break
				}
			}
		}
		bound := uint64(3<<20 + 4*len(input))
		switch {
		case d.panic != "":
			bad("panic", tc, d.panic)
		case d.alloc > bound:
			bad("allocation-beyond-caps", tc, fmt.Sprintf("%d bytes allocated for %d bytes of input", d.alloc, len(input)))
		case d.ok != tc.Ok:
			if d.ok {
				bad("accepted:"+tc.Mut.K, tc, fmt.Sprintf("decoded %+v, model rejects", d.m))
			} else {
				bad("rejected:"+tc.Mut.K, tc, "error "+d.err+", model accepts")
			}
		case d.ok && !same(d.m, tc.Out):
			bad("decoded-message", tc, fmt.Sprintf("decoded %+v, model %+v", d.m, tc.Out))
		case d.ok:
			// a decoded message re-encodes to an equivalent message
			var re bytes.Buffer
			if err := d.msg.MarshalCBOR(&re); err != nil {
				bad("re-encode", tc, err.Error())
			} else if d2 := decode(re.Bytes()); !d2.ok || !same(d2.m, d.m) || d2.msg.Cid != d.msg.Cid {
				bad("re-encode", tc, "re-encoded message does not decode to the same message")
			}
		}
		if tc.Mut.K != "none" {
			return nil
		}
		// the well-formed encoding: library encoder produces the same bytes; every strict byte prefix is rejected
		msg := build(tc.M, idx)
		var enc bytes.Buffer
		if err := msg.MarshalCBOR(&enc); err != nil || !bytes.Equal(enc.Bytes(), input) {
			bad("encoder-bytes", tc, fmt.Sprintf("MarshalCBOR differs from the token encoding (%v)", err))
		}
		step := 1
		if len(input) > 4096 {
			step = len(input) / 512
		}
		for cut := 0; cut < len(input); cut += step {
			execs++
			if dd := decode(input[:cut]); dd.panic != "" {
				bad("panic", tc, fmt.Sprintf("prefix of %d bytes: %s", cut, dd.panic))
			} else if dd.ok {
				bad("accepted:byte-prefix", tc, fmt.Sprintf("strict prefix of %d of %d bytes decodes", cut, len(input)))
			} else if dd.alloc > bound {
				bad("allocation-beyond-caps", tc, fmt.Sprintf("prefix of %d bytes: %d bytes allocated", cut, dd.alloc))
			}
		}
		// JSON round trip
		jb, err := json.Marshal(&msg)
		var jm message.Message
		if err != nil || json.Unmarshal(jb, &jm) != nil || !same(project(&jm), tc.M) || jm.Cid != msg.Cid {
			bad("json-round-trip", tc, fmt.Sprintf("%v", err))
		}
		// gossip sender: the message a subscriber on another host receives decodes to the message that was sent
		if perr == nil && tc.M.Extra != "atcap" && len(input) < 512<<10 {
			// two announcements back to back through the same sender, read afterwards: each arrives once, as it was sent
			// (gossipsub validates concurrently, so they may arrive in either order)
			attempt := func(salt int) (lost int, problem string) {
				pair := []message.Message{build(tc.M, idx+salt), build(tc.M, idx+salt+100000)}
				for _, m := range pair {
					if err := psnd.Send(context.Background(), m); err != nil {
						return 0, "send: " + err.Error()
					}
				}
				arrived := map[string]int{}
				for k := 0; k < len(pair); k++ {
					ctx, cancel := context.WithTimeout(context.Background(), 2*time.Second)
					pm, err := psub.Next(ctx)
					cancel()
					execs++
					p2pSent++
					var got message.Message
					switch {
					case err != nil:
						lost++
					case got.UnmarshalCBOR(bytes.NewReader(pm.Data)) != nil:
						return lost, "the subscriber cannot decode what the gossip sender published"
					default:
						var sent *message.Message
						for n := range pair {
							if pair[n].Cid == got.Cid {
								sent = &pair[n]
							}
						}
						arrived[got.Cid.String()]++
						if sent == nil || !same(project(&got), tc.M) || got.OrigPeer != sent.OrigPeer || pm.GetFrom() != pe.H1.ID() {
							return lost, fmt.Sprintf("two announcements sent back to back: the subscriber decodes %+v (cid %s) from %s; sent %+v with cids %s and %s by %s",
								project(&got), got.Cid, pm.GetFrom(), tc.M, pair[0].Cid, pair[1].Cid, pe.H1.ID())
						}
					}
				}
				if lost == 0 && (arrived[pair[0].Cid.String()] != 1 || arrived[pair[1].Cid.String()] != 1) {
					return 0, fmt.Sprintf("two announcements sent back to back did not arrive once each: %v", arrived)
				}
				return lost, ""
			}
			lost, problem := attempt(0)
			if lost > 0 && problem == "" {
				// confirm before alarm: a message that does not arrive between two connected hosts on loopback
				if lost2, problem2 := attempt(500000); lost2 > 0 && problem2 == "" {
					problem = fmt.Sprintf("of two announcements sent back to back %d did not arrive at the subscriber (twice in a row)", lost2)
				} else {
					r.Inconclusive++
					r.SetExtra("p2p_sender_lost_once", 1)
					problem = problem2
				}
			}
			if problem != "" {
				bad("p2p-sender-wire", tc, problem)
			}
		}
		// HTTP sender, CBOR and JSON: what is put on the wire is what a receiver decodes
		if tc.M.Extra != "atcap" {
			hasEmpty := false
			for _, a := range tc.M.Addrs {
				if a == "empty" {
					hasEmpty = true
				}
			}
			for _, js := range []bool{false, true} {
				lastBody = nil
				var err error
				if js {
					err = snd.SendJson(context.Background(), build(tc.M, idx))
				} else {
					err = snd.Send(context.Background(), build(tc.M, idx))
				}
				execs++
				if err != nil {
					if !hasEmpty {
						bad("sender-error", tc, err.Error())
					}
					continue
				}
				var got message.Message
				if js {
					err = json.Unmarshal(lastBody, &got)
				} else {
					err = got.UnmarshalCBOR(bytes.NewReader(lastBody))
				}
				if err != nil {
					bad("sender-wire", tc, fmt.Sprintf("receiver cannot decode what the sender sent (%s): %v", lastCT, err))
					continue
				}
				addrs, err := got.GetAddrs()
				want := 0
				for _, a := range tc.HTTP.Addrs {
					if a == "ok" || a == "relay" {
						want++
					}
				}
				if len(tc.HTTP.Addrs) == 1 && tc.HTTP.Addrs[0] == "p2ponly" {
					// no decodable address left: the bare /p2p/<sender> address
					if err != nil || len(addrs) != 1 || addrs[0].String() != "/p2p/"+senderID.String() {
						bad("sender-wire", tc, fmt.Sprintf("receiver decodes addrs %v (err %v), model: the bare /p2p/<sender> address", addrs, err))
					}
					continue
				}
				okAll := err == nil && len(addrs) == want && got.Cid == theCid(idx) && (got.OrigPeer != "") == tc.M.Orig
				k := 0
				for i, a := range tc.M.Addrs {
					if (a != "ok" && a != "relay") || !okAll {
						continue
					}
					// every address on the wire ends with the publisher's ID, appended to the address that was given
					wantBase := okAddrs[i%2]
					if a == "relay" {
						wantBase = relayAddr
					}
					if addrs[k].String() != wantBase.String()+"/p2p/"+senderID.String() {
						okAll = false
					}
					k++
				}
				if !okAll {
					bad("sender-wire", tc, fmt.Sprintf("receiver decodes addrs %v (err %v), model: %d addresses each with /p2p/<sender>", addrs, err, want))
				}
			}
		}
		return nil
	})
	if err != nil {
		r.SetExtra("read_error", err.Error())
	}
	// consecutive sends through the one sender: what goes on the wire is a function of the message alone -- also when the
	// address lists of two messages are made of the same bytes, cut differently
	{
		whole := multiaddr.StringCast("/ip4/11.22.33.44/tcp/9999")
		p1, p2 := multiaddr.StringCast("/ip4/11.22.33.44"), multiaddr.StringCast("/tcp/9999")
		for round, list := range [][]multiaddr.Multiaddr{{whole}, {p1, p2}, {whole}, {p2, p1}, {p1, p2}} {
			m := message.Message{Cid: theCid(round)}
			m.SetAddrs(list)
			lastBody = nil
			if err := snd.Send(context.Background(), m); err != nil {
				r.Diverge(rep.Divergence{Key: "sender-error", Detail: fmt.Sprintf("consecutive sends, round %d: %v", round, err)})
				continue
			}
			execs++
			var got message.Message
			if err := got.UnmarshalCBOR(bytes.NewReader(lastBody)); err != nil {
				r.Diverge(rep.Divergence{Key: "sender-wire", Detail: fmt.Sprintf("consecutive sends, round %d: %v", round, err)})
				continue
			}
			addrs, _ := got.GetAddrs()
			var want []string
			for _, a := range list {
				want = append(want, a.String()+"/p2p/"+senderID.String())
			}
			var have []string
			for _, a := range addrs {
				have = append(have, a.String())
			}
			if fmt.Sprint(have) != fmt.Sprint(want) {
				r.Diverge(rep.Divergence{Key: "sender-wire", Detail: fmt.Sprintf("consecutive sends through one sender, round %d: addresses %v sent, %v on the wire", round, want, have)})
			}
		}
	}
	r.SetExtra("codec_executions", execs)
	r.SetExtra("p2p_sender_messages", p2pSent)
	return r
}
