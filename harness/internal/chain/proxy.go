package chain

import (
	"io"
	"net"
	"net/http"
	"net/http/httptest"
	"strings"
	"sync"
	"verifharness/internal/netx"

	"github.com/multiformats/go-multiaddr"
)

// Fault tells the proxy what to do with one request instead of forwarding it faithfully.
type Fault struct {
	Kind string // s400 s500 s403 s404 reset shortwrite stall cancel | body classes: bitflip truncated appended other empty oversized
	Arg  int    // bit index / truncation length / other block number, chosen by the harness
}

// Proxy stands between a subscriber and a real publisher server: it logs protocol requests, numbers
// them per sync and applies the fault the harness planned for that request index.
type Proxy struct {
	backend string // http://host:port of the real publisher server
	srv     *httptest.Server
	client  *http.Client

	mu    sync.Mutex
	seq   int
	Paths []string
	Plan  func(seq int, path string) *Fault
	// Legacy makes the proxy a publisher of the time before the IPNI path: requests under /ipni/ are answered 404 (and counted
	// in Probes, not in the request numbering), path-less requests are forwarded to the backend's IPNI path.
	Legacy bool
	Probes int
	// Discovery, when set, is what happens to the libp2p-HTTP discovery requests (/.well-known/libp2p/...) of this sync.
	Discovery *Fault
	// OnCancel is called for the "cancel" fault (the harness cancels the caller's context).
	OnCancel func()
	// Other returns the body of another valid block (for the "other" body class).
	Other func(n int) []byte
}

func NewProxy(backendAddr multiaddr.Multiaddr) *Proxy {
	hp, _ := backendAddr.ValueForProtocol(multiaddr.P_IP4)
	port, _ := backendAddr.ValueForProtocol(multiaddr.P_TCP)
	p := &Proxy{backend: "http://" + hp + ":" + port, client: &http.Client{}}
	p.srv = netx.NewServer(http.HandlerFunc(p.handle))
	return p
}

func (p *Proxy) Addr() multiaddr.Multiaddr { return HTTPAddr(p.srv.URL) }

// DropClients closes the connections clients hold to the proxy, from the proxy's side.  Called at the end of a run, before the
// subscriber closes its own idle connections: the side that closes first keeps the socket in TIME_WAIT, and on the client's
// side that is an ephemeral port -- thousands of runs in a row would leave no port for the next test server to listen on.
func (p *Proxy) DropClients() { p.srv.CloseClientConnections() }

// HTTPAddr turns the URL of a test server ("http://127.0.0.1:port") into the multiaddr of that endpoint.  When the IPv4 loopback
// has no port left to listen on (tens of thousands of sockets in TIME_WAIT after many runs in a row), httptest falls back on
// "[::1]:port"; the runs are not set up for that, so this is an infrastructure failure (the shard stops; the check exits 2).
func HTTPAddr(serverURL string) multiaddr.Multiaddr {
	host, port, err := net.SplitHostPort(strings.TrimPrefix(serverURL, "http://"))
	if err != nil || strings.Contains(host, ":") {
		panic("infrastructure: no IPv4 loopback port available for a test server (got " + serverURL + "); too many sockets in TIME_WAIT -- run fewer checks at once")
	}
	return multiaddr.StringCast("/ip4/" + host + "/tcp/" + port + "/http")
}

// Reset starts a new request numbering (a new sync).
func (p *Proxy) Reset() {
	p.mu.Lock()
	p.seq, p.Paths, p.Probes = 0, nil, 0
	p.mu.Unlock()
}

func (p *Proxy) Seq() int {
	p.mu.Lock()
	defer p.mu.Unlock()
	return p.seq
}

func (p *Proxy) Close() { p.srv.Close(); p.client.CloseIdleConnections() }

func abort(w http.ResponseWriter) {
	hj, ok := w.(http.Hijacker)
	if !ok {
		return
	}
	conn, _, err := hj.Hijack()
	if err != nil {
		return
	}
	if tc, ok := conn.(*net.TCPConn); ok {
		tc.SetLinger(0) // RST
	}
	conn.Close()
}

// closeQuietly ends the connection in the middle of a response with an orderly close (FIN) instead of a reset.
func closeQuietly(w http.ResponseWriter) {
	hj, ok := w.(http.Hijacker)
	if !ok {
		return
	}
	if conn, _, err := hj.Hijack(); err == nil {
		conn.Close()
	}
}

func (p *Proxy) handle(w http.ResponseWriter, r *http.Request) {
	protocol := !strings.Contains(r.URL.Path, ".well-known")
	if p.Legacy && protocol && strings.HasPrefix(r.URL.Path, "/ipni/") {
		p.mu.Lock()
		p.Probes++
		p.mu.Unlock()
		http.NotFound(w, r)
		return
	}
	var f *Fault
	if !protocol {
		p.mu.Lock()
		f = p.Discovery
		p.mu.Unlock()
	}
	if protocol {
		p.mu.Lock()
		p.seq++
		seq := p.seq
		p.Paths = append(p.Paths, r.URL.Path)
		plan := p.Plan
		p.mu.Unlock()
		if plan != nil {
			f = plan(seq, r.URL.Path)
		}
	}
	if f != nil {
		switch f.Kind {
		case "s400":
			http.Error(w, "injected", http.StatusBadRequest)
			return
		case "s500":
			http.Error(w, "injected", http.StatusInternalServerError)
			return
		case "s403":
			http.Error(w, "injected", http.StatusForbidden)
			return
		case "s404":
			http.Error(w, "injected", http.StatusNotFound)
			return
		case "reset":
			abort(w)
			return
		case "stall":
			<-r.Context().Done() // the client gives up at its own timeout
			return
		case "cancel":
			if p.OnCancel != nil {
				p.OnCancel()
			}
			<-r.Context().Done()
			return
		}
	}
	// forward
	fwd := r.URL.Path
	if p.Legacy && protocol {
		fwd = "/ipni/v1/ad" + fwd
	}
	req, err := http.NewRequestWithContext(r.Context(), r.Method, p.backend+fwd, nil)
	if err != nil {
		http.Error(w, err.Error(), http.StatusBadGateway)
		return
	}
	for k, v := range r.Header {
		req.Header[k] = v
	}
	resp, err := p.client.Do(req)
	if err != nil {
		http.Error(w, err.Error(), http.StatusBadGateway)
		return
	}
	body, _ := io.ReadAll(resp.Body)
	resp.Body.Close()
	if f != nil && resp.StatusCode == http.StatusOK {
		switch f.Kind {
		case "bitflip":
			if len(body) > 0 {
				i := f.Arg % (len(body) * 8)
				body = append([]byte(nil), body...)
				body[i/8] ^= 1 << (i % 8)
			}
		case "truncated":
			if len(body) > 0 {
				body = body[:f.Arg%len(body)]
			}
		case "appended":
			extra := 1
			if f.Arg%2 == 1 {
				extra = 64 << 10
			}
			body = append(append([]byte(nil), body...), make([]byte, extra)...)
		case "other":
			if p.Other != nil {
				body = p.Other(f.Arg)
			}
		case "empty":
			body = nil
		case "oversized":
			body = make([]byte, 4<<20)
		case "shortwrite":
			w.Header().Set("Content-Length", itoa(len(body)))
			w.WriteHeader(http.StatusOK)
			w.Write(body[:len(body)/2])
			if fl, ok := w.(http.Flusher); ok {
				fl.Flush()
			}
			if f.Arg%2 == 1 {
				closeQuietly(w) // orderly close: the client reads an unexpected EOF
			} else {
				abort(w) // reset
			}
			return
		}
	}
	for k, v := range resp.Header {
		if k != "Content-Length" {
			w.Header()[k] = v
		}
	}
	w.WriteHeader(resp.StatusCode)
	w.Write(body)
}

func itoa(n int) string {
	if n == 0 {
		return "0"
	}
	var b []byte
	for n > 0 {
		b = append([]byte{byte('0' + n%10)}, b...)
		n /= 10
	}
	return string(b)
}

// ProbeCount: requests under the IPNI path a legacy proxy has answered 404 since the last Reset.
func (p *Proxy) ProbeCount() int {
	p.mu.Lock()
	defer p.mu.Unlock()
	return p.Probes
}
