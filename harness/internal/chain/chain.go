// Package chain builds real advertisement / entry-chunk chains, publishers that log what they serve,
// and subscribers configured from a model configuration (shared by C01, C02, C04, C08, C14, C15).
package chain

import (
	"bytes"
	"fmt"
	"io"
	"net/http"
	"net/http/httptest"
	"strings"
	"sync"
	"verifharness/internal/netx"

	"github.com/ipfs/go-cid"
	"github.com/ipld/go-ipld-prime"
	"github.com/ipld/go-ipld-prime/codec/dagjson"
	cidlink "github.com/ipld/go-ipld-prime/linking/cid"
	"github.com/ipni/go-libipni/dagsync/ipnisync"
	"github.com/ipni/go-libipni/ingest/schema"
	"github.com/libp2p/go-libp2p"
	"github.com/libp2p/go-libp2p/core/crypto"
	"github.com/libp2p/go-libp2p/core/host"
	"github.com/libp2p/go-libp2p/core/peer"
	"github.com/multiformats/go-multiaddr"
	"github.com/multiformats/go-multihash"

	"verifharness/internal/ids"
	"verifharness/internal/lsys"
)

// Chain is blocks 1..N, block i linking to block i-1.
type Chain struct {
	Kind  string    // "ads" | "entries"
	Cids  []cid.Cid // index 1..N (0 unused)
	Index map[cid.Cid]int
	Store *lsys.Store // holds every block
	Off   cid.Cid     // a CID that is not on the chain
}

// Build creates a chain of n blocks of the given kind; tag makes the contents (hence CIDs) distinct per publisher.
func Build(kind string, n int, tag string) (*Chain, error) {
	return BuildWith(kind, n, tag, schema.Linkproto.Prefix)
}

// BuildWith is Build with the multihash function / digest length of the blocks' CIDs chosen by the caller.
func BuildWith(kind string, n int, tag string, prefix cid.Prefix) (*Chain, error) {
	ch := &Chain{Kind: kind, Cids: make([]cid.Cid, n+1), Index: map[cid.Cid]int{}, Store: lsys.NewStore()}
	var prev ipld.Link
	for i := 1; i <= n; i++ {
		var node ipld.Node
		var err error
		if kind == "ads" {
			ad := schema.Advertisement{
				PreviousID: prev,
				Provider:   ids.Peer("chain-" + tag).String(),
				Addresses:  []string{"/ip4/8.8.8.8/tcp/3000"},
				Entries:    schema.NoEntries,
				ContextID:  []byte(fmt.Sprintf("%s-ctx-%d", tag, i)),
				Metadata:   []byte("md"),
				Signature:  []byte("unsigned"),
			}
			node, err = ad.ToNode()
		} else {
			mh, _ := multihash.Sum([]byte(fmt.Sprintf("%s-entry-%d", tag, i)), multihash.SHA2_256, -1)
			ec := schema.EntryChunk{Entries: []multihash.Multihash{mh}, Next: prev}
			node, err = ec.ToNode()
		}
		if err != nil {
			return nil, err
		}
		var buf bytes.Buffer
		if err = dagjson.Encode(node, &buf); err != nil {
			return nil, err
		}
		c, err := prefix.Sum(buf.Bytes())
		if err != nil {
			return nil, err
		}
		ch.Store.Put(c, buf.Bytes())
		ch.Cids[i] = c
		ch.Index[c] = i
		prev = cidlink.Link{Cid: c}
	}
	mh, _ := multihash.Sum([]byte("off-chain-"+tag), multihash.SHA2_256, -1)
	ch.Off = cid.NewCidV1(cid.DagJSON, mh)
	return ch, nil
}

// Cid maps a model block number (0 = none, 99 = off-chain) to a CID.
func (ch *Chain) Cid(i int) cid.Cid {
	switch {
	case i == 0:
		return cid.Undef
	case i == 99:
		return ch.Off
	}
	return ch.Cids[i]
}

// Prev returns the CID block c links to (cid.Undef for block 1 or unknown blocks).
func (ch *Chain) Prev(c cid.Cid) cid.Cid {
	i, ok := ch.Index[c]
	if !ok || i <= 1 {
		return cid.Undef
	}
	return ch.Cids[i-1]
}

// Pub is a real ipnisync.Publisher over a chain that logs every request it serves.
type Pub struct {
	Chain *Chain
	Key   crypto.PrivKey
	ID    peer.ID
	Pub   *ipnisync.Publisher
	Addrs []multiaddr.Multiaddr
	Plain bool      // reached in plain-HTTP mode (own http server) rather than libp2p-HTTP discovery
	Host  host.Host // libp2p stream host of the publisher (stream transport only)

	mu     sync.Mutex
	served []int    // model block numbers served, in order
	paths  []string // request paths (plain mode only)
	srv    *httptest.Server
	// Intercept, when set, may take over a request (fault injection); return true if it wrote the response.
	Intercept func(w http.ResponseWriter, r *http.Request, seq int) bool
	reqSeq    int
}

// NewPub starts a publisher for the chain. plain=true mounts the publisher in the harness's own HTTP server.
func NewPub(ch *Chain, name string, plain bool) (*Pub, error) {
	p := &Pub{Chain: ch, Key: ids.Key(name), ID: ids.Peer(name), Plain: plain}
	ls := ch.Store.LinkSystem()
	inner := ls.StorageReadOpener
	ls.StorageReadOpener = func(lc ipld.LinkContext, l ipld.Link) (io.Reader, error) {
		r, err := inner(lc, l)
		if err == nil {
			p.mu.Lock()
			p.served = append(p.served, ch.Index[l.(cidlink.Link).Cid])
			p.mu.Unlock()
		}
		return r, err
	}
	var err error
	if plain {
		p.Pub, err = ipnisync.NewPublisher(ls, p.Key, ipnisync.WithStartServer(false))
		if err != nil {
			return nil, err
		}
		p.srv = netx.NewServer(http.HandlerFunc(func(w http.ResponseWriter, r *http.Request) {
			p.mu.Lock()
			p.paths = append(p.paths, r.URL.Path)
			p.reqSeq++
			seq := p.reqSeq
			ic := p.Intercept
			p.mu.Unlock()
			if strings.Contains(r.URL.Path, ".well-known") {
				http.NotFound(w, r)
				return
			}
			if ic != nil && ic(w, r, seq) {
				return
			}
			p.Pub.ServeHTTP(w, r)
		}))
		p.Addrs = []multiaddr.Multiaddr{HTTPAddr(p.srv.URL)}
		return p, nil
	}
	p.Pub, err = netx.Retry(func() (*ipnisync.Publisher, error) {
		return ipnisync.NewPublisher(ls, p.Key, ipnisync.WithHTTPListenAddrs("http://127.0.0.1:0"))
	})
	if err != nil {
		return nil, err
	}
	p.Addrs = p.Pub.Addrs()
	return p, nil
}

// NewPubStream starts a publisher that serves HTTP over libp2p streams only (no HTTP listener): syncs reach it through
// a libp2p host of their own.
func NewPubStream(ch *Chain, name string) (*Pub, error) {
	p := &Pub{Chain: ch, Key: ids.Key(name), ID: ids.Peer(name)}
	ls := ch.Store.LinkSystem()
	inner := ls.StorageReadOpener
	ls.StorageReadOpener = func(lc ipld.LinkContext, l ipld.Link) (io.Reader, error) {
		r, err := inner(lc, l)
		if err == nil {
			p.mu.Lock()
			p.served = append(p.served, ch.Index[l.(cidlink.Link).Cid])
			p.mu.Unlock()
		}
		return r, err
	}
	h, err := netx.Retry(func() (host.Host, error) {
		return libp2p.New(libp2p.Identity(p.Key), libp2p.ListenAddrStrings("/ip4/127.0.0.1/tcp/0"))
	})
	if err != nil {
		return nil, err
	}
	p.Host = h
	p.Pub, err = ipnisync.NewPublisher(ls, p.Key, ipnisync.WithStreamHost(h))
	if err != nil {
		h.Close()
		return nil, err
	}
	p.Addrs = h.Addrs()
	return p, nil
}

func (p *Pub) AddrInfo() peer.AddrInfo { return peer.AddrInfo{ID: p.ID, Addrs: p.Addrs} }

// Reset clears the logs and sets the root to block n (0 = no root).
func (p *Pub) Reset(n int) {
	p.mu.Lock()
	p.served, p.paths, p.reqSeq = nil, nil, 0
	p.mu.Unlock()
	if n > 0 {
		p.Pub.SetRoot(p.Chain.Cids[n])
	}
}

func (p *Pub) Served() []int {
	p.mu.Lock()
	defer p.mu.Unlock()
	return append([]int(nil), p.served...)
}

func (p *Pub) Paths() []string {
	p.mu.Lock()
	defer p.mu.Unlock()
	return append([]string(nil), p.paths...)
}

func (p *Pub) Close() {
	if p.srv != nil {
		p.srv.Close()
	}
	p.Pub.Close()
	if p.Host != nil {
		p.Host.Close()
	}
}
