// Package ingestapi binds spec/IngestAPI.tla to ingest/client: every row of the model's table is one real call of the
// client against a server that records what arrives and answers as the row says; every announcement of the second table
// travels client -> wire -> message decoder -> announce.Receiver.Direct -> Next.
package ingestapi

import (
	"bytes"
	"context"
	"encoding/json"
	"errors"
	"flag"
	"fmt"
	"io"
	"net/http"
	"net/http/httptest"
	"strings"
	"sync"
	"time"

	"github.com/ipfs/go-cid"
	"github.com/ipni/go-libipni/announce"
	"github.com/ipni/go-libipni/announce/message"
	"github.com/ipni/go-libipni/apierror"
	ingestclient "github.com/ipni/go-libipni/ingest/client"
	"github.com/libp2p/go-libp2p/core/peer"
	"github.com/multiformats/go-multiaddr"
	"github.com/multiformats/go-multihash"

	"verifharness/internal/ids"
	"verifharness/internal/netx"
	"verifharness/internal/rep"
)

type ccase struct {
	C struct {
		Op     string `json:"op"`
		Base   string `json:"base"`
		Status int    `json:"status"`
		Body   string `json:"body"`
	} `json:"c"`
	Wire struct {
		Method string `json:"method"`
		Path   string `json:"path"`
		Ctype  string `json:"ctype"`
	} `json:"wire"`
	Query string `json:"query"`
	Out   struct {
		New    string `json:"new"`
		Sent   bool   `json:"sent"`
		Result string `json:"result"`
		Status int    `json:"status"`
		Text   string `json:"text"`
	} `json:"out"`
}

type acase struct {
	P struct {
		ID      string `json:"id"`
		Addrs   int    `json:"addrs"`
		Private bool   `json:"private"`
	} `json:"p"`
	Filter bool `json:"filter"`
	Msg    struct {
		Sent   bool `json:"sent"`
		Naddrs int  `json:"naddrs"`
		Withid bool `json:"withid"`
	} `json:"msg"`
	Delivered string `json:"delivered"`
}

type seen struct {
	Method, Path, Query, Ctype string
	Body                       []byte
}

// server records every request and answers with the status and body set for the next one.
type server struct {
	mu     sync.Mutex
	got    []seen
	status int
	body   []byte
}

func (s *server) ServeHTTP(w http.ResponseWriter, r *http.Request) {
	b, _ := io.ReadAll(r.Body)
	s.mu.Lock()
	s.got = append(s.got, seen{r.Method, r.URL.Path, r.URL.RawQuery, r.Header.Get("Content-Type"), b})
	st, body := s.status, s.body
	s.mu.Unlock()
	w.WriteHeader(st)
	if st != http.StatusNoContent {
		w.Write(body)
	}
}

func (s *server) set(st int, body []byte) {
	s.mu.Lock()
	s.got, s.status, s.body = nil, st, body
	s.mu.Unlock()
}

func (s *server) take() []seen {
	s.mu.Lock()
	defer s.mu.Unlock()
	g := s.got
	s.got = nil
	return g
}

const theText = "the indexer says no"

func bodyFor(kind string, status int) []byte {
	switch kind {
	case "text":
		return []byte(theText)
	case "padded-text":
		return []byte("\n  " + theText + " \r\n")
	case "spaces":
		return []byte(" \n\t ")
	case "json-error":
		return apierror.EncodeError(apierror.New(errors.New(theText), status))
	}
	return nil
}

func baseURL(form, plain, tls string) string {
	host := strings.TrimPrefix(plain, "http://")
	switch form {
	case "plain":
		return plain
	case "slash":
		return plain + "/"
	case "path":
		return plain + "/some/prefix"
	case "path-slash":
		return plain + "/some/prefix/"
	case "query":
		return plain + "/?via=x02"
	case "path-query":
		return plain + "/some/prefix?via=x02"
	case "upper-scheme":
		return "HTTP://" + host
	case "https":
		return tls
	case "noscheme":
		return host
	case "otherscheme":
		return "ftp://" + host
	case "relative":
		return "/some/prefix"
	}
	return ""
}

func theMh() multihash.Multihash {
	mh, _ := multihash.Sum([]byte("x02 content"), multihash.SHA2_256, -1)
	return mh
}

func Run(args []string) *rep.Report {
	fs := flag.NewFlagSet("x02", flag.ExitOnError)
	file := fs.String("cases", "", "ndjson call table exported by TLC")
	annFile := fs.String("announce-cases", "", "ndjson table of announcements")
	fs.Parse(args)
	r := rep.New()

	srv := &server{}
	plain := netx.NewServer(srv)
	defer plain.Close()
	tlsSrv := &httptest.Server{Listener: netx.Listen(), Config: &http.Server{Handler: srv}}
	tlsSrv.StartTLS()
	defer tlsSrv.Close()

	key := ids.Key("x02-provider")
	pid := ids.Peer("x02-provider")
	root, _ := cid.Decode("bafkreifjjcie6lypi6ny7amxnfftagclbuxndqonfipmb64f2km2devei4")
	pubAddrs := []multiaddr.Multiaddr{multiaddr.StringCast("/ip4/8.8.8.8/tcp/3104"), multiaddr.StringCast("/dns4/provider.example.net/tcp/443/https"), multiaddr.StringCast("/ip4/9.9.9.9/udp/4001/quic-v1")}
	ctx := context.Background()

	err := rep.ReadNDJSON(*file, func(line []byte) error {
		tc := new(ccase)
		if err := json.Unmarshal(line, tc); err != nil {
			return err
		}
		r.Eval(tc.Out.Result != "none")
		bad := func(k, detail string) {
			r.Diverge(rep.Divergence{Key: k, Case: tc, Detail: detail})
		}
		var opts []ingestclient.Option
		if tc.C.Base == "https" {
			opts = append(opts, ingestclient.WithClient(tlsSrv.Client()))
		}
		srv.set(tc.C.Status, bodyFor(tc.C.Body, tc.C.Status))
		cl, err := ingestclient.New(baseURL(tc.C.Base, plain.URL, tlsSrv.URL), opts...)
		if (err == nil) != (tc.Out.New == "ok") {
			bad("new", fmt.Sprintf("New(%q): %v, model: %s", baseURL(tc.C.Base, plain.URL, tlsSrv.URL), err, tc.Out.New))
			return nil
		}
		if err != nil {
			if g := srv.take(); len(g) != 0 {
				bad("sent-after-refusal", fmt.Sprintf("%d requests", len(g)))
			}
			return nil
		}
		var cerr error
		switch tc.C.Op {
		case "Announce":
			cerr = cl.Announce(ctx, &peer.AddrInfo{ID: pid, Addrs: pubAddrs[:1]}, root)
		case "IndexContent":
			cerr = cl.IndexContent(ctx, pid, key, theMh(), []byte("x02-ctx"), []byte{0x80, 0x12}, []string{"/ip4/8.8.8.8/tcp/3104"})
		case "Register":
			cerr = cl.Register(ctx, pid, key, []string{"/ip4/8.8.8.8/tcp/3104"})
		}
		got := srv.take()
		if len(got) != 1 {
			bad("requests", fmt.Sprintf("%d requests on the wire for one call (error %v)", len(got), cerr))
			return nil
		}
		g := got[0]
		if g.Method != tc.Wire.Method || g.Path != tc.Wire.Path || g.Query != tc.Query || g.Ctype != tc.Wire.Ctype || len(g.Body) == 0 {
			bad("wire", fmt.Sprintf("%s %s ?%s (%s, %d bytes), model: %s %s ?%s (%s)", g.Method, g.Path, g.Query, g.Ctype, len(g.Body), tc.Wire.Method, tc.Wire.Path, tc.Query, tc.Wire.Ctype))
		}
		switch tc.Out.Result {
		case "ok":
			if cerr != nil {
				bad("result", fmt.Sprintf("error %v for status %d, model: success", cerr, tc.C.Status))
			}
		case "api-error":
			var ae *apierror.Error
			switch {
			case cerr == nil:
				bad("result", fmt.Sprintf("no error for status %d", tc.C.Status))
			case !errors.As(cerr, &ae):
				bad("result", fmt.Sprintf("error %v (%T) is no API error", cerr, cerr))
			case ae.Status() != tc.Out.Status:
				bad("error-status", fmt.Sprintf("status %d in the error, %d on the wire", ae.Status(), tc.C.Status))
			default:
				want := ""
				switch tc.Out.Text {
				case "the-text":
					want = theText
				case "status-line":
					want = fmt.Sprintf("%d %s", tc.C.Status, http.StatusText(tc.C.Status))
				case "the-json-as-it-is":
					want = string(bytes.TrimSpace(bodyFor("json-error", tc.C.Status)))
				}
				if ae.Error() != want {
					bad("error-text", fmt.Sprintf("%q, model: %q", ae.Error(), want))
				}
				// the error keeps status and text through encode / decode
				back := apierror.DecodeError(apierror.EncodeError(cerr))
				var be *apierror.Error
				if !errors.As(back, &be) || be.Status() != ae.Status() || be.Error() != ae.Error() {
					bad("error-roundtrip", fmt.Sprintf("%v (%d) became %v", ae, ae.Status(), back))
				}
			}
		}
		return nil
	})
	if err != nil {
		r.SetExtra("read_error", err.Error())
		return r
	}
	if *annFile != "" {
		if err := announcements(r, *annFile, plain.URL, srv, pid, root, pubAddrs); err != nil {
			r.SetExtra("read_error", err.Error())
		}
	}
	return r
}

func announcements(r *rep.Report, file, url string, srv *server, pid peer.ID, root cid.Cid, pubAddrs []multiaddr.Multiaddr) error {
	cl, err := ingestclient.New(url)
	if err != nil {
		return err
	}
	private := multiaddr.StringCast("/ip4/127.0.0.1/tcp/3104")
	n := 0
	return rep.ReadNDJSON(file, func(line []byte) error {
		ac := new(acase)
		if err := json.Unmarshal(line, ac); err != nil {
			return err
		}
		n++
		r.Eval(ac.P.Addrs > 0)
		bad := func(k, detail string) {
			r.Diverge(rep.Divergence{Key: k, Case: ac, Detail: detail})
		}
		var addrs []multiaddr.Multiaddr
		for i := 0; i < ac.P.Addrs; i++ {
			if ac.P.Private && i == ac.P.Addrs-1 {
				addrs = append(addrs, private)
			} else {
				addrs = append(addrs, pubAddrs[i])
			}
		}
		if ac.P.Addrs == 0 && n%2 == 0 {
			addrs = []multiaddr.Multiaddr{} // empty, not nil
		}
		prov := &peer.AddrInfo{Addrs: addrs}
		if ac.P.ID == "set" {
			prov.ID = pid
		}
		given := append([]multiaddr.Multiaddr(nil), addrs...)
		srv.set(http.StatusNoContent, nil)
		cerr := cl.Announce(context.Background(), prov, root)
		got := srv.take()
		if !ac.Msg.Sent {
			if cerr == nil || len(got) != 0 {
				bad("announce-without-id", fmt.Sprintf("error %v, %d requests", cerr, len(got)))
			}
			return nil
		}
		if cerr != nil || len(got) != 1 {
			bad("announce", fmt.Sprintf("error %v, %d requests", cerr, len(got)))
			return nil
		}
		if len(prov.Addrs) != len(given) {
			bad("argument-changed", fmt.Sprintf("%v", prov.Addrs))
		}
		for i := range given {
			if i < len(prov.Addrs) && !prov.Addrs[i].Equal(given[i]) {
				bad("argument-changed", fmt.Sprintf("%v", prov.Addrs))
			}
		}
		var msg message.Message
		if err := msg.UnmarshalCBOR(bytes.NewReader(got[0].Body)); err != nil {
			bad("message-decode", err.Error())
			return nil
		}
		maddrs, err := msg.GetAddrs()
		if err != nil {
			bad("message-addrs", err.Error())
			return nil
		}
		if msg.Cid != root || len(maddrs) != ac.Msg.Naddrs || len(msg.ExtraData) != 0 || msg.OrigPeer != "" {
			bad("message", fmt.Sprintf("cid %s, %d addresses %v, extra %x, orig %q; model: %d addresses", msg.Cid, len(maddrs), maddrs, msg.ExtraData, msg.OrigPeer, ac.Msg.Naddrs))
			return nil
		}
		infos, err := peer.AddrInfosFromP2pAddrs(maddrs...)
		if err != nil || len(infos) != 1 || infos[0].ID != pid {
			bad("message-id", fmt.Sprintf("%v %v", infos, err))
			return nil
		}
		// on to a receiver
		rcv, err := announce.NewReceiver(nil, "", announce.WithFilterIPs(ac.Filter))
		if err != nil {
			return err
		}
		defer rcv.Close()
		dctx, cancel := context.WithTimeout(context.Background(), 20*time.Second)
		defer cancel()
		derr := make(chan error, 1)
		go func() { derr <- rcv.Direct(dctx, msg.Cid, infos[0]) }()
		amsg, nerr := rcv.Next(dctx)
		if e := <-derr; e != nil || nerr != nil {
			bad("receiver", fmt.Sprintf("Direct: %v, Next: %v", e, nerr))
			return nil
		}
		want := given
		if ac.Delivered == "without-the-private-address" {
			want = given[:len(given)-1]
		}
		ok := amsg.Cid == root && amsg.PeerID == pid && len(amsg.Addrs) == len(want)
		for i := range want {
			ok = ok && i < len(amsg.Addrs) && amsg.Addrs[i].Equal(want[i])
		}
		if !ok {
			bad("delivered", fmt.Sprintf("cid %s peer %s addrs %v; announced: %s %s %v (%s)", amsg.Cid, amsg.PeerID, amsg.Addrs, root, pid, want, ac.Delivered))
		}
		return nil
	})
}
