// Package psenv provides a pair of connected libp2p hosts on one gossipsub topic (loopback only): H1 carries the
// code under test (and a probe subscription of the harness, which keeps H1 subscribed), H2 is the remote peer.
package psenv

import (
	"context"
	"errors"
	"sync"
	"time"
	"verifharness/internal/netx"

	"github.com/libp2p/go-libp2p"
	pubsub "github.com/libp2p/go-libp2p-pubsub"
	"github.com/libp2p/go-libp2p/core/host"
	"github.com/libp2p/go-libp2p/core/peer"
)

type Env struct {
	H1, H2 host.Host
	T1, T2 *pubsub.Topic
	Probe  *pubsub.Subscription // on T1
	cancel context.CancelFunc
}

var (
	once sync.Once
	inst *Env
	ierr error
)

// Get returns the process-wide environment, creating it on first use.
func Get() (*Env, error) {
	once.Do(func() {
		e := &Env{}
		var ctx context.Context
		ctx, e.cancel = context.WithCancel(context.Background())
		mk := func() (host.Host, *pubsub.Topic, error) {
			h, err := netx.Retry(func() (host.Host, error) { return libp2p.New(libp2p.ListenAddrStrings("/ip4/127.0.0.1/tcp/0")) })
			if err != nil {
				return nil, nil, err
			}
			ps, err := pubsub.NewGossipSub(ctx, h)
			if err != nil {
				return nil, nil, err
			}
			t, err := ps.Join("/verif/pubsub")
			return h, t, err
		}
		if e.H1, e.T1, ierr = mk(); ierr != nil {
			return
		}
		if e.H2, e.T2, ierr = mk(); ierr != nil {
			return
		}
		if e.Probe, ierr = e.T1.Subscribe(); ierr != nil {
			return
		}
		if ierr = e.H2.Connect(ctx, peer.AddrInfo{ID: e.H1.ID(), Addrs: e.H1.Addrs()}); ierr != nil {
			return
		}
		deadline := time.Now().Add(5 * time.Second)
		for len(e.T2.ListPeers()) == 0 { // H2 has learned that H1 is subscribed
			if time.Now().After(deadline) {
				ierr = errors.New("gossipsub peers did not learn of each other's subscription")
				return
			}
			time.Sleep(2 * time.Millisecond)
		}
		inst = e
	})
	return inst, ierr
}
