// Package psenv provides connected libp2p hosts on one gossipsub topic (loopback only): H1 carries the code under test (and
// a probe subscription of the harness, which keeps H1 subscribed), H2 is the remote peer, and H3 -- connected to H2 only --
// is a publisher whose messages reach H1 over two hops (H2 forwards them): their author and the peer they arrive from differ.
// H3 is nil when the two-hop path could not be established in time (the callers then publish from H2 only).
package psenv

import (
	"context"
	"errors"
	"sync"
	"time"
	"verifharness/internal/netx"

	"github.com/libp2p/go-libp2p"
	pubsub "github.com/libp2p/go-libp2p-pubsub"
	"github.com/libp2p/go-libp2p/core/host"
	"github.com/libp2p/go-libp2p/core/peer"
)

type Env struct {
	H1, H2, H3 host.Host
	T1, T2, T3 *pubsub.Topic
	Probe  *pubsub.Subscription // on T1
	cancel context.CancelFunc
}

var (
	once sync.Once
	inst *Env
	ierr error
)

// Get returns the process-wide environment, creating it on first use.
func Get() (*Env, error) {
	once.Do(func() {
		e := &Env{}
		var ctx context.Context
		ctx, e.cancel = context.WithCancel(context.Background())
		mk := func() (host.Host, *pubsub.Topic, error) {
			h, err := netx.Retry(func() (host.Host, error) { return libp2p.New(libp2p.ListenAddrStrings("/ip4/127.0.0.1/tcp/0")) })
			if err != nil {
				return nil, nil, err
			}
			ps, err := pubsub.NewGossipSub(ctx, h)
			if err != nil {
				return nil, nil, err
			}
			t, err := ps.Join("/verif/pubsub")
			return h, t, err
		}
		if e.H1, e.T1, ierr = mk(); ierr != nil {
			return
		}
		if e.H2, e.T2, ierr = mk(); ierr != nil {
			return
		}
		if e.Probe, ierr = e.T1.Subscribe(); ierr != nil {
			return
		}
		if ierr = e.H2.Connect(ctx, peer.AddrInfo{ID: e.H1.ID(), Addrs: e.H1.Addrs()}); ierr != nil {
			return
		}
		deadline := time.Now().Add(5 * time.Second)
		for len(e.T2.ListPeers()) == 0 { // H2 has learned that H1 is subscribed
			if time.Now().After(deadline) {
				ierr = errors.New("gossipsub peers did not learn of each other's subscription")
				return
			}
			time.Sleep(2 * time.Millisecond)
		}
		// the second hop: H2 subscribes (only subscribers forward), H3 knows H2 alone
		if sub2, err := e.T2.Subscribe(); err == nil {
			go func() {
				for {
					if _, err := sub2.Next(ctx); err != nil {
						return
					}
				}
			}()
			if h3, t3, err := mk(); err == nil {
				if h3.Connect(ctx, peer.AddrInfo{ID: e.H2.ID(), Addrs: e.H2.Addrs()}) == nil {
					// a test message from H3 must come out of H1's probe subscription, forwarded by H2
					ok := false
					for try := 0; try < 40 && !ok; try++ {
						if len(t3.ListPeers()) > 0 && t3.Publish(ctx, []byte("psenv-two-hop-test")) == nil {
							pctx, pc := context.WithTimeout(ctx, 150*time.Millisecond)
							for {
								m, err := e.Probe.Next(pctx)
								if err != nil {
									break
								}
								if string(m.Data) == "psenv-two-hop-test" && m.ReceivedFrom == e.H2.ID() && m.GetFrom() == h3.ID() {
									ok = true
									break
								}
							}
							pc()
						} else {
							time.Sleep(50 * time.Millisecond)
						}
					}
					// drain the remaining test messages
					for {
						pctx, pc := context.WithTimeout(ctx, 200*time.Millisecond)
						_, err := e.Probe.Next(pctx)
						pc()
						if err != nil {
							break
						}
					}
					if ok {
						e.H3, e.T3 = h3, t3
					} else {
						h3.Close()
					}
				} else {
					h3.Close()
				}
			}
		}
		inst = e
	})
	return inst, ierr
}
