package pc

import (
	"context"
	"encoding/json"
	"flag"
	"fmt"
	"os"
	"runtime"
	"strings"
	"sync"
	"sync/atomic"
	"time"

	"github.com/ipni/go-libipni/find/model"
	"github.com/ipni/go-libipni/pcache"

	"verifharness/internal/ids"
	"verifharness/internal/rep"
)

// event is one line of the trace validated by spec/SnapshotReadsTrace.tla.
type event struct {
	Ev  string `json:"ev"`
	N   int    `json:"n,omitempty"`
	Vis []int  `json:"vis,omitempty"`
	R   int    `json:"r,omitempty"`
	Obs []int  `json:"obs,omitempty"`
	P   int    `json:"p,omitempty"`
	Val int    `json:"val"`
	Lo  int64  `json:"lo"`
	Hi  int64  `json:"hi"`
}

// gate is installed as pcache.VerifYield while reader goroutines run: it makes a second snapshot load
// inside one API call (a torn read) coincide with a publication, and gives readers a window right
// before every Store.  In code that loads the pointer once per call it only delays each Store a little.
type gate struct {
	readers      sync.Map // goroutine id -> *reader
	stores       atomic.Int64
	atSecondLoad atomic.Int32
	napHint      atomic.Int32 // set by the driver when the behaviour goes on with two refreshes: the slow reader naps on its next load
}

func (g *gate) yield(point string) {
	switch point {
	case "store":
		deadline := time.Now().Add(150 * time.Microsecond)
		for g.atSecondLoad.Load() == 0 && time.Now().Before(deadline) {
			runtime.Gosched()
		}
		g.stores.Add(1)
	case "loaded":
		// the slow reader: every now and then it sits on the snapshot it has just loaded for a while -- a plain sleep, nothing that
		// would order it with the writer -- and reads on afterwards; memory reachable from a published snapshot is never written
		// again, so whatever the writer did meanwhile must not touch what this reader goes on to read
		if v, ok := g.readers.Load(goid()); ok {
			if rd := v.(*reader); rd.slow {
				rd.naps++
				// when to nap is a hint the driver gave BEFORE the writer's next steps (two refreshes are about to follow): that
				// orders the reader after what came before the hint only
				if g.napHint.CompareAndSwap(1, 0) || rd.naps%64 == 0 {
					time.Sleep(6 * time.Millisecond)
				}
			}
		}
	case "load":
		v, ok := g.readers.Load(goid())
		if !ok {
			return
		}
		rd := v.(*reader)
		rd.loads++
		if rd.loads >= 2 {
			g.atSecondLoad.Add(1)
			s0 := g.stores.Load()
			deadline := time.Now().Add(5 * time.Millisecond)
			for g.stores.Load() == s0 && time.Now().Before(deadline) {
				runtime.Gosched()
			}
			g.atSecondLoad.Add(-1)
			time.Sleep(50 * time.Microsecond) // let the Store that was announced land
			rd.tornLoads++
		}
	}
}

type reader struct {
	loads     int
	tornLoads int
	id        int
	events    []event
	beat      atomic.Int64
	blocked   string
	bad       string
	gentle    bool
	slow      bool // sits on loaded snapshots (see gate.yield "loaded")
	naps      int
}

func sameInts(a, b []int) bool {
	if len(a) != len(b) {
		return false
	}
	for i := range a {
		if a[i] != b[i] {
			return false
		}
	}
	return true
}

// runReader hammers the read API until stop is closed. present[i] tells whether provider i has an entry
// in the snapshot (then Get / GetResults cannot miss; only used in histories without TTL expiry).
func (rd *reader) run(d *Driver, present []atomic.Bool, stop chan struct{}, wg *sync.WaitGroup) {
	defer wg.Done()
	if d.gate != nil {
		d.gate.readers.Store(goid(), rd)
	}
	ctx := context.Background()
	var lastList *event
	held := make([]heldRecord, len(d.cfg.Provs))
	lastGet := make([]*event, len(d.cfg.Provs))
	for iter := 0; ; iter++ {
		select {
		case <-stop:
			return
		default:
		}
		rd.beat.Add(1)
		lo := d.PubIdx.Load()
		rd.loads = 0
		l := d.pc.List()
		hi := d.PubIdx.Load()
		rd.loads = 0
		if n := d.pc.Len(); n < 0 || n > 2*len(d.cfg.Provs) { // Len is a read as well: it must not wait for a writer either
			rd.bad = fmt.Sprintf("Len() = %d with %d providers", n, len(d.cfg.Provs))
		}
		obs := make([]int, len(d.cfg.Provs))
		for _, pi := range l {
			for i, p := range d.cfg.Provs {
				if pi != nil && pi.AddrInfo.ID == ids.Peer(p) {
					obs[i] = versionOf(pi)
				}
			}
		}
		if lastList == nil || !sameInts(lastList.Obs, obs) || lastList.Lo != lo || lastList.Hi != hi {
			rd.events = append(rd.events, event{Ev: "list", R: rd.id, Obs: obs, Lo: lo, Hi: hi})
			lastList = &rd.events[len(rd.events)-1]
		}
		for i, p := range d.cfg.Provs {
			if !present[i].Load() {
				continue
			}
			lo := d.PubIdx.Load()
			rd.loads = 0
			var pi *model.ProviderInfo
			var err error
			var viaResults bool
			if iter%2 == 0 {
				pi, err = d.pc.Get(ctx, ids.Peer(p))
				// a record handed out is a value of a completed update: it stays what it was, whatever is fetched later
				if h := held[i]; h.p != nil && (h.p.Lag != h.lag || h.p.LastAdvertisementTime != h.t) {
					rd.bad = fmt.Sprintf("a record of %s handed out earlier was changed in place (lag %d -> %d, time %s -> %s)", p, h.lag, h.p.Lag, h.t, h.p.LastAdvertisementTime)
				}
				if err == nil && pi != nil {
					held[i] = heldRecord{pi, pi.Lag, pi.LastAdvertisementTime}
				}
			} else {
				viaResults = true
				var res []model.ProviderResult
				res, err = d.pc.GetResults(ctx, ids.Peer(p), []byte("ctx"), []byte{1})
				if err == nil && len(res) > 0 {
					if res[0].Provider == nil || res[0].Provider.ID != ids.Peer(p) || len(res[0].Provider.Addrs) != 1 {
						rd.bad = "GetResults returned a foreign or malformed first result"
					} else {
						// record() encodes the version in the second-to-last octet of the address
						var a, b, c, e, port int
						fmt.Sscanf(res[0].Provider.Addrs[0].String(), "/ip4/%d.%d.%d.%d/tcp/%d", &a, &b, &c, &e, &port)
						pi = &model.ProviderInfo{LastAdvertisementTime: baseTime.Add(time.Duration(c) * time.Hour).Format(time.RFC3339)}
					}
				}
			}
			hi := d.PubIdx.Load()
			if err != nil {
				rd.bad = "read returned error: " + err.Error()
				continue
			}
			_ = viaResults
			v := versionOf(pi)
			if lg := lastGet[i]; lg == nil || lg.Val != v || lg.Lo != lo || lg.Hi != hi {
				rd.events = append(rd.events, event{Ev: "get", R: rd.id, P: i + 1, Val: v, Lo: lo, Hi: hi})
				lastGet[i] = &rd.events[len(rd.events)-1]
			}
		}
		if rd.gentle {
			time.Sleep(30 * time.Microsecond) // timed behaviours: leave the CPUs to the clock
		} else if iter%8 == 7 {
			runtime.Gosched()
		}
	}
}

type heldRecord struct {
	p   *model.ProviderInfo
	lag int
	t   string
}

// RunReaders is "harness c07": replay behaviours with concurrent reader goroutines and write the
// read trace for TLC.
func RunReaders(args []string) *rep.Report {
	fs := flag.NewFlagSet("c07", flag.ExitOnError)
	cfg, srcs, provs, unitMs := flags(fs)
	file := fs.String("behaviours", "", "ndjson behaviours exported by TLC")
	out := fs.String("trace-out", "", "ndjson trace file prefix (one file per shard)")
	shard := fs.String("shard", "", "i/n (internal)")
	procs := fs.Int("procs", runtime.NumCPU()/2, "worker processes")
	nReaders := fs.Int("readers", 2, "reader goroutines per behaviour")
	every := fs.Int("every", 1, "replay every n-th behaviour")
	fs.Parse(args)
	if *shard == "" {
		return rep.RunSharded("c07", args, *procs)
	}
	si, sn := rep.ParseShard(*shard)
	cfg.Srcs, cfg.Provs = strings.Split(*srcs, ","), strings.Split(*provs, ",")
	cfg.Unit = time.Duration(*unitMs) * time.Millisecond
	cfg.Watchdog = 8 * time.Second
	r := rep.New()
	tf, err := os.Create(fmt.Sprintf("%s.%d", *out, si))
	if err != nil {
		r.SetExtra("read_error", err.Error())
		return r
	}
	defer tf.Close()
	enc := json.NewEncoder(tf)
	idx := -1
	reads, concurrentReads, torn := 0, 0, 0
	err = rep.ReadNDJSON(*file, func(line []byte) error {
		idx++
		if idx%*every != 0 || (idx / *every)%sn != si {
			return nil
		}
		if len(r.Divergences) >= 6 {
			r.AddExtra("skipped_after_divergences", 1) // the verdict is settled; the remaining behaviours would only cost watchdog time
			return nil
		}
		var b behaviour
		if err := json.Unmarshal(line, &b); err != nil {
			return fmt.Errorf("line %d: %w", idx, err)
		}
		hasTick, pubs := false, 0
		for _, s := range b.Steps {
			if s.A == "Tick" {
				hasTick = true
			}
			if s.A == "RefreshPublish" || s.A == "MissPublish" {
				pubs++
			}
		}
		if pubs == 0 {
			return nil
		}
		bcfg := *cfg
		bcfg.HTTP = idx%3 == 1 // a third of the behaviours: the library's HTTP provider sources in front of harness servers
		for _, st := range b.Steps {
			bcfg.Auto = bcfg.Auto || st.Au != 0
		}
		if !hasTick {
			bcfg.TTLUnits = 1 << 20 // the model clock never advances in this behaviour: nothing may expire
		}
		d, err := NewDriver(bcfg)
		if err != nil {
			return err
		}
		d.gate = &gate{}
		pcache.VerifYield = d.gate.yield
		present := make([]atomic.Bool, len(cfg.Provs))
		stop := make(chan struct{})
		var wg sync.WaitGroup
		rds := make([]*reader, *nReaders)
		for i := range rds {
			rds[i] = &reader{id: i + 1, gentle: hasTick, slow: i == len(rds)-1 && len(rds) > 1}
			wg.Add(1)
			go rds[i].run(d, present, stop, &wg)
		}
		slack := cfg.Unit / 2
		writerParkedReads := int64(0)
		for i := range b.Steps {
			st := &b.Steps[i]
			before := rds[0].beat.Load()
			if !d.Apply(i, st) {
				break
			}
			if d.wr != nil {
				// The writer is parked inside a source (it holds the writer lock): readers must keep completing reads.
				deadline := time.Now().Add(cfg.Watchdog)
				for rds[0].beat.Load() < before+2 && time.Now().Before(deadline) {
					time.Sleep(20 * time.Microsecond)
				}
				if rds[0].beat.Load() < before+2 {
					d.Div, d.Detail = "blocked-read", fmt.Sprintf("reader made no progress for %v while the writer was parked in a source after step %d (%s)", cfg.Watchdog, i, st.A)
					break
				}
				writerParkedReads += rds[0].beat.Load() - before
			}
			if st.A == "RefreshPublish" || st.A == "MissPublish" {
				// two refreshes ahead? then the slow reader should sit on the snapshot it loads next
				ahead := 0
				for _, nx := range b.Steps[i+1:] {
					if nx.A == "RefreshPublish" {
						ahead++
					}
				}
				if ahead >= 2 {
					d.gate.napHint.Store(1)
					time.Sleep(150 * time.Microsecond) // long enough for the reader to load and settle down
				}
			}
			if !hasTick && (st.A == "RefreshPublish" || st.A == "MissPublish") {
				for k, v := range st.Vis {
					if v != -1 {
						present[k].Store(true)
					}
				}
			}
			if hasTick && d.Drift() > slack {
				d.Inconclusive = "timing"
				break
			}
		}
		// let the readers observe the final snapshot, then stop them
		target := rds[0].beat.Load() + 2
		deadline := time.Now().Add(cfg.Watchdog)
		for rds[0].beat.Load() < target && time.Now().Before(deadline) {
			time.Sleep(20 * time.Microsecond)
		}
		close(stop)
		done := make(chan struct{})
		go func() { wg.Wait(); close(done) }()
		select {
		case <-done:
		case <-time.After(cfg.Watchdog):
			buf := make([]byte, 1<<18)
			n := runtime.Stack(buf, true)
			d.Div, d.Detail = "blocked-read", "a reader goroutine did not finish its read within the watchdog\n"+string(buf[:n])
		}
		d.Abort()
		pcache.VerifYield = nil
		for _, rd := range rds {
			torn += rd.tornLoads
		}
		r.Eval(writerParkedReads > 0)
		concurrentReads += int(writerParkedReads)
		switch {
		case d.Div != "":
			r.Diverge(rep.Divergence{Key: d.Div, Case: b, Detail: fmt.Sprintf("step %d: %s", d.At, d.Detail)})
			return nil
		case d.Inconclusive != "":
			r.Inconclusive++
			return nil
		case d.Tolerated != "":
			return nil
		}
		for _, rd := range rds {
			if rd.bad != "" {
				r.Diverge(rep.Divergence{Key: "read-error", Case: b, Detail: rd.bad})
				return nil
			}
		}
		// trace: reset, publications (as verified step by step against List()), then each reader's events
		enc.Encode(event{Ev: "reset", N: len(cfg.Provs)})
		for _, s := range d.Snapshots[1:] {
			enc.Encode(event{Ev: "pub", Vis: s})
		}
		for _, rd := range rds {
			for _, e := range rd.events {
				enc.Encode(e)
				reads++
			}
		}
		if idx%499 == 0 {
			r.Sample(map[string]interface{}{"steps": b.Steps, "reader1_events": rds[0].events})
		}
		return nil
	})
	if err != nil {
		r.SetExtra("read_error", err.Error())
	}
	r.SetExtra("read_events_logged", reads)
	r.SetExtra("second_loads_within_one_call", torn)
	r.SetExtra("reads_completed_while_writer_parked", concurrentReads)
	return r
}
