// Package pc replays behaviours of spec/ProviderCache.tla on a real pcache.ProviderCache
// (bindings R and T for C06 / C07).  The provider sources are harness-owned gates: every
// FetchAll / Fetch call parks until the driver releases it, so "the refresh is inside source 2"
// is a state the driver can hold open while readers run.
package pc

import (
	"context"
	"encoding/json"
	"errors"
	"fmt"
	"net/http"
	"net/http/httptest"
	"runtime"
	"strconv"
	"strings"
	"sync"
	"sync/atomic"
	"time"
	"verifharness/internal/netx"

	"github.com/ipni/go-libipni/apierror"
	"github.com/ipni/go-libipni/find/model"
	"github.com/ipni/go-libipni/pcache"
	"github.com/libp2p/go-libp2p/core/peer"
	"github.com/multiformats/go-multiaddr"

	"verifharness/internal/ids"
)

var baseTime = time.Date(2024, 1, 1, 0, 0, 0, 0, time.UTC)

var recordSeq atomic.Int64

// NoTimeMode: how the oldest version (1) of a record is rendered in the behaviour being replayed -- 0: with its advertisement
// time like the others, 1: without one, 2: with an unparsable one (such a record is older than any dated one, newer than nothing).
var NoTimeMode int

// record builds the concrete provider record for (provider, source, version).
func record(p string, src int, ver int) *model.ProviderInfo {
	pi := &model.ProviderInfo{
		AddrInfo: peer.AddrInfo{ID: ids.Peer(p), Addrs: []multiaddr.Multiaddr{
			multiaddr.StringCast(fmt.Sprintf("/ip4/9.%d.%d.1/tcp/%d", src, ver, 2000+ver))}},
		LastAdvertisementTime: baseTime.Add(time.Duration(ver) * time.Hour).Format(time.RFC3339),
		// status fields that change from one fetch to the next without a new advertisement: a record the cache already holds
		// (same advertisement time) is not replaced -- and not touched -- by such a fetch
		Lag: int(recordSeq.Add(1)),
	}
	if ver == 1 && NoTimeMode == 1 {
		pi.LastAdvertisementTime = ""
	} else if ver == 1 && NoTimeMode == 2 {
		pi.LastAdvertisementTime = "some time ago"
	}
	return pi
}

// versionOf projects a record returned by the cache back to the model's version.
func versionOf(pi *model.ProviderInfo) int {
	if pi == nil {
		return 0
	}
	t, err := time.Parse(time.RFC3339, pi.LastAdvertisementTime)
	if err != nil {
		// an undated record: the version is also in the third octet of its address
		var a, b, c, e, port int
		if len(pi.AddrInfo.Addrs) == 1 {
			if n, _ := fmt.Sscanf(pi.AddrInfo.Addrs[0].String(), "/ip4/%d.%d.%d.%d/tcp/%d", &a, &b, &c, &e, &port); n == 5 && c == 1 {
				return 1
			}
		}
		return -99
	}
	return int(t.Sub(baseTime) / time.Hour)
}

type reply struct {
	infos []*model.ProviderInfo
	info  *model.ProviderInfo
	err   error
	then  func() // run by the source when it has its answer, just before it returns it (a caller giving up at that very moment)
}

// LateCancel: in the behaviour being replayed the caller's context is cancelled at the moment the last source of a refresh has
// answered -- from then on a refresh runs to its publication whatever the context says (ProviderCache.tla, RefreshCancel).
var LateCancel bool

type call struct {
	src   int // 1-based index
	all   bool
	pid   peer.ID
	ctx   context.Context
	reply chan reply
	gid   int64 // goroutine that made the call
}

type sim struct {
	arrive   chan *call
	fetchAll []int64
	fetch    []int64
}

type source struct {
	sim *sim
	idx int
	// via, when set, is the library's own HTTP provider source pointed at a server of the harness: the gate decides when and
	// what, the answer then travels through the real source (request, status handling, JSON decoding)
	via  pcache.ProviderSource
	srv  *httptest.Server
	mu   sync.Mutex
	next reply
}

func (s *source) FetchAll(ctx context.Context) ([]*model.ProviderInfo, error) {
	atomic.AddInt64(&s.sim.fetchAll[s.idx-1], 1)
	c := &call{src: s.idx, all: true, ctx: ctx, reply: make(chan reply, 1), gid: goid()}
	s.sim.arrive <- c
	r := <-c.reply
	if s.via == nil || errors.Is(r.err, context.Canceled) {
		if r.then != nil {
			r.then()
		}
		return r.infos, r.err
	}
	s.mu.Lock()
	s.next = r
	s.mu.Unlock()
	infos, err := s.via.FetchAll(ctx)
	if r.then != nil {
		r.then()
	}
	return infos, err
}

func (s *source) Fetch(ctx context.Context, pid peer.ID) (*model.ProviderInfo, error) {
	atomic.AddInt64(&s.sim.fetch[s.idx-1], 1)
	c := &call{src: s.idx, pid: pid, ctx: ctx, reply: make(chan reply, 1), gid: goid()}
	s.sim.arrive <- c
	r := <-c.reply
	if s.via == nil || errors.Is(r.err, context.Canceled) {
		return r.info, r.err
	}
	s.mu.Lock()
	s.next = r
	s.mu.Unlock()
	return s.via.Fetch(ctx, pid)
}

// serveHTTP starts the server behind an HTTP-backed source: it answers with what the gate released.
// One test server per source index for the whole process (and one HTTP client with keep-alive for all the library's sources):
// a server per behaviour would go through tens of thousands of listening sockets and connections in a thorough run, and
// leave no loopback port free.  The server answers for whichever source is registered for its index at the moment.
var (
	sharedMu      sync.Mutex
	sharedServers = map[int]*httptest.Server{}
	sharedCurrent = map[int]*source{}
	sharedClient  = &http.Client{Transport: &http.Transport{MaxIdleConnsPerHost: 8}}
)

func (s *source) serveHTTP() error {
	sharedMu.Lock()
	srv := sharedServers[s.idx]
	if srv == nil {
		idx := s.idx
		srv = netx.NewServer(http.HandlerFunc(func(w http.ResponseWriter, req *http.Request) {
			sharedMu.Lock()
			cur := sharedCurrent[idx]
			sharedMu.Unlock()
			if cur == nil {
				http.Error(w, "no source registered", http.StatusServiceUnavailable)
				return
			}
			cur.serve(w, req)
		}))
		sharedServers[s.idx] = srv
	}
	sharedCurrent[s.idx] = s
	sharedMu.Unlock()
	s.srv = srv
	var err error
	s.via, err = pcache.NewHTTPSource(srv.URL, sharedClient)
	return err
}

func (s *source) serve(w http.ResponseWriter, req *http.Request) {
	s.mu.Lock()
	r := s.next
	s.mu.Unlock()
	var apiErr *apierror.Error
	switch {
	case errors.As(r.err, &apiErr):
		http.Error(w, string(apierror.EncodeError(apiErr)), apiErr.Status())
	case r.err != nil:
		http.Error(w, r.err.Error(), http.StatusInternalServerError)
	case strings.HasSuffix(req.URL.Path, "/providers"):
		infos := r.infos
		if infos == nil {
			infos = []*model.ProviderInfo{}
		}
		json.NewEncoder(w).Encode(infos)
	default:
		json.NewEncoder(w).Encode(r.info)
	}
}

func (s *source) String() string { return "sim-source-" + strconv.Itoa(s.idx) }

var errDown = errors.New("source unavailable")

func notFound() error { return apierror.New(errors.New("provider not found"), http.StatusNotFound) }

// goid returns the current goroutine's id.
func goid() int64 {
	var buf [64]byte
	n := runtime.Stack(buf[:], false)
	f := strings.Fields(string(buf[:n]))
	id, _ := strconv.ParseInt(f[1], 10, 64)
	return id
}

// waitBlocked polls until goroutine id is parked in a channel operation inside a frame whose
// name contains fn (how the driver knows a call has reached the writer lock), or times out.
func waitBlocked(id int64, fn string, d time.Duration) bool {
	deadline := time.Now().Add(d)
	buf := make([]byte, 1<<16)
	hdr := "goroutine " + strconv.FormatInt(id, 10) + " ["
	for {
		n := runtime.Stack(buf, true)
		if n == len(buf) {
			buf = make([]byte, 2*len(buf))
			continue
		}
		s := string(buf[:n])
		if i := strings.Index(s, hdr); i >= 0 {
			rest := s[i:]
			if j := strings.Index(rest, "\n\n"); j >= 0 {
				rest = rest[:j]
			}
			line := rest[:strings.Index(rest, "\n")]
			if (strings.Contains(line, "[select") || strings.Contains(line, "[chan send")) && strings.Contains(rest, fn) {
				return true
			}
		}
		if time.Now().After(deadline) {
			return false
		}
		time.Sleep(50 * time.Microsecond)
	}
}

// goneChan reports (once) when goroutine id has ended: how the driver learns that a goroutine started by the library
// itself (the automatic refresh) has returned.
func goneChan(id int64) chan result {
	ch := make(chan result, 1)
	go func() {
		hdr := "goroutine " + strconv.FormatInt(id, 10) + " ["
		buf := make([]byte, 1<<16)
		for {
			n := runtime.Stack(buf, true)
			if n == len(buf) {
				buf = make([]byte, 2*len(buf))
				continue
			}
			if !strings.Contains(string(buf[:n]), hdr) {
				ch <- result{}
				return
			}
			time.Sleep(100 * time.Microsecond)
		}
	}()
	return ch
}

// findBlocked returns the id of a goroutine parked in a channel operation whose stack contains both frames, or 0.
func findBlocked(fn1, fn2 string, d time.Duration) int64 {
	deadline := time.Now().Add(d)
	buf := make([]byte, 1<<16)
	for {
		n := runtime.Stack(buf, true)
		if n == len(buf) {
			buf = make([]byte, 2*len(buf))
			continue
		}
		for _, blk := range strings.Split(string(buf[:n]), "\n\n") {
			if !strings.HasPrefix(blk, "goroutine ") || !strings.Contains(blk, fn1) || !strings.Contains(blk, fn2) {
				continue
			}
			line := blk[:strings.Index(blk, "\n")]
			if strings.Contains(line, "[select") || strings.Contains(line, "[chan send") {
				f := strings.Fields(line)
				id, _ := strconv.ParseInt(f[1], 10, 64)
				return id
			}
		}
		if time.Now().After(deadline) {
			return 0
		}
		time.Sleep(50 * time.Microsecond)
	}
}
