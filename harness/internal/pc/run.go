package pc

import (
	"encoding/json"
	"flag"
	"fmt"
	"runtime"
	"strings"
	"time"

	"verifharness/internal/rep"
)

type behaviour struct {
	Steps []Step `json:"steps"`
}

func flags(fs *flag.FlagSet) (cfg *Config, srcs, provs *string, unitMs *int) {
	cfg = &Config{}
	srcs = fs.String("srcs", "s1,s2", "source names in query order")
	provs = fs.String("provs", "p,q", "provider names in export order")
	fs.IntVar(&cfg.TTLUnits, "ttl", 1, "TTL in clock units")
	fs.IntVar(&cfg.TickLen, "ticklen", 2, "clock units per Tick")
	unitMs = fs.Int("unit-ms", 20, "real milliseconds per clock unit")
	return
}

// replayOne runs one behaviour; returns the driver (for its outcome) after at most 5 attempts when timing was disturbed.
func replayOne(cfg Config, b *behaviour) *Driver {
	var d *Driver
	timed := hasTick(b)
	if !timed {
		cfg.TTLUnits = 1 << 20 // no Tick in the behaviour: the model clock never advances, so nothing may expire
	}
	for _, st := range b.Steps {
		cfg.Auto = cfg.Auto || st.Au != 0
	}
	unit := cfg.Unit
	for attempt := 0; attempt < 5; attempt++ {
		var err error
		// a disturbed run is repeated with a longer clock unit each time: the model's time is relative, a coarser
		// unit only makes the run slower and more tolerant of scheduling jitter
		cfg.Unit = unit << uint(attempt)
		d, err = NewDriver(cfg)
		if err != nil {
			d = &Driver{Inconclusive: "cannot create cache: " + err.Error()}
			return d
		}
		slack := cfg.Unit / 2
		for i := range b.Steps {
			if !d.Apply(i, &b.Steps[i]) {
				if timed && d.Div != "" && d.Drift() > slack {
					// the step that diverged ran late: the divergence may be the clock's, not the cache's
					d.Inconclusive, d.Div = fmt.Sprintf("real time ran %v ahead of the model clock", d.Drift()), ""
				}
				break
			}
			if timed && d.Drift() > slack {
				d.Inconclusive = fmt.Sprintf("real time ran %v ahead of the model clock", d.Drift())
				break
			}
		}
		d.Abort()
		if d.Inconclusive == "" {
			return d
		}
		if !strings.Contains(d.Inconclusive, "real time") {
			return d
		}
	}
	return d
}

func hasTick(b *behaviour) bool {
	for _, s := range b.Steps {
		if s.A == "Tick" {
			return true
		}
	}
	return false
}

// Run is "harness c06": replay TLC behaviours of ProviderCache.tla.
func Run(args []string) *rep.Report {
	fs := flag.NewFlagSet("c06", flag.ExitOnError)
	cfg, srcs, provs, unitMs := flags(fs)
	file := fs.String("behaviours", "", "ndjson behaviours exported by TLC")
	shard := fs.String("shard", "", "i/n (internal)")
	procs := fs.Int("procs", runtime.NumCPU(), "worker processes")
	limit := fs.Int("limit", 0, "replay at most this many behaviours per shard (0 = all)")
	httpEvery := fs.Int("http-every", 3, "every n-th behaviour runs with the library's HTTP provider sources in front of harness servers (0 = never)")
	fs.Parse(args)
	if *shard == "" {
		return rep.RunSharded("c06", args, *procs)
	}
	si, sn := rep.ParseShard(*shard)
	cfg.Srcs, cfg.Provs = strings.Split(*srcs, ","), strings.Split(*provs, ",")
	cfg.Unit = time.Duration(*unitMs) * time.Millisecond
	cfg.Watchdog = 3 * time.Second
	r := rep.New()
	idx := -1
	steps, tolerated := 0, map[string]int{}
	httpRuns := 0
	err := rep.ReadNDJSON(*file, func(line []byte) error {
		idx++
		if idx%sn != si || (*limit > 0 && r.Evaluations >= *limit) {
			return nil
		}
		if len(r.Divergences) >= 6 {
			r.AddExtra("skipped_after_divergences", 1) // the verdict is settled; the remaining behaviours would only cost watchdog time
			return nil
		}
		var b behaviour
		if err := json.Unmarshal(line, &b); err != nil {
			return fmt.Errorf("line %d: %w", idx, err)
		}
		bc := *cfg
		bc.HTTP = *httpEvery > 0 && idx%*httpEvery == 0
		NoTimeMode = 0
		LateCancel = idx%3 == 1
		if idx%5 == 2 {
			NoTimeMode = 1 + (idx/5)%2 // a fifth of the behaviours: the oldest version of every record carries no (usable) advertisement time
		}
		d := replayOne(bc, &b)
		if d.HTTP() {
			httpRuns++
		}
		if d.Div != "" && hasTick(&b) && d.Div != "hang" && d.Div != "blocked-read" && d.Div != "auto-refresh-missing" {
			// confirm before alarm: a behaviour with TTL steps runs against the real clock; what it shows must show again with a
			// clock unit four times as long
			c2 := bc
			c2.Unit = 4 * cfg.Unit
			if d2 := replayOne(c2, &b); d2.Div != d.Div {
				d.Inconclusive, d.Div = "a "+d.Div+" in a timed behaviour did not reproduce with a longer clock unit (busy machine)", ""
			}
		}
		if d.Div == "hang" || d.Div == "blocked-read" || d.Div == "auto-refresh-missing" {
			// confirm before alarm: a call that really waits for ever does so again, with a longer watchdog
			c2 := bc
			c2.Watchdog = 4 * cfg.Watchdog
			if d2 := replayOne(c2, &b); d2.Div != d.Div {
				d.Inconclusive, d.Div = "a "+d.Div+" did not reproduce with a longer watchdog (busy machine)", ""
			}
		}
		nontrivial := false
		for _, s := range b.Steps {
			if s.A == "RefreshPublish" || s.A == "MissPublish" {
				nontrivial = true
			}
		}
		r.Eval(nontrivial)
		steps += d.At + 1
		if idx%997 == 0 {
			r.Sample(b)
		}
		switch {
		case d.Div != "":
			r.Diverge(rep.Divergence{Key: d.Div, Case: b, Detail: fmt.Sprintf("step %d (%s): %s", d.At, b.Steps[d.At].A, d.Detail)})
		case d.Inconclusive != "":
			r.Inconclusive++
			r.SetExtra("inconclusive_example", d.Inconclusive)
		case d.Tolerated != "":
			tolerated[d.Tolerated]++
		}
		return nil
	})
	if err != nil {
		r.SetExtra("read_error", err.Error())
	}
	r.SetExtra("steps_replayed", steps)
	r.SetExtra("behaviours_with_http_sources", httpRuns)
	for k, v := range tolerated {
		r.SetExtra("tolerated_"+k, v)
	}
	return r
}
