package pc

import (
	"context"
	"fmt"
	"net/http/httptest"
	"sort"
	"sync/atomic"
	"time"

	"github.com/ipni/go-libipni/find/model"
	"github.com/ipni/go-libipni/pcache"
	"github.com/libp2p/go-libp2p/core/peer"

	"verifharness/internal/ids"
)

// Step is one record of the history variable h of ProviderCache.tla.
type Step struct {
	A   string `json:"a"`
	S   string `json:"s"`
	P   string `json:"p"`
	V   int    `json:"v"`
	Ret int    `json:"ret"`
	Vis []int  `json:"vis"`
	Hi  []int  `json:"hi,omitempty"`  // RefreshPublish: upper bound per provider (newest version any fetch returned)
	Str int    `json:"str,omitempty"` // GetHit: 1 if the write map holds an entry for p (strict), 0 if only a deletion marker
	Au  int    `json:"au,omitempty"`  // GetHit: the lookup finds the refresh interval elapsed; the automatic refresh 1 = takes the writer lock, 2 = waits for the writer at work
}

type Config struct {
	Srcs, Provs []string
	TTLUnits    int
	TickLen     int
	Unit        time.Duration
	Watchdog    time.Duration
	Auto        bool // the cache is built with a refresh interval (elapsed only when the driver says so)
	HTTP        bool // the sources are the library's HTTP provider sources in front of harness servers (gated all the same)
}

type result struct {
	pi  *model.ProviderInfo
	err error
}

type wcall struct {
	kind    string // "refresh" | "miss"
	p       string
	cancel  context.CancelFunc
	done    chan result
	parked  *call
	pending *reply
	gid     int64
}

type Driver struct {
	cfg     Config
	sim     *sim
	pc      *pcache.ProviderCache
	content map[string]map[string]int
	up      map[string]bool
	wr      *wcall
	wt      *wcall
	stash   []*call // source calls that arrived from a goroutine other than the one the driver was waiting for
	ticks   int
	start   time.Time
	// Outcome
	Div          string // divergence key ("" = none)
	Detail       string
	At           int
	Inconclusive string
	Tolerated    string
	gate         *gate
	PubIdx       atomic.Int64 // number of publications completed (for background readers)
	Snapshots    [][]int      // model vis after each publication, index = PubIdx value
	servers      []*httptest.Server
}

// strangerSource reports one provider that belongs to no behaviour.
type strangerSource struct{}

func (strangerSource) Fetch(context.Context, peer.ID) (*model.ProviderInfo, error) { return nil, nil }
func (strangerSource) FetchAll(context.Context) ([]*model.ProviderInfo, error) {
	id, _ := peer.Decode("12D3KooWQSMKybsYFnNyCGzFUJPgXLPxbGmuZp5xDrhEYyGkWfQ6")
	return []*model.ProviderInfo{{AddrInfo: peer.AddrInfo{ID: id}, LastAdvertisementTime: "2031-01-01T00:00:00Z"}}, nil
}
func (strangerSource) String() string { return "stranger" }

func NewDriver(cfg Config) (*Driver, error) {
	d := &Driver{cfg: cfg, content: map[string]map[string]int{}, up: map[string]bool{}}
	d.sim = &sim{arrive: make(chan *call), fetchAll: make([]int64, len(cfg.Srcs)), fetch: make([]int64, len(cfg.Srcs))}
	var srcs []pcache.ProviderSource
	for i, s := range cfg.Srcs {
		src := &source{sim: d.sim, idx: i + 1}
		if cfg.HTTP {
			if err := src.serveHTTP(); err != nil {
				return nil, err
			}
			d.servers = append(d.servers, src.srv)
		}
		srcs = append(srcs, src)
		d.content[s] = map[string]int{}
		d.up[s] = true
	}
	interval := time.Duration(0)
	if cfg.Auto {
		interval = time.Hour // never elapses by itself: the driver elapses it where the behaviour says so
	}
	pc, err := pcache.New(pcache.WithSource(srcs...), pcache.WithPreload(false), pcache.WithRefreshInterval(interval),
		pcache.WithTTL(time.Duration(cfg.TTLUnits)*cfg.Unit))
	if err != nil {
		return nil, err
	}
	// the list of sources is the caller's: what the caller does with it afterwards (here: every slot overwritten with a source
	// that reports a provider nobody knows) is not the cache's business
	for i := range srcs {
		srcs[i] = strangerSource{}
	}
	d.pc = pc
	init := make([]int, len(cfg.Provs))
	for i := range init {
		init[i] = -1
	}
	d.Snapshots = append(d.Snapshots, init)
	d.start = time.Now()
	return d, nil
}

func (d *Driver) Cache() *pcache.ProviderCache { return d.pc }

// HTTP tells whether this driver's sources were HTTP-backed.
func (d *Driver) HTTP() bool { return d.cfg.HTTP }

func (d *Driver) srcIdx(s string) int {
	for i, x := range d.cfg.Srcs {
		if x == s {
			return i + 1
		}
	}
	return 0
}

func (d *Driver) fail(key, format string, a ...interface{}) bool {
	d.Div, d.Detail = key, fmt.Sprintf(format, a...)
	return false
}

// waitArrival waits for the next source call of the writer w, or for w to return early.
func (d *Driver) waitArrival(w *wcall) (*call, *result) {
	for i, c := range d.stash {
		if c.gid == w.gid {
			d.stash = append(d.stash[:i], d.stash[i+1:]...)
			return c, nil
		}
	}
	t := time.NewTimer(d.cfg.Watchdog)
	defer t.Stop()
	for {
		select {
		case c := <-d.sim.arrive:
			if c.gid != w.gid {
				// e.g. the call that was parked on the writer lock got the lock and reached its first source:
				// it stays parked in the gate until the model takes its step.
				d.stash = append(d.stash, c)
				continue
			}
			return c, nil
		case r := <-w.done:
			return nil, &r
		case <-t.C:
			return nil, nil
		}
	}
}

// waitUnknownArrival waits for a source call from a goroutine the driver did not start (the automatic refresh).
func (d *Driver) waitUnknownArrival() *call {
	known := func(g int64) bool {
		return (d.wr != nil && d.wr.gid == g) || (d.wt != nil && d.wt.gid == g)
	}
	for i, c := range d.stash {
		if !known(c.gid) {
			d.stash = append(d.stash[:i], d.stash[i+1:]...)
			return c
		}
	}
	t := time.NewTimer(d.cfg.Watchdog)
	defer t.Stop()
	for {
		select {
		case c := <-d.sim.arrive:
			if known(c.gid) {
				d.stash = append(d.stash, c)
				continue
			}
			return c
		case <-t.C:
			return nil
		}
	}
}

func (d *Driver) waitDone(w *wcall) (result, bool) {
	t := time.NewTimer(d.cfg.Watchdog)
	defer t.Stop()
	for {
		select {
		case r := <-w.done:
			return r, true
		case c := <-d.sim.arrive:
			if c.gid != w.gid {
				d.stash = append(d.stash, c)
				continue
			}
			// An unexpected extra source call: answer "unavailable" so that nothing hangs, and report.
			c.reply <- reply{err: errDown}
			d.Div, d.Detail = "unexpected-source-call", fmt.Sprintf("src %d all=%v while waiting for the %s call to return", c.src, c.all, w.kind)
		case <-t.C:
			return result{}, false
		}
	}
}

// finish lets a call that the driver no longer steers run to its end: every further source call it makes is
// answered "unavailable"; calls of other goroutines are kept for their owners.
func (d *Driver) finish(w *wcall) {
	t := time.NewTimer(d.cfg.Watchdog)
	defer t.Stop()
	for {
		select {
		case <-w.done:
			return
		case c := <-d.sim.arrive:
			if c.gid != w.gid {
				d.stash = append(d.stash, c)
				continue
			}
			c.reply <- reply{err: errDown}
		case <-t.C:
			return
		}
	}
}

func (d *Driver) flush(w *wcall) {
	if w.parked != nil && w.pending != nil {
		w.parked.reply <- *w.pending
		w.parked, w.pending = nil, nil
	}
}

// acquire makes sure the writer call is parked inside source i (delivering the held reply of source i-1 first).
func (d *Driver) acquire(w *wcall, i int, all bool) bool {
	if w.parked != nil && w.pending == nil {
		if w.parked.src != i || w.parked.all != all {
			return d.fail("source-order", "parked in source %d (all=%v), model expects source %d (all=%v)", w.parked.src, w.parked.all, i, all)
		}
		return true
	}
	d.flush(w)
	c, r := d.waitArrival(w)
	if r != nil {
		return d.fail("source-skipped", "%s call returned (err=%v) before querying source %d", w.kind, r.err, i)
	}
	if c == nil {
		return d.fail("hang", "%s call neither queried source %d nor returned within the watchdog", w.kind, i)
	}
	w.parked = c
	if c.src != i || c.all != all {
		return d.fail("source-order", "call reached source %d (all=%v), model expects source %d (all=%v)", c.src, c.all, i, all)
	}
	if !all && c.pid != ids.Peer(w.p) {
		return d.fail("source-order", "Fetch for the wrong provider")
	}
	return true
}

func (d *Driver) startRefresh() *wcall {
	ctx, cancel := context.WithCancel(context.Background())
	w := &wcall{kind: "refresh", cancel: cancel, done: make(chan result, 1)}
	gidc := make(chan int64, 1)
	go func() {
		gidc <- goid()
		err := d.pc.Refresh(ctx)
		w.done <- result{err: err}
	}()
	w.gid = <-gidc
	return w
}

func (d *Driver) startGet(p string) *wcall {
	ctx, cancel := context.WithCancel(context.Background())
	w := &wcall{kind: "miss", p: p, cancel: cancel, done: make(chan result, 1)}
	gidc := make(chan int64, 1)
	go func() {
		gidc <- goid()
		pi, err := d.pc.Get(ctx, ids.Peer(p))
		w.done <- result{pi: pi, err: err}
	}()
	w.gid = <-gidc
	return w
}

func (d *Driver) counters() (int64, int64) {
	var a, f int64
	for i := range d.sim.fetch {
		a += atomic.LoadInt64(&d.sim.fetchAll[i])
		f += atomic.LoadInt64(&d.sim.fetch[i])
	}
	return a, f
}

// listVis projects List() to the model's vis vector restricted to positive entries (-2 = not listed).
func (d *Driver) listVis() ([]int, bool) {
	type lr struct{ l []*model.ProviderInfo }
	ch := make(chan lr, 1)
	go func() { ch <- lr{d.pc.List()} }()
	var l []*model.ProviderInfo
	select {
	case x := <-ch:
		l = x.l
	case <-time.After(d.cfg.Watchdog):
		return nil, false
	}
	out := make([]int, len(d.cfg.Provs))
	for i := range out {
		out[i] = -2
	}
	for _, pi := range l {
		found := false
		for i, p := range d.cfg.Provs {
			if pi != nil && pi.AddrInfo.ID == ids.Peer(p) {
				if out[i] != -2 {
					out[i] = -98 // listed twice
				} else {
					out[i] = versionOf(pi)
				}
				found = true
			}
		}
		if !found {
			return append(out, -97), true
		}
	}
	return out, true
}

func (d *Driver) miss(w *wcall, st *Step, stored bool) bool {
	if stored {
		r, ok := d.waitDone(w)
		if !ok {
			return d.fail("hang", "Get(%s) did not return", st.P)
		}
		if r.err != nil || versionOf(r.pi) != st.Ret {
			return d.fail("get-mismatch", "Get(%s) after waiting returned version %d err=%v, model %d", st.P, versionOf(r.pi), r.err, st.Ret)
		}
		return true
	}
	d.wr = w
	return d.acquire(w, 1, false)
}

// Apply executes one model step on the real cache and compares the observations.
func (d *Driver) Apply(idx int, st *Step) bool {
	d.At = idx
	switch st.A {
	case "EnvSet":
		d.content[st.S][st.P] = st.V
	case "EnvDown":
		d.up[st.S] = false
	case "EnvUp":
		d.up[st.S] = true
	case "Tick":
		d.ticks++
		target := d.start.Add(time.Duration(d.ticks*d.cfg.TickLen) * d.cfg.Unit)
		if wait := time.Until(target); wait > 0 {
			time.Sleep(wait)
		}
	case "RefreshBegin":
		d.wr = d.startRefresh()
		if !d.acquire(d.wr, 1, true) {
			return false
		}
	case "RefreshFetch":
		if d.wr == nil || !d.acquire(d.wr, st.V, true) {
			return false
		}
		s := d.cfg.Srcs[st.V-1]
		if !d.up[s] {
			d.wr.pending = &reply{err: errDown}
		} else {
			var infos []*model.ProviderInfo
			for _, p := range d.cfg.Provs {
				if v := d.content[s][p]; v > 0 {
					infos = append(infos, record(p, st.V, v))
				}
			}
			d.wr.pending = &reply{infos: infos}
		}
	case "RefreshCancel":
		if d.wr == nil || !d.acquire(d.wr, st.V, true) {
			return false
		}
		d.wr.cancel()
		d.wr.parked.reply <- reply{err: context.Canceled}
		d.wr.parked = nil
		r, ok := d.waitDone(d.wr)
		if !ok {
			return d.fail("hang", "cancelled Refresh did not return")
		}
		if r.err == nil {
			return d.fail("refresh-result", "Refresh cancelled at source %d returned nil", st.V)
		}
		d.wr = nil
	case "RefreshPublish":
		if d.wr == nil {
			return d.fail("protocol", "no refresh in progress")
		}
		if LateCancel && d.wr.pending != nil && d.wr.pending.err == nil && d.wr.parked != nil { // (a source that fails under a cancelled context is a cancelled refresh)
			d.wr.pending.then = d.wr.cancel // the caller gives up when the last source has its answer
		}
		d.flush(d.wr)
		r, ok := d.waitDone(d.wr)
		if !ok {
			return d.fail("hang", "Refresh did not return")
		}
		if r.err != nil {
			return d.fail("refresh-result", "Refresh returned %v, model: completes without error", r.err)
		}
		d.wr.cancel()
		d.wr = nil
		d.Snapshots = append(d.Snapshots, st.Vis)
		d.PubIdx.Add(1)
	case "GetHit":
		if st.Au != 0 {
			d.pc.VerifElapseRefreshInterval()
		}
		w := d.startGet(st.P)
		var r result
		t := time.NewTimer(d.cfg.Watchdog)
	hit:
		for {
			select {
			case r = <-w.done:
				break hit
			case c := <-d.sim.arrive:
				if c.gid != w.gid {
					d.stash = append(d.stash, c)
					continue
				}
				c.reply <- reply{err: errDown}
				d.finish(w) // the call goes on to the remaining sources: answer them all so that it returns
				w.cancel()
				t.Stop()
				if st.Str == 0 {
					d.Tolerated = "refetch-after-expiry-marker"
					return false
				}
				return d.fail("negative-refetch", "Get(%s) queried source %d although the model holds a cache entry (value %d)", st.P, c.src, st.Ret)
			case <-t.C:
				return d.fail("blocked-read", "Get(%s) of a cached provider did not return while writer=%v", st.P, d.wr != nil)
			}
		}
		t.Stop()
		w.cancel()
		if r.err != nil || versionOf(r.pi) != st.Ret {
			return d.fail("get-mismatch", "Get(%s) returned version %d err=%v, model %d", st.P, versionOf(r.pi), r.err, st.Ret)
		}
		switch st.Au {
		case 1: // the automatic refresh, a goroutine of the library's own, has the writer lock: it arrives at source 1
			c := d.waitUnknownArrival()
			if c == nil {
				return d.fail("auto-refresh-missing", "Get(%s) found the refresh interval elapsed, but no automatic refresh reached the first source", st.P)
			}
			d.wr = &wcall{kind: "refresh", cancel: func() {}, done: goneChan(c.gid), gid: c.gid, parked: c}
			if c.src != 1 || !c.all {
				return d.fail("source-order", "automatic refresh reached source %d (all=%v) first", c.src, c.all)
			}
		case 2: // ... or waits for the writer at work
			gid := findBlocked("getReadOnly.func", "ProviderCache).Refresh", d.cfg.Watchdog)
			if gid == 0 {
				return d.fail("auto-refresh-missing", "Get(%s) found the refresh interval elapsed, but no automatic refresh is waiting for the writer lock", st.P)
			}
			d.wt = &wcall{kind: "piggy", cancel: func() {}, done: goneChan(gid), gid: gid}
		}
	case "MissBegin":
		if !d.miss(d.startGet(st.P), st, st.V == 1) {
			return false
		}
	case "MissFetch":
		if d.wr == nil || !d.acquire(d.wr, st.V, false) {
			return false
		}
		s := d.cfg.Srcs[st.V-1]
		switch {
		case !d.up[s]:
			d.wr.pending = &reply{err: errDown}
		case d.content[s][st.P] > 0:
			d.wr.pending = &reply{info: record(st.P, st.V, d.content[s][st.P])}
		default:
			d.wr.pending = &reply{err: notFound()}
		}
	case "MissCancel":
		if d.wr == nil || !d.acquire(d.wr, st.V, false) {
			return false
		}
		d.wr.cancel()
		d.wr.parked.reply <- reply{err: context.Canceled}
		d.wr.parked = nil
		r, ok := d.waitDone(d.wr)
		if !ok {
			return d.fail("hang", "cancelled Get did not return")
		}
		if r.err == nil {
			return d.fail("get-mismatch", "Get cancelled during miss-fetch returned no error")
		}
		d.wr = nil
	case "MissPublish":
		if d.wr == nil {
			return d.fail("protocol", "no miss in progress")
		}
		d.flush(d.wr)
		r, ok := d.waitDone(d.wr)
		if !ok {
			return d.fail("hang", "Get (miss) did not return")
		}
		if r.err != nil || versionOf(r.pi) != st.Ret {
			return d.fail("get-mismatch", "Get(%s) miss returned version %d err=%v, model %d", st.P, versionOf(r.pi), r.err, st.Ret)
		}
		d.wr.cancel()
		d.wr = nil
		d.Snapshots = append(d.Snapshots, st.Vis)
		d.PubIdx.Add(1)
	case "PiggyStart":
		d.wt = d.startRefresh()
		d.wt.kind = "piggy"
		if !waitBlocked(d.wt.gid, "ProviderCache).Refresh", d.cfg.Watchdog) {
			d.Inconclusive = "second Refresh did not park on the writer lock"
			return false
		}
	case "MissPark":
		d.wt = d.startGet(st.P)
		if !waitBlocked(d.wt.gid, "fetchMissing", d.cfg.Watchdog) {
			d.Inconclusive = "Get did not park on the writer lock"
			return false
		}
	case "PiggyReturn":
		r, ok := d.waitDone(d.wt)
		if !ok {
			return d.fail("hang", "Refresh that waited for another refresh did not return")
		}
		if r.err != nil {
			return d.fail("refresh-result", "waiting Refresh returned %v", r.err)
		}
		d.wt.cancel()
		d.wt = nil
	case "MissUnpark":
		w := d.wt
		d.wt = nil
		if !d.miss(w, st, st.V == 1) {
			return false
		}
		if st.V == 1 {
			w.cancel()
		}
	default:
		return d.fail("protocol", "unknown step %q", st.A)
	}
	if d.Div != "" {
		return false
	}
	// Observation common to all steps: List() against the model's visible snapshot.
	got, ok := d.listVis()
	if !ok {
		return d.fail("blocked-read", "List() did not return while writer=%v", d.wr != nil)
	}
	if len(got) != len(st.Vis) {
		return d.fail("list-mismatch", "List() returned a provider the model does not know: %v", got)
	}
	for i, v := range st.Vis {
		want := v
		if v <= 0 {
			want = -2
		}
		if got[i] != want {
			if st.A == "RefreshPublish" && len(st.Hi) == len(got) && v > 0 && got[i] > v && got[i] <= st.Hi[i] {
				d.Tolerated = "kept-newer-record-from-cancelled-refresh"
				return false
			}
			return d.fail("list-mismatch@"+st.A, "after %s: List() shows %v (-2 = not listed), model snapshot %v", st.A, got, st.Vis)
		}
	}
	return true
}

// Drift reports how far real time has run ahead of the model clock.
func (d *Driver) Drift() time.Duration {
	return time.Since(d.start) - time.Duration(d.ticks*d.cfg.TickLen)*d.cfg.Unit
}

// Abort releases everything still parked so that no goroutine leaks into the next behaviour.
func (d *Driver) Abort() {
	for _, c := range d.stash {
		c.reply <- reply{err: context.Canceled}
	}
	d.stash = nil
	for _, w := range []*wcall{d.wr, d.wt} {
		if w == nil {
			continue
		}
		w.cancel()
		if w.parked != nil {
			w.parked.reply <- reply{err: context.Canceled}
			w.parked = nil
		}
	}
	deadline := time.After(2 * time.Second)
	for _, w := range []*wcall{d.wr, d.wt} {
		if w == nil {
			continue
		}
		for done := false; !done; {
			select {
			case <-w.done:
				done = true
			case c := <-d.sim.arrive:
				c.reply <- reply{err: context.Canceled}
			case <-deadline:
				done = true
			}
		}
	}
	d.wr, d.wt = nil, nil
	d.servers = nil // the servers are shared by all behaviours of the process (sim.go)
}

func sortedKeys(m map[string]int) []string {
	var k []string
	for x := range m {
		k = append(k, x)
	}
	sort.Strings(k)
	return k
}
