// Package c01 runs every configuration exported by spec/ChainSync.tla as a real sync:
// real chain, real ipnisync.Publisher, real dagsync.Subscriber with exactly the configured options.
package c01

import (
	"context"
	"encoding/json"
	"flag"
	"fmt"
	"net/http"
	"runtime"
	"sort"
	"strings"
	"sync"
	"time"

	"github.com/ipfs/go-cid"
	cidlink "github.com/ipld/go-ipld-prime/linking/cid"
	"github.com/ipni/go-libipni/dagsync"
	"github.com/libp2p/go-libp2p"
	"github.com/libp2p/go-libp2p/core/host"
	"github.com/libp2p/go-libp2p/core/peer"
	"github.com/multiformats/go-multiaddr"

	"verifharness/internal/chain"
	"verifharness/internal/lsys"
	"verifharness/internal/rep"
)

type config struct {
	Kind       string `json:"kind"`
	N          int    `json:"n"`
	Explicit   int    `json:"explicit"`
	Latest0    int    `json:"latest0"`
	StopOpt    int    `json:"stopOpt"`
	Resync     bool   `json:"resync"`
	SubDepth   int    `json:"subDepth"`
	FirstDepth int    `json:"firstDepth"`
	CallDepth  int    `json:"callDepth"`
	SubSeg     int    `json:"subSeg"`
	CallSeg    int    `json:"callSeg"`
	Pre        []int  `json:"pre"`
}

type event struct {
	Cid   int `json:"cid"`
	Count int `json:"count"`
}

type tcase struct {
	Cfg       config  `json:"cfg"`
	Reported  []int   `json:"reported"`
	Requested []int   `json:"requested"`
	Result    int     `json:"result"`
	Latest    int     `json:"latest"`
	Events    []event `json:"events"`
	Segmented bool    `json:"segmented"`
}

type observed struct {
	Reported  []int   `json:"reported"`
	Requested []int   `json:"requested"`
	Result    int     `json:"result"`
	Latest    int     `json:"latest"`
	Events    []event `json:"events"`
	Err       string  `json:"err,omitempty"`
	Missing   []int   `json:"missing_from_store,omitempty"`
	Mode      string  `json:"mode"`
	Skip      bool    `json:"skip,omitempty"`
}

func num(ch *chain.Chain, c cid.Cid) int {
	if c == cid.Undef {
		return 0
	}
	if c == ch.Off {
		return 99
	}
	if i, ok := ch.Index[c]; ok {
		return i
	}
	return -1
}

// runCase runs the case's sync.  variant "after-failure": the same call is made once before, against a publisher that answers the
// second block request with status 500 -- the blocks that attempt stored are then held locally, and the sync proper must report
// what it reports without them; variant "cancel-in-hook": the block hook cancels the caller's context at the second block it is
// given -- the sync fails, or it is the whole sync.
func runCase(tc *tcase, pub *chain.Pub, variant string) (ob observed) {
	ch := pub.Chain
	c := tc.Cfg
	pub.Reset(c.N)
	dst := lsys.NewStore()
	for _, i := range c.Pre {
		b, _ := ch.Store.Get(ch.Cids[i])
		dst.Put(ch.Cids[i], b)
	}
	var mu sync.Mutex
	var cancelInHook context.CancelFunc
	// every other advertisement-chain case steers the segments with the library's own general block hook
	general := dagsync.MakeGeneralBlockHook(func(c cid.Cid) (cid.Cid, error) { return ch.Prev(c), nil })
	useGeneral := c.Kind == "ads" && (c.N+len(c.Pre)+c.SubSeg+c.CallSeg)%2 == 1
	hook := func(p peer.ID, bc cid.Cid, actions dagsync.SegmentSyncActions) {
		mu.Lock()
		ob.Reported = append(ob.Reported, num(ch, bc))
		nrep := len(ob.Reported)
		mu.Unlock()
		if variant == "cancel-in-hook" && nrep == 2 && cancelInHook != nil {
			cancelInHook()
		}
		if useGeneral {
			general(p, bc, actions)
			return
		}
		actions.SetNextSyncCid(ch.Prev(bc))
	}
	opts := []dagsync.Option{dagsync.BlockHook(hook), dagsync.HttpTimeout(10 * time.Second), dagsync.SegmentDepthLimit(int64(c.SubSeg))}
	if c.Kind == "ads" {
		opts = append(opts, dagsync.AdsDepthLimit(int64(c.SubDepth)), dagsync.FirstSyncDepth(int64(c.FirstDepth)))
	} else {
		opts = append(opts, dagsync.EntriesDepthLimit(int64(c.SubDepth)))
	}
	var subHost host.Host
	if pub.Host != nil { // stream transport: the subscriber needs a libp2p host of its own
		var herr error
		if subHost, herr = libp2p.New(libp2p.NoListenAddrs); herr != nil {
			ob.Err = "subscriber host: " + herr.Error()
			return
		}
		defer subHost.Close()
	}
	sub, err := dagsync.NewSubscriber(subHost, dst.LinkSystem(), opts...)
	if err != nil {
		ob.Err = "new subscriber: " + err.Error()
		return
	}
	defer sub.Close()
	if c.Latest0 != 0 {
		sub.SetLatestSync(pub.ID, ch.Cid(c.Latest0))
	}
	evCh, cancelEv := sub.OnSyncFinished()
	defer cancelEv()
	ctx, cancel := context.WithTimeout(context.Background(), 20*time.Second)
	defer cancel()
	head := c.Explicit
	if head == 0 {
		head = c.N
	}
	// the publisher as a caller may name it: peer ID and addresses, or -- every third case -- no ID, and the ID as the last component
	// of each address.  Built anew for every call: the library strips the ID from the address slice it is given, in place.
	mkInfo := func() peer.AddrInfo {
		info := pub.AddrInfo()
		if (c.N+len(c.Pre)+c.Latest0+c.SubDepth)%3 == 0 && pub.Host == nil {
			var withID []multiaddr.Multiaddr
			for _, a := range info.Addrs {
				withID = append(withID, a.Encapsulate(multiaddr.StringCast("/p2p/"+info.ID.String())))
			}
			info = peer.AddrInfo{Addrs: withID}
		}
		return info
	}
	doSync := func(ctx context.Context) (got cid.Cid, err error) {
		info := mkInfo()
		switch c.Kind {
		case "ads":
			var so []dagsync.SyncOption
			if c.Explicit != 0 {
				so = append(so, dagsync.WithHeadAdCid(ch.Cid(c.Explicit)))
			}
			if c.StopOpt != 0 {
				so = append(so, dagsync.WithStopAdCid(ch.Cid(c.StopOpt)))
			}
			if c.Resync {
				so = append(so, dagsync.WithAdsResync(true))
			}
			if c.CallDepth != 0 {
				so = append(so, dagsync.ScopedDepthLimit(int64(c.CallDepth)))
			}
			if c.CallSeg != 0 {
				so = append(so, dagsync.ScopedSegmentDepthLimit(int64(c.CallSeg)))
			}
			got, err = sub.SyncAdChain(ctx, info, so...)
		case "entries":
			var so []dagsync.SyncOption
			if c.CallDepth != 0 {
				so = append(so, dagsync.ScopedDepthLimit(int64(c.CallDepth)))
			}
			err = sub.SyncEntries(ctx, info, ch.Cid(head), so...)
			got = ch.Cid(head)
		case "one":
			err = sub.SyncOneEntry(ctx, info, ch.Cid(head))
			got = ch.Cid(head)
		case "all":
			err = sub.SyncHAMTEntries(ctx, info, ch.Cid(head))
			got = ch.Cid(head)
		}
		return got, err
	}
	if variant == "after-failure" {
		blocks := 0
		pub.Intercept = func(w http.ResponseWriter, req *http.Request, seq int) bool {
			if strings.HasSuffix(req.URL.Path, "/head") {
				return false
			}
			blocks++
			if blocks == 2 {
				http.Error(w, "injected", http.StatusInternalServerError)
				return true
			}
			return false
		}
		_, ferr := doSync(ctx)
		pub.Intercept = nil
		if ferr == nil {
			ob.Skip = true // fewer than two blocks to fetch: the attempt did not fail
			return
		}
		mu.Lock()
		ob.Reported = nil
		mu.Unlock()
		if (c.N+len(c.Pre))%2 == 0 {
			// the application drops the publisher's handler in between: what has been synced so far is the subscriber's
			// knowledge, not the handler's
			sub.RemoveHandler(pub.ID)
		}
		pub.Reset(c.N)
	}
	if variant == "cancel-in-hook" {
		ctx, cancelInHook = context.WithCancel(ctx)
	}
	got, err := doSync(ctx)
	if err != nil {
		ob.Err = err.Error()
	}
	ob.Result = num(ch, got)
	if l := sub.GetLatestSync(pub.ID); l != nil {
		ob.Latest = num(ch, l.(cidlink.Link).Cid)
	}
	// Close flushes every notification to the listener and then closes its channel.
	sub.Close()
	timeout := time.After(5 * time.Second)
drain:
	for {
		select {
		case ev, ok := <-evCh:
			if !ok {
				break drain
			}
			e := event{Cid: num(ch, ev.Cid), Count: ev.Count}
			if ev.Err != nil {
				e.Count = -1
			}
			ob.Events = append(ob.Events, e)
		case <-timeout:
			ob.Err += " [listener channel not closed after Close]"
			break drain
		}
	}
	ob.Requested = pub.Served()
	for _, i := range tc.Reported {
		if !dst.Has(ch.Cids[i]) {
			ob.Missing = append(ob.Missing, i)
		}
	}
	return
}

func eqInts(a, b []int) bool {
	if len(a) != len(b) {
		return false
	}
	for i := range a {
		if a[i] != b[i] {
			return false
		}
	}
	return true
}

func sortedCopy(a []int) []int {
	b := append([]int(nil), a...)
	sort.Ints(b)
	return b
}

func judge(tc *tcase, ob *observed) (string, string) {
	switch {
	case ob.Err != "":
		return "sync-failed", ob.Err
	case !eqInts(ob.Reported, tc.Reported):
		return "reported-blocks", fmt.Sprintf("hook saw %v, model %v", ob.Reported, tc.Reported)
	case !eqInts(sortedCopy(ob.Requested), sortedCopy(tc.Requested)):
		return "requested-blocks", fmt.Sprintf("publisher served %v, model %v", ob.Requested, tc.Requested)
	case len(ob.Missing) != 0:
		return "not-stored", fmt.Sprintf("reported blocks %v are not readable from the local store", ob.Missing)
	case ob.Result != tc.Result:
		return "returned-head", fmt.Sprintf("returned %d, model %d", ob.Result, tc.Result)
	case ob.Latest != tc.Latest:
		return "latest-synced", fmt.Sprintf("latest %d, model %d", ob.Latest, tc.Latest)
	case len(ob.Events) != len(tc.Events):
		return "notification", fmt.Sprintf("events %v, model %v", ob.Events, tc.Events)
	}
	for i := range tc.Events {
		if ob.Events[i] != tc.Events[i] {
			return "notification", fmt.Sprintf("events %v, model %v", ob.Events, tc.Events)
		}
	}
	return "", ""
}

// Run is "harness c01".
func Run(args []string) *rep.Report {
	fs := flag.NewFlagSet("c01", flag.ExitOnError)
	file := fs.String("cases", "", "ndjson case table exported by TLC")
	shard := fs.String("shard", "", "i/n (internal)")
	procs := fs.Int("procs", runtime.NumCPU(), "worker processes")
	sample := fs.Int("sample", 1, "run every n-th case (offset by seed)")
	seed := fs.Int("seed", 0, "sampling offset")
	maxLen := fs.Int("maxlen", 6, "longest chain in the table")
	fs.Parse(args)
	if *shard == "" {
		return rep.RunSharded("c01", args, *procs)
	}
	si, sn := rep.ParseShard(*shard)
	r := rep.New()
	pubs := map[string]*chain.Pub{}
	getPub := func(kind string, mode int) (*chain.Pub, error) {
		plain := mode == 0
		k := fmt.Sprintf("%s/%d", kind, mode)
		if p, ok := pubs[k]; ok {
			return p, nil
		}
		ck := "ads"
		if kind != "ads" {
			ck = "entries"
		}
		ch, err := chain.Build(ck, *maxLen, "c01")
		if err != nil {
			return nil, err
		}
		var p *chain.Pub
		if mode == 2 {
			p, err = chain.NewPubStream(ch, "c01-pub-"+k)
		} else {
			p, err = chain.NewPub(ch, "c01-pub-"+k, plain)
		}
		if err != nil {
			return nil, err
		}
		pubs[k] = p
		return p, nil
	}
	defer func() {
		for _, p := range pubs {
			p.Close()
		}
	}()
	idx := -1
	variantRuns := 0
	modes := map[string]int{}
	err := rep.ReadNDJSON(*file, func(line []byte) error {
		idx++
		if (idx+*seed)%*sample != 0 || (idx / *sample)%sn != si {
			return nil
		}
		tc := new(tcase)
		if err := json.Unmarshal(line, tc); err != nil {
			return err
		}
		// transport: plain HTTP / HTTP discovered as libp2p-HTTP / HTTP over libp2p streams, in rotation within each shard
		mode := ((idx / *sample) / sn) % 3
		pub, err := getPub(tc.Cfg.Kind, mode)
		if err != nil {
			return err
		}
		ob := runCase(tc, pub, "")
		ob.Mode = []string{"plain-http", "libp2p-http", "libp2p-stream"}[mode]
		modes[ob.Mode]++
		r.Eval(len(tc.Reported) > 1 || tc.Segmented)
		if idx%2003 == 0 {
			r.Sample(tc)
		}
		if k, d := judge(tc, &ob); k != "" {
			ob2 := runCase(tc, pub, "") // confirm before alarm
			if k2, _ := judge(tc, &ob2); k2 == k {
				r.Diverge(rep.Divergence{Key: k, Case: tc.Cfg, Expected: tc, Observed: ob, Detail: ob.Mode + ": " + d})
			} else {
				r.Inconclusive++
			}
		}
		if ((idx / *sample)/sn)%4 == 1 {
			var variants []string
			if mode == 0 && len(tc.Requested) >= 2 {
				variants = append(variants, "after-failure")
			}
			if tc.Segmented && len(tc.Reported) >= 3 {
				variants = append(variants, "cancel-in-hook")
			}
			for _, v := range variants {
				run := func() (string, string, observed) {
					vo := runCase(tc, pub, v)
					vo.Mode = ob.Mode + " " + v
					if vo.Skip || (v == "cancel-in-hook" && vo.Err != "") {
						return "", "", vo // nothing to fetch twice / the cancelled sync failed: both fine
					}
					vt := *tc
					if v == "after-failure" {
						vt.Requested = vo.Requested // what is held locally after the failed attempt is not requested again (checked below)
						for _, q := range vo.Requested {
							found := false
							for _, w := range tc.Requested {
								found = found || q == w
							}
							if !found {
								return "requested-blocks", fmt.Sprintf("after a failed attempt the publisher was asked for %v, the sync proper asks for %v at most", vo.Requested, tc.Requested), vo
							}
						}
					}
					k, d := judge(&vt, &vo)
					return k, d, vo
				}
				if k, d, vo := run(); k != "" {
					if k2, _, _ := run(); k2 == k {
						r.Diverge(rep.Divergence{Key: k, Case: tc.Cfg, Expected: tc, Observed: vo, Detail: vo.Mode + ": " + d})
					} else {
						r.Inconclusive++
					}
				}
				variantRuns++
			}
		}
		if idx%200 == 0 {
			http.DefaultTransport.(*http.Transport).CloseIdleConnections()
		}
		return nil
	})
	if err != nil {
		r.SetExtra("read_error", err.Error())
	}
	r.AddExtra("variant_runs_after_failure_or_cancel", variantRuns)
	for k, v := range modes {
		r.SetExtra("syncs_"+k, v)
	}
	return r
}
