package c01

import (
	"context"
	"encoding/json"
	"flag"
	"fmt"
	"net/http"
	"runtime"
	"strings"
	"sync"
	"time"

	"github.com/ipfs/go-cid"
	"github.com/ipni/go-libipni/dagsync"
	"github.com/libp2p/go-libp2p/core/peer"

	"verifharness/internal/chain"
	"verifharness/internal/lsys"
	"verifharness/internal/rep"
)

// pairCase is one behaviour of spec/SyncPair.tla: two syncs of two publishers, interleaved step by step.
type pairCase struct {
	Seg   int              `json:"seg"`
	N     int              `json:"n"`
	Order []string         `json:"order"`
	Rep   map[string][]int `json:"rep"`
}

type arrival struct {
	proc, kind string
	release    chan struct{}
}

type pairObserved struct {
	Rep   map[string][]string `json:"rep"` // per sync: what its hook was called with ("A3" = block 3 of A's chain)
	Errs  map[string]string   `json:"errs,omitempty"`
	Steps []string            `json:"steps,omitempty"` // the steps as they were released
}

// steps of one sync in the model's order: F = a block request at the publisher, H = a block-hook call
func pairSteps(seg, n int) []string {
	s := []string{"S"} // the call is made
	if seg == 0 {
		for i := 0; i < n; i++ {
			s = append(s, "F")
		}
		for i := 0; i < n; i++ {
			s = append(s, "H")
		}
		return s
	}
	for i := 0; i < n; i++ {
		s = append(s, "F", "H")
	}
	return s
}

func replayPair(pc *pairCase, pubs map[string]*chain.Pub) (key, detail string, ob pairObserved) {
	ob.Rep = map[string][]string{}
	ob.Errs = map[string]string{}
	arrive := make(chan arrival, 8)
	gate := func(proc, kind string) {
		a := arrival{proc, kind, make(chan struct{})}
		arrive <- a
		<-a.release
	}
	var mu sync.Mutex
	hookCalls := map[string]int{}
	procOf := map[peer.ID]string{}
	for name, p := range pubs {
		name, p := name, p
		procOf[p.ID] = name
		p.Reset(pc.N)
		p.Intercept = func(_ http.ResponseWriter, r *http.Request, _ int) bool {
			if !strings.HasSuffix(r.URL.Path, "/head") {
				gate(name, "F")
			}
			return false
		}
	}
	defer func() {
		for _, p := range pubs {
			p.Intercept = nil
		}
	}()
	label := func(c cid.Cid) string {
		for name, p := range pubs {
			if i, ok := p.Chain.Index[c]; ok {
				return fmt.Sprintf("%s%d", name, i)
			}
		}
		return "?" + c.String()
	}
	hook := func(id peer.ID, c cid.Cid, actions dagsync.SegmentSyncActions) {
		proc := procOf[id]
		mu.Lock()
		hookCalls[proc]++
		k := hookCalls[proc]
		ob.Rep[proc] = append(ob.Rep[proc], label(c))
		mu.Unlock()
		gate(proc, "H")
		// the k-th call is for block n-k+1 of the sync's own chain: go on with the one before it
		own := pubs[proc].Chain
		if i := pc.N - k + 1; i >= 1 {
			actions.SetNextSyncCid(own.Prev(own.Cids[i]))
		}
	}
	dst := lsys.NewStore()
	seg := int64(-1)
	if pc.Seg > 0 {
		seg = int64(pc.Seg)
	}
	sub, err := dagsync.NewSubscriber(nil, dst.LinkSystem(), dagsync.BlockHook(hook), dagsync.SegmentDepthLimit(seg), dagsync.HttpTimeout(30*time.Second))
	if err != nil {
		return "infra", err.Error(), ob
	}
	defer sub.Close()
	ctx, cancel := context.WithTimeout(context.Background(), 40*time.Second)
	defer cancel()
	done := map[string]chan struct{}{}
	for name := range pubs {
		done[name] = make(chan struct{})
	}
	startSync := func(name string) {
		p := pubs[name]
		go func() {
			defer close(done[name])
			if _, err := sub.SyncAdChain(ctx, p.AddrInfo()); err != nil {
				mu.Lock()
				ob.Errs[name] = err.Error()
				mu.Unlock()
			}
		}()
	}
	started := map[string]bool{}
	pending := map[string]*arrival{}
	finished := map[string]bool{}
	releaseAll := func() { // let everything run out (after a divergence or at the end)
		cancel()
		for _, a := range pending {
			if a != nil {
				close(a.release)
			}
		}
		for {
			allDone := true
			for name := range pubs {
				if !started[name] {
					continue
				}
				select {
				case <-done[name]:
				default:
					allDone = false
				}
			}
			if allDone {
				return
			}
			select {
			case a := <-arrive:
				close(a.release)
			case <-time.After(20 * time.Millisecond):
			}
		}
	}
	// waitFor: the next gate sync p reaches, or its end
	waitFor := func(p string) (*arrival, bool) {
		if a := pending[p]; a != nil {
			return a, true
		}
		to := time.After(15 * time.Second)
		for {
			select {
			case a := <-arrive:
				got := a
				pending[got.proc] = &got
				if got.proc == p {
					return &got, true
				}
			case <-done[p]:
				finished[p] = true
				return nil, true
			case <-to:
				return nil, false
			}
		}
	}
	stepNo := map[string]int{}
	steps := pairSteps(pc.Seg, pc.N)
	for _, p := range pc.Order {
		if steps[stepNo[p]] == "S" {
			// the call is made now; the step is over when the sync stands at its first request
			stepNo[p]++
			started[p] = true
			ob.Steps = append(ob.Steps, p+"S")
			startSync(p)
			if _, ok := waitFor(p); !ok {
				releaseAll()
				return "infra", fmt.Sprintf("sync %s did not reach its first request within 15 s", p), ob
			}
			continue
		}
		a, ok := waitFor(p)
		if !ok {
			releaseAll()
			return "infra", fmt.Sprintf("sync %s did not reach its next step within 15 s (released so far: %v)", p, ob.Steps), ob
		}
		want := steps[stepNo[p]]
		if a == nil || a.kind != want {
			got := "its end"
			if a != nil {
				got = a.kind
			}
			releaseAll()
			mu.Lock()
			e := ob.Errs[p]
			mu.Unlock()
			return "pair-step", fmt.Sprintf("sync %s: step %d is %s in the model, the sync reached %s (error %q)", p, stepNo[p]+1, want, got, e), ob
		}
		stepNo[p]++
		ob.Steps = append(ob.Steps, p+want)
		pending[p] = nil
		close(a.release)
		// the step is over when the sync stands at its next gate, or has returned
		if _, ok := waitFor(p); !ok {
			releaseAll()
			return "infra", fmt.Sprintf("sync %s did not get from step %d to the next within 15 s", p, stepNo[p]), ob
		}
	}
	releaseAll()
	mu.Lock()
	defer mu.Unlock()
	for name := range pubs {
		if e := ob.Errs[name]; e != "" {
			return "pair-sync-failed", fmt.Sprintf("sync %s: %s", name, e), ob
		}
		var want []string
		for _, i := range pc.Rep[name] {
			want = append(want, fmt.Sprintf("%s%d", name, i))
		}
		if strings.Join(ob.Rep[name], " ") != strings.Join(want, " ") {
			return "pair-hook-blocks", fmt.Sprintf("the hook calls of sync %s were for %v, its chain is %v (other sync: %v); steps %v", name, ob.Rep[name], want, ob.Rep, ob.Steps), ob
		}
	}
	if a := dst.Audit(); len(a) != 0 {
		return "store-holds-unverified-block", fmt.Sprint(a), ob
	}
	return "", "", ob
}

// RunPairs is "harness c01pair".
func RunPairs(args []string) *rep.Report {
	fs := flag.NewFlagSet("c01pair", flag.ExitOnError)
	file := fs.String("cases", "", "ndjson behaviours exported by TLC (SyncPair)")
	shard := fs.String("shard", "", "i/n (internal)")
	procs := fs.Int("procs", runtime.NumCPU(), "worker processes")
	sample := fs.Int("sample", 1, "run every n-th behaviour (offset by seed)")
	seed := fs.Int("seed", 0, "sampling offset")
	fs.Parse(args)
	if *shard == "" {
		return rep.RunSharded("c01pair", args, *procs)
	}
	si, sn := rep.ParseShard(*shard)
	r := rep.New()
	if si%2 == 1 {
		// every other worker process runs its goroutines on one processor: what one sync releases (a pooled buffer, say) is then
		// what the other sync picks up next
		runtime.GOMAXPROCS(1)
	}
	pubs := map[int]map[string]*chain.Pub{}
	getPubs := func(n int) (map[string]*chain.Pub, error) {
		if p, ok := pubs[n]; ok {
			return p, nil
		}
		m := map[string]*chain.Pub{}
		for _, name := range []string{"A", "B"} {
			ch, err := chain.Build("ads", n, "c01-pair-"+name)
			if err != nil {
				return nil, err
			}
			p, err := chain.NewPub(ch, fmt.Sprintf("c01-pair-pub-%s-%d", name, n), true)
			if err != nil {
				return nil, err
			}
			m[name] = p
		}
		pubs[n] = m
		return m, nil
	}
	defer func() {
		for _, m := range pubs {
			for _, p := range m {
				p.Close()
			}
		}
	}()
	idx := -1
	err := rep.ReadNDJSON(*file, func(line []byte) error {
		idx++
		if (idx+*seed)%*sample != 0 || (idx / *sample)%sn != si {
			return nil
		}
		if len(r.Divergences) >= 4 {
			r.AddExtra("skipped_after_divergences", 1)
			return nil
		}
		pc := new(pairCase)
		if err := json.Unmarshal(line, pc); err != nil {
			return err
		}
		ps, err := getPubs(pc.N)
		if err != nil {
			return err
		}
		r.Eval(true)
		if idx%499 == 0 {
			r.Sample(pc)
		}
		k, d, ob := replayPair(pc, ps)
		if k == "infra" {
			r.Inconclusive++
			r.SetExtra("infra_example", d)
			return nil
		}
		if k != "" {
			if k2, _, _ := replayPair(pc, ps); k2 != k { // confirm before alarm
				r.Inconclusive++
				return nil
			}
			r.Diverge(rep.Divergence{Key: k, Case: pc, Observed: ob, Detail: d})
		}
		return nil
	})
	if err != nil {
		r.SetExtra("read_error", err.Error())
	}
	return r
}
