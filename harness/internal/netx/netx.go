// Package netx starts the harness's test servers on the IPv4 loopback and waits when no port is free.
//
// Thousands of runs in a row, each with servers and clients of its own, leave tens of thousands of sockets in TIME_WAIT; when
// several checks run side by side the 28 000 ephemeral ports can all be taken for a minute.  httptest.NewServer then falls back
// on [::1] (which the runs are not set up for) and a Publisher's own listener fails.  Neither says anything about the library:
// the helpers here wait for a port instead (TIME_WAIT lasts 60 s) and only then give up with an infrastructure failure.
package netx

import (
	"net"
	"net/http"
	"net/http/httptest"
	"strings"
	"time"
)

const patience = 3 * time.Minute

// Listen returns a listener on 127.0.0.1 with a port chosen by the kernel.
func Listen() net.Listener {
	deadline := time.Now().Add(patience)
	for {
		l, err := net.Listen("tcp4", "127.0.0.1:0")
		if err == nil {
			return l
		}
		if time.Now().After(deadline) {
			panic("infrastructure: no IPv4 loopback port available for a test server after " + patience.String() + " (" + err.Error() + ")")
		}
		time.Sleep(500 * time.Millisecond)
	}
}

// NewServer is httptest.NewServer on the IPv4 loopback.
func NewServer(h http.Handler) *httptest.Server {
	srv := &httptest.Server{Listener: Listen(), Config: &http.Server{Handler: h}}
	srv.Start()
	return srv
}

// Retry runs start (which opens a listener inside the library) until it no longer fails for want of a port.
func Retry[T any](start func() (T, error)) (T, error) {
	deadline := time.Now().Add(patience)
	for {
		v, err := start()
		if err == nil || !NoPort(err) || time.Now().After(deadline) {
			return v, err
		}
		time.Sleep(500 * time.Millisecond)
	}
}

// NoPort tells whether err is the kernel having no local port to give.
func NoPort(err error) bool {
	s := err.Error()
	return strings.Contains(s, "address already in use") || strings.Contains(s, "cannot assign requested address")
}
