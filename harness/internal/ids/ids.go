// Package ids gives the harness deterministic concrete identities for the model's atoms.
package ids

import (
	"crypto/sha256"
	"fmt"
	"sync"

	"github.com/libp2p/go-libp2p/core/crypto"
	"github.com/libp2p/go-libp2p/core/peer"
	"github.com/multiformats/go-multiaddr"
)

type detReader struct {
	state [32]byte
	buf   []byte
}

func (d *detReader) Read(p []byte) (int, error) {
	n := 0
	for n < len(p) {
		if len(d.buf) == 0 {
			d.state = sha256.Sum256(d.state[:])
			d.buf = append([]byte(nil), d.state[:]...)
		}
		c := copy(p[n:], d.buf)
		d.buf = d.buf[c:]
		n += c
	}
	return n, nil
}

var (
	mu    sync.Mutex
	keys  = map[string]crypto.PrivKey{}
	peers = map[string]peer.ID{}
)

// Key returns a deterministic Ed25519 key for the atom name.
func Key(name string) crypto.PrivKey {
	mu.Lock()
	defer mu.Unlock()
	if k, ok := keys[name]; ok {
		return k
	}
	r := &detReader{state: sha256.Sum256([]byte("verif-key-" + name))}
	k, _, err := crypto.GenerateEd25519Key(r)
	if err != nil {
		panic(err)
	}
	keys[name] = k
	return k
}

// KeyT returns a deterministic key of the given libp2p key type ("ed25519", "secp256k1", "ecdsa", "rsa" = RSA-2048, "rsa4096").
func KeyT(name, typ string) crypto.PrivKey {
	if typ == "" || typ == "ed25519" {
		return Key(name)
	}
	mu.Lock()
	defer mu.Unlock()
	id := typ + "/" + name
	if k, ok := keys[id]; ok {
		return k
	}
	r := &detReader{state: sha256.Sum256([]byte("verif-key-" + id))}
	var k crypto.PrivKey
	var err error
	switch typ {
	case "secp256k1":
		k, _, err = crypto.GenerateSecp256k1Key(r)
	case "ecdsa":
		k, _, err = crypto.GenerateECDSAKeyPair(r)
	case "rsa":
		k, _, err = crypto.GenerateRSAKeyPair(2048, r)
	case "rsa4096":
		k, _, err = crypto.GenerateRSAKeyPair(4096, r)
	default:
		panic("unknown key type " + typ)
	}
	if err != nil {
		panic(err)
	}
	keys[id] = k
	return k
}

// PeerT returns the peer ID of KeyT(name, typ).
func PeerT(name, typ string) peer.ID {
	p, err := peer.IDFromPrivateKey(KeyT(name, typ))
	if err != nil {
		panic(err)
	}
	return p
}

// Peer returns the peer ID of Key(name).
func Peer(name string) peer.ID {
	k := Key(name)
	mu.Lock()
	defer mu.Unlock()
	if p, ok := peers[name]; ok {
		return p
	}
	p, err := peer.IDFromPrivateKey(k)
	if err != nil {
		panic(err)
	}
	peers[name] = p
	return p
}

// Addr returns a distinct public-looking multiaddr per atom name.
func Addr(name string) multiaddr.Multiaddr {
	h := sha256.Sum256([]byte(name))
	return multiaddr.StringCast(fmt.Sprintf("/ip4/8.%d.%d.%d/tcp/%d", h[0], h[1], h[2]|1, 1024+int(h[3])))
}

// nestKey signs like the key it wraps, after having run `before`: what else may happen between the moment a payload to be
// signed has been encoded and the moment its signature is made (other values being signed by the same code).
type nestKey struct {
	crypto.PrivKey
	before func()
}

func (n nestKey) Sign(b []byte) ([]byte, error) {
	n.before()
	return n.PrivKey.Sign(b)
}

// Nest wraps k so that before runs inside every Sign.
func Nest(k crypto.PrivKey, before func()) crypto.PrivKey { return nestKey{k, before} }
