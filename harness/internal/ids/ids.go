// Package ids gives the harness deterministic concrete identities for the model's atoms.
package ids

import (
	"crypto/sha256"
	"fmt"
	"sync"

	"github.com/libp2p/go-libp2p/core/crypto"
	"github.com/libp2p/go-libp2p/core/peer"
	"github.com/multiformats/go-multiaddr"
)

type detReader struct {
	state [32]byte
	buf   []byte
}

func (d *detReader) Read(p []byte) (int, error) {
	n := 0
	for n < len(p) {
		if len(d.buf) == 0 {
			d.state = sha256.Sum256(d.state[:])
			d.buf = append([]byte(nil), d.state[:]...)
		}
		c := copy(p[n:], d.buf)
		d.buf = d.buf[c:]
		n += c
	}
	return n, nil
}

var (
	mu    sync.Mutex
	keys  = map[string]crypto.PrivKey{}
	peers = map[string]peer.ID{}
)

// Key returns a deterministic Ed25519 key for the atom name.
func Key(name string) crypto.PrivKey {
	mu.Lock()
	defer mu.Unlock()
	if k, ok := keys[name]; ok {
		return k
	}
	r := &detReader{state: sha256.Sum256([]byte("verif-key-" + name))}
	k, _, err := crypto.GenerateEd25519Key(r)
	if err != nil {
		panic(err)
	}
	keys[name] = k
	return k
}

// Peer returns the peer ID of Key(name).
func Peer(name string) peer.ID {
	k := Key(name)
	mu.Lock()
	defer mu.Unlock()
	if p, ok := peers[name]; ok {
		return p
	}
	p, err := peer.IDFromPrivateKey(k)
	if err != nil {
		panic(err)
	}
	peers[name] = p
	return p
}

// Addr returns a distinct public-looking multiaddr per atom name.
func Addr(name string) multiaddr.Multiaddr {
	h := sha256.Sum256([]byte(name))
	return multiaddr.StringCast(fmt.Sprintf("/ip4/8.%d.%d.%d/tcp/%d", h[0], h[1], h[2]|1, 1024+int(h[3])))
}
