// Package sub drives a real dagsync.Subscriber through seeded random schedules with the gate scheduler
// and records the trace that TLC validates against spec/SubscriberTrace.tla (C08, C14, C15).
package sub

import (
	"context"
	"encoding/json"
	"flag"
	"fmt"
	"math/rand"
	"net/http"
	"os"
	"runtime"
	"strings"
	"sync"
	"time"

	"github.com/ipfs/go-cid"
	cidlink "github.com/ipld/go-ipld-prime/linking/cid"
	"github.com/ipni/go-libipni/announce"
	"github.com/ipni/go-libipni/dagsync"
	"github.com/libp2p/go-libp2p/core/peer"

	"verifharness/internal/chain"
	"verifharness/internal/gate"
	"verifharness/internal/lsys"
	"verifharness/internal/rep"
)

type Scenario struct {
	Pubs      int   `json:"pubs"`
	Ads       int   `json:"ads"`
	Sem       int   `json:"sem"`
	Explicit  int   `json:"explicit"`  // explicit syncs (queried head) per publisher
	Listeners int   `json:"listeners"` // listeners registered at random points
	Cancels   int   `json:"cancels"`   // how many of them are cancelled at random points
	Closers   int   `json:"closers"`   // concurrent Close calls at a random point (0 = close only at the end)
	Separate  bool  `json:"separate"`  // explicit syncs go to the last publisher, which is never announced
	Faults    int   `json:"faults"`    // block requests answered with status 500 (seeded choice), failed heads are announced again
	XCancel   bool  `json:"xcancel"`   // explicit syncs run under a context that is cancelled at a random point
	Entries   int   `json:"entries"`   // entries syncs per publisher (of a chunk chain the publisher also serves), started at random points
	Scoped    bool  `json:"scoped"`    // explicit syncs bring their own (scoped) block hook
	Seg       int   `json:"seg"`       // segment depth limit of the subscriber (0: unsegmented)
	LateReg   bool  `json:"latereg"`   // listeners may be registered after Close has started
	Readers   bool  `json:"readers"`   // listeners are read by fast and slow readers during the run (otherwise: stalled, read at the end)
	Resync    bool  `json:"resync"`    // every other explicit sync is a resync (WithAdsResync): the chain is reported again, the head recorded and notified again
	Deny      bool  `json:"deny"`      // each head is first announced while the receiver's allow filter refuses its publisher (nothing may come of it), then allowed
	HookSync  bool  `json:"hooksync"`  // the block hook of the first explicit sync starts an explicit sync of another publisher and waits for it
	Idle      int   `json:"idle"`      // > 0: the idle handler TTL is 2 ms and the idle handler cleaner runs this many times at random points
	Seed      int64 `json:"seed"`
	Patience  int   `json:"patience,omitempty"` // watchdog multiplier (confirmation run of a hang)
}

// StragglerRuns counts the runs in which the driver had to wait for a goroutine the scheduler had lost track of.
var StragglerRuns int

type envAction struct {
	kind string
	p, k int
}

type listener struct {
	out        <-chan dagsync.SyncFinished
	cancel     context.CancelFunc
	ready      bool
	cancelling bool
	// reader kind: 0 = stalled (read only at the end of the run), 1 = fast, 2 = slow (both read in a goroutine of
	// their own while the run goes on)
	mode   int
	mu     sync.Mutex
	got    []dagsync.SyncFinished
	closed chan struct{}
}

func (l *listener) read() {
	defer close(l.closed)
	for ev := range l.out {
		l.mu.Lock()
		l.got = append(l.got, ev)
		l.mu.Unlock()
		if l.mode == 2 {
			time.Sleep(300 * time.Microsecond)
		}
	}
}

type run struct {
	sc         Scenario
	s          *gate.Sched
	pubs       []*chain.Pub
	sub        *dagsync.Subscriber
	dst        *lsys.Store
	lst        []*listener
	closed     bool
	announced  []int // last announced head per publisher
	fmu        sync.Mutex
	failed     map[[2]int]bool // (publisher, head) whose announce-triggered sync failed and that was not announced again yet
	faultsLeft int
	frng       *rand.Rand
	xmu        sync.Mutex
	explicitG  map[int64]bool   // goroutines running an explicit sync
	denied     map[peer.ID]bool // publishers the allow filter refuses at the moment
	deniedOnce map[[2]int]bool  // heads already announced once while refused
	nested     bool             // the nested sync has been started
}

// NestedPub is the publisher synced from inside a block hook (Scenario.HookSync); it is never announced.
var NestedPub *chain.Pub

// pub returns publisher number p (1-based); the nested target comes after the scenario's publishers.
func (r *run) pub(p int) *chain.Pub {
	if p == len(r.pubs)+1 {
		return NestedPub
	}
	return r.pubs[p-1]
}

func (r *run) pnum(id peer.ID) int {
	for i, p := range r.pubs {
		if p.ID == id {
			return i + 1
		}
	}
	if NestedPub != nil && NestedPub.ID == id {
		return len(r.pubs) + 1
	}
	return 0
}

func (r *run) cnum(p int, c cid.Cid) int {
	if p == 0 || c == cid.Undef {
		return 0
	}
	if i, ok := r.pub(p).Chain.Index[c]; ok {
		return i
	}
	return -1
}

// entHeads: per publisher the head of the entry-chunk chain it serves besides its advertisements
var entHeads = map[peer.ID]cid.Cid{}

var syncFrames = []string{"dagsync.(*handler).asyncSyncAdChain", "dagsync.(*handler).handle", "dagsync.(*Subscriber).SyncAdChain", "dagsync.(*Subscriber).watch.func"}

const idleTTL = 2 * time.Millisecond

// maybeNested: called from the block hook.  In a HookSync scenario the first block an explicit sync reports makes the hook
// start an explicit sync of another publisher (NestedPub) and wait for it before it returns -- what an application does that
// reacts to an advertisement by syncing something else.  The waiting hook parks at the scheduler ("x.wait") so that everything
// else can go on, Close included.
func (r *run) maybeNested(p int) {
	if !r.sc.HookSync || NestedPub == nil || p == len(r.pubs)+1 {
		return
	}
	r.xmu.Lock()
	start := !r.nested && r.explicitG[gate.Goid()]
	if start {
		r.nested = true
	}
	r.xmu.Unlock()
	if !start {
		return
	}
	s := r.s
	np := len(r.pubs) + 1
	done := make(chan struct{})
	s.RecordG(gate.Event{Ev: "env.nested", P: np})
	s.Go("nested", func() {
		defer close(done)
		s.RecordG(gate.Event{Ev: "env.explicit.start", P: np})
		c, err := r.sub.SyncAdChain(context.Background(), NestedPub.AddrInfo())
		s.RecordG(gate.Event{Ev: "env.explicit.ret", P: np, C: r.cnum(np, c), Err: err != nil})
	})
	for {
		select {
		case <-done:
			return
		default:
		}
		s.Yield("x.wait", 0, 0)
	}
}

// parkedWork returns the parked goroutines except the idle handler cleaner, which parks at every tick of its timer for as
// long as the subscriber lives and is released by the environment action "clean".
func (r *run) parkedWork() []int64 {
	ids := r.s.ParkedIDs()
	if c := r.s.ParkedAt("i.tick"); c != 0 {
		out := ids[:0]
		for _, g := range ids {
			if g != c {
				out = append(out, g)
			}
		}
		return out
	}
	return ids
}

// cleanPasses lets the idle handler cleaner make two passes.  The time of a tick is taken when the timer fires, not when the
// parked cleaner is released, so the first pass may judge the handlers against an old tick; the tick of the second pass is
// later than the end of the first.
func (r *run) cleanPasses() string {
	s := r.s
	for pass := 0; pass < 2; pass++ {
		deadline := time.Now().Add(3 * s.Watchdog)
		var c int64
		for c = s.ParkedAt("i.tick"); c == 0; c = s.ParkedAt("i.tick") {
			if time.Now().After(deadline) {
				return "the idle handler cleaner did not tick"
			}
			time.Sleep(200 * time.Microsecond)
			s.Settle()
		}
		time.Sleep(idleTTL) // anything released before this point has expired at the next tick
		s.Release(c)
		if !s.Settle() && !s.Settle() && !s.Settle() {
			return "the idle handler cleaner did not finish its pass: " + s.Hang
		}
	}
	return ""
}

// Execute runs one scenario and returns the trace plus a divergence (hang etc.) if the run itself failed.
func Execute(sc Scenario, pubs []*chain.Pub) (log []gate.Event, key, detail string) {
	r := &run{sc: sc, s: gate.New(sc.Seed), pubs: pubs, dst: lsys.NewStore(), announced: make([]int, len(pubs)),
		failed: map[[2]int]bool{}, explicitG: map[int64]bool{}, denied: map[peer.ID]bool{}, deniedOnce: map[[2]int]bool{}, faultsLeft: sc.Faults, frng: rand.New(rand.NewSource(sc.Seed ^ 0x5eed))}
	s := r.s
	if sc.Patience > 1 {
		s.Watchdog *= time.Duration(sc.Patience)
	}
	passthrough := false
	dagsync.VerifYield = func(point string, pid peer.ID, c cid.Cid) {
		if passthrough {
			return
		}
		p := r.pnum(pid)
		if point == "i.removed" {
			// inside the cleaner's pass, which holds the handlers' mutex: recorded, not parked (the cleaner is the one goroutine running)
			s.RecordG(gate.Event{Ev: point, P: p})
			return
		}
		if point == "g.failed" {
			r.fmu.Lock()
			r.failed[[2]int{p, r.cnum(p, c)}] = true
			r.fmu.Unlock()
		}
		s.Yield(point, p, r.cnum(p, c))
	}
	defer func() { dagsync.VerifYield = nil }()
	for _, p := range pubs {
		p.Reset(0)
		p.Intercept = nil
		if sc.Faults > 0 {
			// a seeded choice of block requests is answered with status 500
			p.Intercept = func(w http.ResponseWriter, req *http.Request, seq int) bool {
				if strings.HasSuffix(req.URL.Path, "/head") {
					return false
				}
				r.fmu.Lock()
				fail := r.faultsLeft > 0 && r.frng.Intn(3) == 0
				if fail {
					r.faultsLeft--
				}
				r.fmu.Unlock()
				if fail {
					http.Error(w, "injected", http.StatusInternalServerError)
				}
				return fail
			}
		}
	}
	defer func() {
		for _, p := range pubs {
			p.Intercept = nil
		}
	}()
	if sc.HookSync && NestedPub != nil {
		NestedPub.Reset(0)
		NestedPub.Intercept = nil
		NestedPub.Pub.SetRoot(NestedPub.Chain.Cids[sc.Ads])
	}
	if sc.Separate {
		last := pubs[len(pubs)-1]
		last.Pub.SetRoot(last.Chain.Cids[sc.Ads])
		r.announced[len(pubs)-1] = 0
	}
	hook := func(pid peer.ID, c cid.Cid, actions dagsync.SegmentSyncActions) {
		p := r.pnum(pid)
		s.RecordG(gate.Event{Ev: "hook", P: p, C: r.cnum(p, c)})
		actions.SetNextSyncCid(r.pub(p).Chain.Prev(c))
		r.maybeNested(p)
	}
	allow := func(p peer.ID) bool {
		r.xmu.Lock()
		defer r.xmu.Unlock()
		return !r.denied[p]
	}
	opts := []dagsync.Option{dagsync.BlockHook(hook), dagsync.RecvAnnounce("", announce.WithAllowPeer(allow)), dagsync.HttpTimeout(5 * time.Second)}
	if sc.Sem > 0 {
		opts = append(opts, dagsync.MaxAsyncConcurrency(sc.Sem))
	}
	if sc.Seg > 0 {
		opts = append(opts, dagsync.SegmentDepthLimit(int64(sc.Seg)))
	}
	if sc.Idle > 0 {
		opts = append(opts, dagsync.IdleHandlerTTL(idleTTL))
	}
	s.Record(gate.Event{Ev: "reset", N: sc.Sem, P: sc.Pubs, C: sc.Ads, G: sc.Seg})
	// NewSubscriber starts the watcher, the distributor and the cleaner: they park at their first hooks.
	var err error
	s.Go("new", func() { r.sub, err = dagsync.NewSubscriber(nil, r.dst.LinkSystem(), opts...) })
	if !s.Settle() {
		return s.Log, "hang", "NewSubscriber: " + s.Hang
	}
	if err != nil || r.sub == nil {
		return s.Log, "infra", fmt.Sprint(err)
	}
	// the goroutines NewSubscriber started (announcement watcher, event distributor) may not have been scheduled yet on a busy
	// machine: the run begins once both are parked at their first hooks
	for deadline := time.Now().Add(3 * s.Watchdog); len(s.ParkedIDs()) < 2; {
		if time.Now().After(deadline) {
			return s.Log, "infra", "the subscriber's watcher / distributor did not reach their first hooks"
		}
		time.Sleep(50 * time.Microsecond)
		s.Settle()
	}
	if sc.Closers > 0 {
		// "nothing to sync": the entries entry points called without a CID return at once -- and leave nothing behind that a
		// later Close would wait for
		for _, f := range []func() error{
			func() error { return r.sub.SyncEntries(context.Background(), pubs[0].AddrInfo(), cid.Undef) },
			func() error { return r.sub.SyncOneEntry(context.Background(), pubs[0].AddrInfo(), cid.Undef) },
			func() error { return r.sub.SyncHAMTEntries(context.Background(), pubs[0].AddrInfo(), cid.Undef) },
		} {
			f := f
			s.Go("entries-undef", func() { f() })
			if !s.Settle() {
				return s.Log, "hang", "an entries sync without a CID did not return: " + s.Hang
			}
		}
		for _, g := range s.ParkedIDs() { // whatever hooks these calls stopped at (none in the code as it is)
			if g != s.ParkedAt("w.next") && g != s.ParkedAt("d.select") {
				s.Release(g)
				s.Settle()
			}
		}
	}
	// environment actions, in a seeded random interleaving with goroutine releases
	var todo []envAction
	nextAd := make([]int, sc.Pubs)
	expLeft := make([]int, sc.Pubs)
	entLeft := make([]int, sc.Pubs)
	for i := range expLeft {
		expLeft[i] = sc.Explicit
		if _, ok := entHeads[pubs[i].ID]; ok {
			entLeft[i] = sc.Entries
		}
	}
	regLeft, cancelLeft, closeLeft, cleanLeft := sc.Listeners, sc.Cancels, sc.Closers, sc.Idle
	var xcancels []context.CancelFunc // contexts of explicit syncs not cancelled yet
	xnum := 0
	available := func() []envAction {
		todo = todo[:0]
		if r.closed {
			// while Close is under way a listener may still be registered (it gets what is still delivered, or a closed
			// channel once the distributor has gone)
			inflight := false
			for _, l := range r.lst {
				inflight = inflight || !l.ready || l.cancelling
			}
			if regLeft > 0 && !inflight && sc.LateReg {
				todo = append(todo, envAction{"reg", 0, 0})
			}
			return todo
		}
		if sc.Ads > 10 && regLeft > 0 { // long runs: the stalled listener is registered before anything is announced
			inflight := false
			for _, l := range r.lst {
				inflight = inflight || !l.ready
			}
			if !inflight {
				todo = append(todo, envAction{"reg", 0, 0})
			}
			return todo
		}
		for p := 0; p < sc.Pubs; p++ {
			if sc.Separate && p == sc.Pubs-1 {
				if expLeft[p] > 0 {
					todo = append(todo, envAction{"explicit", p + 1, 0})
				}
				continue
			}
			if nextAd[p] < sc.Ads {
				if sc.Deny && !r.deniedOnce[[2]int{p + 1, nextAd[p] + 1}] {
					todo = append(todo, envAction{"deny", p + 1, nextAd[p] + 1})
				} else {
					todo = append(todo, envAction{"ann", p + 1, nextAd[p] + 1})
				}
			}
			r.fmu.Lock()
			if nextAd[p] > 0 && r.failed[[2]int{p + 1, nextAd[p]}] {
				todo = append(todo, envAction{"ann", p + 1, nextAd[p]}) // announce the failed head again
			}
			r.fmu.Unlock()
			if entLeft[p] > 0 && nextAd[p] > 0 && !sc.Separate {
				todo = append(todo, envAction{"entries", p + 1, 0})
			}
			if expLeft[p] > 0 && nextAd[p] > 0 && !sc.Separate {
				todo = append(todo, envAction{"explicit", p + 1, 0})
			}
		}
		// one registration / cancellation in flight at a time, so that the distributor's add / rm steps are attributable
		inflight := false
		for _, l := range r.lst {
			if !l.ready || l.cancelling {
				inflight = true
			}
		}
		if regLeft > 0 && !inflight {
			todo = append(todo, envAction{"reg", 0, 0})
		}
		if cancelLeft > 0 && !inflight {
			for i, l := range r.lst {
				if l.ready && l.cancel != nil {
					todo = append(todo, envAction{"cancel", 0, i + 1})
					break
				}
			}
		}
		if closeLeft > 0 {
			todo = append(todo, envAction{"close", 0, 0})
		}
		if len(xcancels) > 0 {
			todo = append(todo, envAction{"xcancel", 0, 0})
		}
		if cleanLeft > 0 {
			todo = append(todo, envAction{"clean", 0, 0})
		}
		return todo
	}
	ctx := context.Background()
	stragglerWaits, waitSpins := 0, 0
	lastProgress := time.Now()
	for step := 0; step < 4000+80*sc.Ads*sc.Pubs; step++ {
		parked := r.parkedWork()
		env := available()
		if len(parked) == 0 && len(env) == 1 && env[0].kind == "clean" {
			env = nil // nothing but the cleaner is left: the last passes follow the run
		}
		if len(parked) != 0 || len(env) != 0 {
			lastProgress = time.Now()
		}
		// a block hook that waits for the call it made, and nothing else left that could move: the call never returns
		if w := s.ParkedAt("x.wait"); w != 0 && len(parked) == 1 && parked[0] == w && len(env) == 0 {
			waitSpins++
			time.Sleep(time.Millisecond)
			if waitSpins > 400 {
				_, _, stacks := s.Unfinished(append([]string{"dagsync.(*Subscriber).doClose", "dagsync.(*Subscriber).Close"}, syncFrames...))
				key, detail = "hang", "a sync started from inside a block hook never returned, and nothing else is left to run:\n"+stacks
				break
			}
		} else {
			waitSpins = 0
		}
		if len(parked) == 0 && len(env) == 0 {
			// really over?  a sync goroutine that is neither parked nor blocked is still on its way to a hook
			// (or waits for a lock that a goroutine the scheduler does not track holds for a moment)
			moving, blocked, stacks := s.Unfinished(syncFrames)
			if moving+blocked > 0 && time.Since(lastProgress) < 8*time.Second {
				stragglerWaits++
				time.Sleep(100 * time.Microsecond)
				s.Settle()
				step--
				continue
			}
			if blocked > 0 && !r.closed {
				key, detail = "hang", "nothing is parked and nothing is left to do, but a sync is still waiting in a primitive of the library:\n"+stacks
			}
			break
		}
		// favour releases 3:1 so that syncs make progress between announcements
		w := 3
		if sc.Ads > 10 { // long runs: mostly one sync after the other, so that the notifications pile up
			w = 40
		}
		pick := s.Rng.Intn(w*len(parked) + len(env))
		if pick < w*len(parked) {
			s.Release(parked[pick/w])
		} else {
			a := env[pick-w*len(parked)]
			switch a.kind {
			case "ann":
				p := pubs[a.p-1]
				nextAd[a.p-1] = a.k
				r.announced[a.p-1] = a.k
				r.fmu.Lock()
				delete(r.failed, [2]int{a.p, a.k})
				r.fmu.Unlock()
				p.Pub.SetRoot(p.Chain.Cids[a.k])
				s.Record(gate.Event{Ev: "env.announce", P: a.p, C: a.k})
				c := p.Chain.Cids[a.k]
				s.Go("announce", func() {
					err := r.sub.Announce(ctx, c, p.AddrInfo())
					s.RecordG(gate.Event{Ev: "env.announce.ret", P: a.p, C: a.k, Err: err != nil})
				})
			case "deny":
				// the head is announced while the allow filter refuses its publisher: the announcement is ignored, and it leaves
				// nothing behind that would make the receiver drop the same head when it is announced again
				p := pubs[a.p-1]
				r.deniedOnce[[2]int{a.p, a.k}] = true
				r.xmu.Lock()
				r.denied[p.ID] = true
				r.xmu.Unlock()
				c := p.Chain.Cids[a.k]
				s.Go("announce-denied", func() {
					err := r.sub.Announce(ctx, c, p.AddrInfo())
					r.xmu.Lock()
					r.denied[p.ID] = false
					r.xmu.Unlock()
					s.RecordG(gate.Event{Ev: "env.announce.denied", P: a.p, C: a.k, Err: err != nil})
				})
			case "explicit":
				expLeft[a.p-1]--
				p := pubs[a.p-1]
				s.Record(gate.Event{Ev: "env.explicit", P: a.p})
				xctx := ctx
				if sc.XCancel {
					var cf context.CancelFunc
					xctx, cf = context.WithCancel(ctx)
					xcancels = append(xcancels, cf)
				}
				var sopts []dagsync.SyncOption
				xnum++
				xk := xnum
				if sc.Resync && xk%2 == 0 {
					sopts = append(sopts, dagsync.WithAdsResync(true))
				}
				if sc.Scoped {
					// the sync's own block hook: it must see exactly the blocks of this sync
					sopts = append(sopts, dagsync.ScopedBlockHook(func(pid peer.ID, c cid.Cid, actions dagsync.SegmentSyncActions) {
						pn := r.pnum(pid)
						s.RecordG(gate.Event{Ev: "hook", P: pn, C: r.cnum(pn, c), N: xk})
						actions.SetNextSyncCid(pubs[pn-1].Chain.Prev(c))
					}))
				}
				s.Go("explicit", func() {
					own := 0
					if sc.Scoped {
						own = xk
					}
					s.RecordG(gate.Event{Ev: "env.explicit.start", P: a.p, N: own})
					r.xmu.Lock()
					r.explicitG[gate.Goid()] = true
					r.xmu.Unlock()
					c, err := r.sub.SyncAdChain(xctx, p.AddrInfo(), sopts...)
					s.RecordG(gate.Event{Ev: "env.explicit.ret", P: a.p, C: r.cnum(a.p, c), Err: err != nil})
				})
			case "entries":
				// the entries of the publisher are fetched: a sync of that publisher like any other -- it waits for the publisher's
				// lock, and its hook calls go to its own hook
				entLeft[a.p-1]--
				p := pubs[a.p-1]
				s.Record(gate.Event{Ev: "env.entries", P: a.p})
				xnum++
				xk := xnum
				hook := dagsync.ScopedBlockHook(func(pid peer.ID, c cid.Cid, _ dagsync.SegmentSyncActions) {
					pn := r.pnum(pid)
					s.RecordG(gate.Event{Ev: "hook", P: pn, C: r.cnum(pn, c), N: xk})
				})
				s.Go("entries", func() {
					s.RecordG(gate.Event{Ev: "env.explicit.start", P: a.p, N: xk})
					r.xmu.Lock()
					r.explicitG[gate.Goid()] = true
					r.xmu.Unlock()
					err := r.sub.SyncEntries(ctx, p.AddrInfo(), entHeads[p.ID], hook)
					s.RecordG(gate.Event{Ev: "env.entries.ret", P: a.p, Err: err != nil})
				})
			case "reg":
				regLeft--
				l := &listener{closed: make(chan struct{})}
				r.lst = append(r.lst, l)
				n := len(r.lst)
				if sc.Readers {
					l.mode = (n + int(sc.Seed)) % 3
				}
				s.Record(gate.Event{Ev: "env.reg", N: n})
				s.Go("register", func() {
					l.out, l.cancel = r.sub.OnSyncFinished()
					if l.mode != 0 {
						go l.read()
					}
					l.ready = true
					s.RecordG(gate.Event{Ev: "env.reg.ret", N: n})
				})
			case "cancel":
				cancelLeft--
				l := r.lst[a.k-1]
				cf := l.cancel
				l.cancel = nil
				l.cancelling = true
				s.Record(gate.Event{Ev: "env.cancel", N: a.k})
				s.Go("cancel", func() {
					cf()
					l.cancelling = false
					s.RecordG(gate.Event{Ev: "env.cancel.ret", N: a.k})
				})
			case "clean":
				cleanLeft--
				if why := r.cleanPasses(); why != "" {
					key, detail = "infra", why
				}
			case "xcancel":
				i := s.Rng.Intn(len(xcancels))
				xcancels[i]()
				xcancels = append(xcancels[:i], xcancels[i+1:]...)
				s.Record(gate.Event{Ev: "env.xcancel"})
			case "close":
				n := closeLeft
				closeLeft = 0
				r.closed = true
				for i := 0; i < n; i++ {
					i := i
					s.Record(gate.Event{Ev: "env.close", N: i + 1})
					s.Go("close", func() {
						err := r.sub.Close()
						s.RecordG(gate.Event{Ev: "env.close.ret", N: i + 1, Err: err != nil})
					})
				}
			}
		}
		if key != "" {
			break
		}
		if !s.Settle() && !s.Settle() && !s.Settle() { // three watchdog periods before a goroutine on its way counts as stuck
			key, detail = "hang", fmt.Sprintf("after step %d: a goroutine neither reached a hook, nor returned, nor blocked in a library primitive within %v:\n%s", step, s.Watchdog, s.Hang)
			break
		}
	}
	if key == "" && len(r.parkedWork()) != 0 {
		key, detail = "infra", "step budget exhausted with goroutines still parked"
	}
	if stragglerWaits > 0 {
		StragglerRuns++
	}
	// final observations
	if key == "" {
		for p := range pubs {
			l := 0
			if lk := r.sub.GetLatestSync(pubs[p].ID); lk != nil {
				l = r.cnum(p+1, lk.(cidlink.Link).Cid)
			}
			s.Record(gate.Event{Ev: "final.latest", P: p + 1, C: l, N: r.announced[p]})
		}
		// the handlers that exist now: everything is at rest, so with the cleaner running every handler has been idle
		// for longer than the TTL after the last passes
		if sc.Idle > 0 {
			if why := r.cleanPasses(); why != "" {
				key, detail = "infra", why
			}
		}
		var have []int
		for p := range pubs {
			if r.sub.RemoveHandler(pubs[p].ID) {
				have = append(have, p+1)
			}
		}
		if sc.HookSync && NestedPub != nil && r.sub.RemoveHandler(NestedPub.ID) {
			have = append(have, len(pubs)+1)
		}
		s.Record(gate.Event{Ev: "final.handlers", Q: have})
	}
	// teardown without gating: Close, then drain the listeners until their channels close
	passthrough = true
	s.Drain(50 * time.Millisecond)
	closeDone := make(chan struct{})
	go func() { r.sub.Close(); close(closeDone) }()
	select {
	case <-closeDone:
	case <-time.After(s.Watchdog):
		if key == "" {
			key, detail = "hang", "final Close did not return"
		}
	}
	s.Drain(20 * time.Millisecond)
	if key == "" {
		for i, l := range r.lst {
			if !l.ready {
				continue
			}
			var q []int
			closedCh := false
			add := func(ev dagsync.SyncFinished) {
				p := r.pnum(ev.PeerID)
				e := 0
				if ev.Err != nil {
					e = 1
				}
				q = append(q, p, r.cnum(p, ev.Cid), ev.Count, e)
			}
			to := time.After(3 * time.Second)
			if l.mode != 0 { // read during the run by its own goroutine: wait for the channel to be closed
				select {
				case <-l.closed:
					closedCh = true
				case <-to:
				}
				l.mu.Lock()
				for _, ev := range l.got {
					add(ev)
				}
				l.mu.Unlock()
			}
		drain:
			for l.mode == 0 {
				select {
				case ev, ok := <-l.out:
					if !ok {
						closedCh = true
						break drain
					}
					add(ev)
				case <-to:
					break drain
				}
			}
			s.Record(gate.Event{Ev: "final.listener", N: i + 1, Q: q, Err: !closedCh})
		}
		s.Record(gate.Event{Ev: "final.end"})
	}
	http.DefaultTransport.(*http.Transport).CloseIdleConnections()
	if key == "" {
		key, detail = afterClose(r)
	}
	return s.Log, key, detail
}

// afterClose checks the "final" clauses of C15 on the closed subscriber: every entry point returns
// promptly, listener channels obtained now are closed, and no goroutine of the subscriber remains.
func afterClose(r *run) (string, string) {
	p := r.pubs[0]
	calls := map[string]func() string{
		"SyncAdChain": func() string {
			if _, err := r.sub.SyncAdChain(context.Background(), p.AddrInfo()); err == nil {
				return "SyncAdChain after Close returned no error"
			}
			return ""
		},
		"SyncEntries": func() string {
			if err := r.sub.SyncEntries(context.Background(), p.AddrInfo(), p.Chain.Cids[1]); err == nil {
				return "SyncEntries after Close returned no error"
			}
			return ""
		},
		"SyncOneEntry": func() string {
			before := r.dst.Len()
			if err := r.sub.SyncOneEntry(context.Background(), p.AddrInfo(), p.Chain.Cids[len(p.Chain.Cids)-1]); err == nil {
				return "SyncOneEntry after Close returned no error"
			}
			if r.dst.Len() != before {
				return "SyncOneEntry after Close wrote to the store"
			}
			return ""
		},
		"SyncHAMTEntries": func() string {
			if err := r.sub.SyncHAMTEntries(context.Background(), p.AddrInfo(), p.Chain.Cids[1]); err == nil {
				return "SyncHAMTEntries after Close returned no error"
			}
			return ""
		},
		"Announce": func() string {
			r.sub.Announce(context.Background(), p.Chain.Cids[1], p.AddrInfo())
			return ""
		},
		"OnSyncFinished": func() string {
			ch, cancel := r.sub.OnSyncFinished()
			defer cancel()
			select {
			case _, ok := <-ch:
				if ok {
					return "listener registered after Close received a notification"
				}
			case <-time.After(time.Second):
				return "listener channel obtained after Close is not closed"
			}
			return ""
		},
		"GetLatestSync": func() string { r.sub.GetLatestSync(p.ID); return "" },
		"RemoveHandler": func() string { r.sub.RemoveHandler(p.ID); return "" },
		"Close":         func() string { r.sub.Close(); return "" },
	}
	for _, name := range []string{"SyncAdChain", "SyncEntries", "SyncOneEntry", "SyncHAMTEntries", "Announce", "OnSyncFinished", "GetLatestSync", "RemoveHandler", "Close"} {
		done := make(chan string, 1)
		go func() { done <- calls[name]() }()
		select {
		case msg := <-done:
			if msg != "" {
				return "api-after-close", msg
			}
		case <-time.After(12 * time.Second):
			return "api-after-close-blocks", name + " did not return within 12s after Close"
		}
	}
	deadline := time.Now().Add(8 * time.Second)
	for {
		buf := make([]byte, 1<<20)
		n := runtime.Stack(buf, true)
		leak := ""
		for _, blk := range strings.Split(string(buf[:n]), "\n\n") {
			if strings.Contains(blk, "dagsync.(*Subscriber)") || strings.Contains(blk, "dagsync.(*handler)") || strings.Contains(blk, "announce.(*Receiver)") {
				leak = blk
			}
		}
		if leak == "" {
			return "", ""
		}
		if time.Now().After(deadline) {
			return "goroutine-leak", "a goroutine of the subscriber is still alive 8s after Close returned:\n" + leak
		}
		time.Sleep(5 * time.Millisecond)
	}
}

// Run is "harness c08": run scenarios, write the concatenated trace.
func Run(args []string) *rep.Report {
	fs := flag.NewFlagSet("c08", flag.ExitOnError)
	out := fs.String("trace-out", "", "trace file prefix")
	shard := fs.String("shard", "", "i/n (internal)")
	procs := fs.Int("procs", runtime.NumCPU(), "worker processes")
	count := fs.Int("count", 100, "scenarios in total")
	seed := fs.Int64("seed", 1, "base seed")
	family := fs.String("family", "announce", "announce | mixed | scoped | listeners | close | faults | stall | idle | idlex")
	stallAds := fs.Int("stall-ads", 90, "advertisements of the long chain of family stall")
	stallMax := fs.Int("stall-max", 0, "family stall: the second scenario uses a chain of this many advertisements (0: none)")
	fs.Parse(args)
	if *shard == "" {
		return rep.RunSharded("c08", args, *procs)
	}
	si, sn := rep.ParseShard(*shard)
	r := rep.New()
	var pubs []*chain.Pub
	for i := 0; i < 3; i++ {
		ch, err := chain.Build("ads", 4, fmt.Sprintf("c08-%d", i))
		if err != nil {
			r.SetExtra("read_error", err.Error())
			return r
		}
		p, err := chain.NewPub(ch, fmt.Sprintf("c08-pub-%d", i), true)
		if err != nil {
			r.SetExtra("read_error", err.Error())
			return r
		}
		pubs = append(pubs, p)
		// an entry-chunk chain served by the same publisher (for the entries syncs of family scoped)
		if ents, err := chain.Build("entries", 2, fmt.Sprintf("c08-ents-%d", i)); err == nil {
			for _, c := range ents.Cids[1:] {
				b, _ := ents.Store.Get(c)
				ch.Store.Put(c, b)
			}
			entHeads[p.ID] = ents.Cids[2]
		}
	}
	if ch, err := chain.Build("ads", 4, "c08-nested"); err == nil {
		NestedPub, _ = chain.NewPub(ch, "c08-pub-nested", true)
	}
	if NestedPub == nil {
		r.SetExtra("read_error", "nested publisher")
		return r
	}
	var long, longer, longest *chain.Pub
	if *family == "stall" {
		if *stallMax > 0 {
			// one scenario piles up more notifications than any bounded queue of a plausible size would hold
			if ch, err := chain.Build("ads", *stallMax, "c14-longest"); err == nil {
				longest, _ = chain.NewPub(ch, "c14-longest-pub", true)
			}
		}
		// one scenario in eight piles up more than 256 notifications
		if ch, err := chain.Build("ads", 4**stallAds, "c14-longer"); err == nil {
			longer, _ = chain.NewPub(ch, "c14-longer-pub", true)
		}
		ch, err := chain.Build("ads", *stallAds, "c14-long")
		if err == nil {
			long, err = chain.NewPub(ch, "c14-long-pub", true)
		}
		if err != nil {
			r.SetExtra("read_error", err.Error())
			return r
		}
	}
	f, err := os.Create(fmt.Sprintf("%s.%d", *out, si))
	if err != nil {
		r.SetExtra("read_error", err.Error())
		return r
	}
	defer f.Close()
	enc := json.NewEncoder(f)
	events := 0
	for i := si; i < *count; i += sn {
		if len(r.Divergences) >= 4 {
			r.AddExtra("skipped_after_divergences", 1) // the verdict is settled; the remaining scenarios would only cost watchdog time
			continue
		}
		sc := Scenario{Seed: *seed*100003 + int64(i), Pubs: 1 + i%2, Ads: 3, Sem: i % 3}
		if i%4 == 1 {
			sc.Seg = 1 + (i/4)%2 // a quarter of the runs: segmented syncs (the notification's count covers every segment)
		}
		switch *family {
		case "announce":
			sc.Deny = i%3 == 1
		case "mixed", "scoped":
			sc.Explicit = 1
			sc.XCancel = i%4 == 3
			sc.Scoped = *family == "scoped"
			if sc.Scoped {
				sc.Explicit = 1 + i%2
				sc.Entries = i % 2 // every other run: a publisher's entries are fetched while its advertisement syncs go on
				sc.Resync = i%3 == 0
				if sc.Resync {
					sc.Explicit = 2
				}
			}
		case "faults":
			sc.Faults = 1 + i%3
			sc.Listeners = i % 2
		case "idle", "idlex":
			// the idle handler cleaner runs at random points: of announce-only runs (idle), and of runs with explicit syncs
			// of another publisher (idlex; overlapping syncs of one publisher are the known findings of family mixed)
			sc.Idle = 2 + i%3
			if *family == "idlex" {
				sc.Pubs = 2 + i%2
				sc.Explicit, sc.Separate = 1+(i/2)%2, true
				sc.XCancel = i%4 == 3
			}
			sc.Faults = (i / 3) % 2
		case "stall":
			sc.Pubs, sc.Ads, sc.Listeners = 1, len(long.Chain.Cids)-1, 1
			if i%8 == 0 && longer != nil {
				sc.Ads = len(longer.Chain.Cids) - 1
			}
			if i == 1 && longest != nil {
				sc.Ads = len(longest.Chain.Cids) - 1
			}
		case "listeners":
			sc.Listeners, sc.Cancels = 2+(i/2)%2, i%2
			sc.Readers = i%4 >= 2 // half of the runs: stalled readers only; the others mix fast, slow and stalled readers
		case "close":
			sc.Listeners, sc.Closers = 1+(i/3)%2, 1+i%3
			sc.Readers = i%2 == 1
			sc.LateReg = true
			sc.Explicit, sc.Separate = 1+(i/2)%2, true
			sc.Pubs = 2 + i%2
			sc.HookSync = i%3 == 2
		}
		if i%5 == 4 && !sc.Separate && *family != "stall" {
			sc.Pubs = 3
		}
		use := pubs[:sc.Pubs]
		if *family == "stall" {
			use = []*chain.Pub{long}
			if sc.Ads > len(long.Chain.Cids)-1 {
				use = []*chain.Pub{longer}
			}
			if longer != nil && sc.Ads > len(longer.Chain.Cids)-1 {
				use = []*chain.Pub{longest}
			}
		}
		log, key, detail := Execute(sc, use)
		r.Eval(true)
		if i%37 == 0 {
			r.Sample(map[string]interface{}{"scenario": sc, "first_events": log[:min(len(log), 40)]})
		}
		switch key {
		case "":
			for _, e := range log {
				enc.Encode(e)
				events++
			}
		case "infra":
			r.Inconclusive++
			r.SetExtra("infra_example", detail)
		default:
			r.Diverge(rep.Divergence{Key: key, Case: sc, Detail: trim(detail, 3000)})
		}
	}
	r.SetExtra("trace_events", events)
	if StragglerRuns > 0 {
		r.SetExtra("runs_with_straggling_goroutines", StragglerRuns)
	}
	return r
}

func trim(s string, n int) string {
	if len(s) > n {
		return s[:n]
	}
	return strings.TrimSpace(s)
}
