// Package c17 pushes every case of spec/ExtProviders.tla through a real pcache.ProviderCache.
package c17

import (
	"bytes"
	"context"
	"encoding/json"
	"flag"
	"fmt"
	"net/http"
	"runtime"
	"strings"
	"sync"
	"verifharness/internal/netx"

	"github.com/ipni/go-libipni/apierror"
	"github.com/ipni/go-libipni/dhash"
	findclient "github.com/ipni/go-libipni/find/client"
	"github.com/ipni/go-libipni/find/model"
	"github.com/ipni/go-libipni/pcache"
	"github.com/libp2p/go-libp2p/core/peer"
	"github.com/multiformats/go-multiaddr"

	"github.com/multiformats/go-multihash"

	"verifharness/internal/ids"
	"verifharness/internal/rep"
)

type list struct {
	P []string `json:"p"`
	M []string `json:"m"`
}

type record struct {
	Has bool `json:"has"`
	Ch  list `json:"ch"`
	Cxp bool `json:"cxp"`
	Ov  bool `json:"ov"`
	Cx  list `json:"cx"`
}

type entry struct {
	ID string `json:"id"`
	MD string `json:"md"`
}

type tcase struct {
	Rec record `json:"rec"`
	Q   string `json:"q"`
	L   string `json:"l"`
	Out struct {
		Kind string  `json:"kind"`
		Res  []entry `json:"res"`
	} `json:"out"`
}

var (
	lookupMD = []byte{0x80, 0x12, 0x00, 0x01}
	otherMD  = []byte{0x90, 0x12, 0x07}
)

type staticSource struct{ info *model.ProviderInfo }

func (s *staticSource) Fetch(ctx context.Context, pid peer.ID) (*model.ProviderInfo, error) {
	if pid == s.info.AddrInfo.ID {
		return s.info, nil
	}
	return nil, apierror.New(fmt.Errorf("not found"), http.StatusNotFound)
}
func (s *staticSource) FetchAll(context.Context) ([]*model.ProviderInfo, error) {
	return []*model.ProviderInfo{s.info}, nil
}
func (s *staticSource) String() string { return "static" }

func md(class string) []byte {
	switch class {
	case "nil":
		return nil
	case "empty":
		return []byte{}
	case "L":
		return lookupMD
	case "A":
		return otherMD
	}
	panic("unknown md class " + class)
}

func addrInfo(name string) peer.AddrInfo {
	return peer.AddrInfo{ID: ids.Peer(name), Addrs: []multiaddr.Multiaddr{ids.Addr(name)}}
}

func mkList(l list, nilEmpty bool) ([]peer.AddrInfo, [][]byte) {
	var ps []peer.AddrInfo
	var ms [][]byte
	if !nilEmpty {
		ps = []peer.AddrInfo{}
		ms = [][]byte{}
	}
	for _, p := range l.P {
		ps = append(ps, addrInfo(p))
	}
	for _, m := range l.M {
		ms = append(ms, md(m))
	}
	return ps, ms
}

func build(r record, nilEmpty bool) *model.ProviderInfo {
	pi := &model.ProviderInfo{AddrInfo: addrInfo("m"), LastAdvertisementTime: "2024-01-01T00:00:00Z"}
	if !r.Has {
		return pi
	}
	ep := &model.ExtendedProviders{}
	ep.Providers, ep.Metadatas = mkList(r.Ch, nilEmpty)
	if r.Cxp {
		c := model.ContextualExtendedProviders{Override: r.Ov, ContextID: "c1"}
		c.Providers, c.Metadatas = mkList(r.Cx, nilEmpty)
		ep.Contextual = []model.ContextualExtendedProviders{c}
	}
	pi.ExtendedProviders = ep
	return pi
}

type observed struct {
	Panic string  `json:"panic,omitempty"`
	Err   string  `json:"err,omitempty"`
	Res   []entry `json:"res"`
	Bad   string  `json:"bad,omitempty"`
}

func classOf(b []byte, lookup []byte) string {
	switch {
	case len(b) == 0:
		return "none"
	case bytes.Equal(b, lookupMD): // the value called "L", whether it got there by substitution or is the entry's own
		return "L"
	case bytes.Equal(b, otherMD):
		return "A"
	}
	return fmt.Sprintf("?%x", b)
}

func nameOf(id peer.ID) string {
	for _, n := range []string{"m", "x", "y"} {
		if ids.Peer(n) == id {
			return n
		}
	}
	return "?" + id.String()
}

// query runs GetResults on a cache built over src and projects the result to the model's alphabet.
func query(src pcache.ProviderSource, preload bool, q string, lookup []byte) (ob observed) {
	defer func() {
		if e := recover(); e != nil {
			ob.Panic = fmt.Sprint(e)
		}
	}()
	pc, err := pcache.New(pcache.WithSource(src), pcache.WithPreload(preload), pcache.WithRefreshInterval(0))
	if err != nil {
		ob.Err = "new: " + err.Error()
		return
	}
	return collect(pc, q, lookup)
}

func collect(pc *pcache.ProviderCache, q string, lookup []byte) (ob observed) {
	res, err := pc.GetResults(context.Background(), ids.Peer("m"), []byte(q), lookup)
	if err != nil {
		ob.Err = err.Error()
		return
	}
	for _, r := range res {
		if r.Provider == nil {
			ob.Bad = "nil provider in result"
			continue
		}
		if string(r.ContextID) != q {
			ob.Bad = "context id changed"
		}
		n := nameOf(r.Provider.ID)
		if len(n) == 1 && (len(r.Provider.Addrs) != 1 || !r.Provider.Addrs[0].Equal(ids.Addr(n))) {
			ob.Bad = "addresses of " + n + " changed"
		}
		ob.Res = append(ob.Res, entry{ID: n, MD: classOf(r.Metadata, lookup)})
	}
	return
}

// queryAfterRefresh: the cache first holds an earlier record of the provider (other extended providers, chain-level and for the
// queried context), then a refresh brings the case's record with a later advertisement time; the results must be those of the
// new record alone.
func queryAfterRefresh(pi *model.ProviderInfo, q string, lookup []byte) (ob observed) {
	return queryAfterEarlier(nil, pi, q, lookup)
}

// queryAfterEarlier is queryAfterRefresh with the earlier record given (nil: a record that shares nothing with the case's).
func queryAfterEarlier(given *model.ProviderInfo, pi *model.ProviderInfo, q string, lookup []byte) (ob observed) {
	defer func() {
		if e := recover(); e != nil {
			ob.Panic = fmt.Sprint(e)
		}
	}()
	earlier := &model.ProviderInfo{AddrInfo: addrInfo("m"), LastAdvertisementTime: "2023-12-31T00:00:00Z", ExtendedProviders: &model.ExtendedProviders{
		Providers: []peer.AddrInfo{addrInfo("y")}, Metadatas: [][]byte{otherMD},
		Contextual: []model.ContextualExtendedProviders{{Override: true, ContextID: "c1", Providers: []peer.AddrInfo{addrInfo("x"), addrInfo("y")}, Metadatas: [][]byte{otherMD, nil}}},
	}}
	if given != nil {
		earlier = given
	}
	src := &staticSource{earlier}
	pc, err := pcache.New(pcache.WithSource(src), pcache.WithPreload(true), pcache.WithRefreshInterval(0))
	if err != nil {
		ob.Err = "new: " + err.Error()
		return
	}
	if _, err := pc.GetResults(context.Background(), ids.Peer("m"), []byte(q), lookup); err != nil && given == nil {
		ob.Err = "first lookup: " + err.Error()
		return
	}
	src.info = pi
	if err := pc.Refresh(context.Background()); err != nil {
		ob.Err = "refresh: " + err.Error()
		return
	}
	return collect(pc, q, lookup)
}

// queryAfterOthers: the same cache has answered lookups with another looked-up metadata, for the queried context and for
// another one, before; a lookup's substitutions are its own and must not show in the next one.
func queryAfterOthers(pi *model.ProviderInfo, q string, lookup []byte) (ob observed) {
	defer func() {
		if e := recover(); e != nil {
			ob.Panic = fmt.Sprint(e)
		}
	}()
	pc, err := pcache.New(pcache.WithSource(&staticSource{pi}), pcache.WithPreload(true), pcache.WithRefreshInterval(0))
	if err != nil {
		ob.Err = "new: " + err.Error()
		return
	}
	earlierMD := []byte{0xa0, 0x12, 0x00, 0x33}
	for _, c := range []string{q, "an-earlier-context"} {
		if _, err := pc.GetResults(context.Background(), ids.Peer("m"), []byte(c), earlierMD); err != nil {
			ob.Err = "earlier lookup: " + err.Error()
			return
		}
	}
	return collect(pc, q, lookup)
}

// plainNeighbour: the provider listed after the case's record has no extended providers; its results are itself alone.
func plainNeighbour(src pcache.ProviderSource, q string, lookup []byte) (why string) {
	defer func() {
		if e := recover(); e != nil {
			why = fmt.Sprint("panic: ", e)
		}
	}()
	pc, err := pcache.New(pcache.WithSource(src), pcache.WithPreload(true), pcache.WithRefreshInterval(0))
	if err != nil {
		return ""
	}
	res, err := pc.GetResults(context.Background(), ids.Peer("c17-after"), []byte(q), lookup)
	if err != nil {
		return "results of the plain provider listed after the case's record: " + err.Error()
	}
	if len(res) != 1 || res[0].Provider == nil || res[0].Provider.ID != ids.Peer("c17-after") {
		return fmt.Sprintf("the plain provider listed after the case's record has %d results (it has no extended providers)", len(res))
	}
	return ""
}

// oneRecordStore is a dhstore holding one multihash indexed for one (provider, context ID) with one metadata.
type oneRecordStore struct {
	key string
	evk []byte
	hvk string
	emd []byte
}

func (o *oneRecordStore) FindMultihash(_ context.Context, mh multihash.Multihash) ([]model.EncryptedMultihashResult, error) {
	if string(mh) != o.key {
		return nil, nil
	}
	return []model.EncryptedMultihashResult{{Multihash: mh, EncryptedValueKeys: [][]byte{o.evk}}}, nil
}

func (o *oneRecordStore) FindMetadata(_ context.Context, hvk []byte) ([]byte, error) {
	if string(hvk) != o.hvk {
		return nil, nil
	}
	return o.emd, nil
}

// queryThroughFind: the reader-privacy find client (which expands what it finds through its own provider cache) looks up a
// multihash indexed for provider m under the queried context with the looked-up metadata; it must return the model's expansion.
func queryThroughFind(providersURL string, q string, lookup []byte) (ob observed) {
	defer func() {
		if e := recover(); e != nil {
			ob.Panic = fmt.Sprint(e)
		}
	}()
	mh, _ := multihash.Sum([]byte("c17-find"), multihash.SHA2_256, -1)
	vk := dhash.CreateValueKey(ids.Peer("m"), []byte(q))
	evk, err := dhash.EncryptValueKey(vk, mh)
	if err != nil {
		ob.Err = err.Error()
		return
	}
	emd, err := dhash.EncryptMetadata(lookup, vk)
	if err != nil {
		ob.Err = err.Error()
		return
	}
	st := &oneRecordStore{key: string(dhash.SecondMultihash(mh)), evk: evk, hvk: string(dhash.SHA256(vk, nil)), emd: emd}
	cl, err := findclient.NewDHashClient(findclient.WithDHStoreAPI(st), findclient.WithProvidersURL(providersURL), findclient.WithPcachePreload(true))
	if err != nil {
		ob.Err = "new client: " + err.Error()
		return
	}
	fr, err := cl.Find(context.Background(), mh)
	if err != nil {
		ob.Err = err.Error()
		return
	}
	for _, mr := range fr.MultihashResults {
		for _, r := range mr.ProviderResults {
			if r.Provider == nil {
				ob.Bad = "nil provider in result"
				continue
			}
			if string(r.ContextID) != q {
				ob.Bad = "context id changed"
			}
			ob.Res = append(ob.Res, entry{ID: nameOf(r.Provider.ID), MD: classOf(r.Metadata, lookup)})
		}
	}
	return
}

func expectClass(c string) string {
	if c == "nil" || c == "empty" {
		return "none"
	}
	return c
}

func judge(tc *tcase, ob observed) (string, bool) {
	if ob.Panic != "" {
		if strings.Contains(ob.Panic, "index out of range") {
			return "panic-index-out-of-range", false
		}
		return "panic", false
	}
	if ob.Bad != "" {
		return "result-corrupted", false
	}
	lk := expectClass(tc.L)
	switch tc.Out.Kind {
	case "exact", "exact_or_error":
		if ob.Err != "" {
			if tc.Out.Kind == "exact_or_error" {
				return "", true
			}
			return "unexpected-error", false
		}
		if len(ob.Res) != len(tc.Out.Res) {
			return "result-mismatch", false
		}
		for i, e := range tc.Out.Res {
			want := expectClass(e.MD) // the model's output names values: a substituted looked-up value appears under its own name
			if ob.Res[i].ID != e.ID || ob.Res[i].MD != want {
				return "result-mismatch", false
			}
		}
	case "nopanic":
		if ob.Err == "" && len(ob.Res) > 0 {
			want := lk
			if ob.Res[0].ID != "m" || ob.Res[0].MD != want {
				return "result-mismatch", false
			}
		}
	}
	return "", true
}

// httpSourceFor serves the record as the JSON a remote indexer would send.
func httpSourceFor(pi *model.ProviderInfo) (pcache.ProviderSource, func(), error) {
	src, closeFn, _, err := httpSourceURLFor(pi)
	return src, closeFn, err
}

func httpSourceURLFor(pi *model.ProviderInfo) (pcache.ProviderSource, func(), string, error) {
	one, err := json.Marshal(pi)
	if err != nil {
		return nil, nil, "", err
	}
	// the listing holds other providers too: one with extended providers of its own before the case's record, a plain one after
	// it -- each record is its own, nothing of a neighbour's may show in it
	before := &model.ProviderInfo{AddrInfo: peer.AddrInfo{ID: ids.Peer("c17-before"), Addrs: addrInfo("x").Addrs}, LastAdvertisementTime: "2024-01-01T00:00:00Z",
		ExtendedProviders: &model.ExtendedProviders{Providers: []peer.AddrInfo{addrInfo("y")}, Metadatas: [][]byte{otherMD},
			Contextual: []model.ContextualExtendedProviders{{Override: true, ContextID: "c1", Providers: []peer.AddrInfo{addrInfo("x")}, Metadatas: [][]byte{otherMD}}}}}
	after := &model.ProviderInfo{AddrInfo: peer.AddrInfo{ID: ids.Peer("c17-after"), Addrs: addrInfo("y").Addrs}, LastAdvertisementTime: "2024-01-01T00:00:00Z"}
	all, err := json.Marshal([]*model.ProviderInfo{before, pi, after})
	if err != nil {
		return nil, nil, "", err
	}
	srv := netx.NewServer(http.HandlerFunc(func(w http.ResponseWriter, r *http.Request) {
		w.Header().Set("Content-Type", "application/json")
		if strings.HasSuffix(r.URL.Path, "/providers") {
			w.Write(all)
			return
		}
		if strings.HasSuffix(r.URL.Path, "/"+pi.AddrInfo.ID.String()) {
			w.Write(one)
			return
		}
		http.Error(w, "not found", http.StatusNotFound)
	}))
	src, err := pcache.NewHTTPSource(srv.URL, srv.Client())
	if err != nil {
		srv.Close()
		return nil, nil, "", err
	}
	return src, srv.Close, srv.URL, nil
}

func Run(args []string) *rep.Report {
	fs := flag.NewFlagSet("c17", flag.ExitOnError)
	cases := fs.String("cases", "", "ndjson case table exported by TLC")
	httpEvery := fs.Int("http-every", 97, "also run every n-th case through the JSON/HTTP source")
	fs.Parse(args)
	r := rep.New()

	type job struct {
		tc  *tcase
		idx int
	}
	jobs := make(chan job, 1024)
	var wg sync.WaitGroup
	var variants, httpCases int
	var vmu sync.Mutex
	for w := 0; w < runtime.NumCPU(); w++ {
		wg.Add(1)
		go func() {
			defer wg.Done()
			for j := range jobs {
				tc := j.tc
				lookup := md(tc.L)
				nontrivial := tc.Rec.Has && (len(tc.Rec.Ch.P)+len(tc.Rec.Cx.P) > 0)
				r.Eval(nontrivial)
				if j.idx%5000 == 7 {
					r.Sample(tc)
				}
				n := 0
				for _, nilEmpty := range []bool{true, false} {
					pi := build(tc.Rec, nilEmpty)
					for _, preload := range []bool{true, false} {
						ob := query(&staticSource{pi}, preload, tc.Q, lookup)
						n++
						if key, ok := judge(tc, ob); !ok {
							r.Diverge(rep.Divergence{Key: key, Case: tc, Expected: tc.Out, Observed: ob,
								Detail: fmt.Sprintf("variant nilEmptyLists=%v preload=%v", nilEmpty, preload)})
						}
					}
				}
				{
					ob := queryAfterRefresh(build(tc.Rec, true), tc.Q, lookup)
					n++
					if key, ok := judge(tc, ob); !ok {
						r.Diverge(rep.Divergence{Key: key, Case: tc, Expected: tc.Out, Observed: ob, Detail: "variant refreshed: the cache held an earlier record of the provider"})
					}
				}
				if tc.Rec.Has && tc.Rec.Cxp {
					// the cache held the same record with the override flag the other way round (and an earlier time)
					flipped := tc.Rec
					flipped.Ov = !flipped.Ov
					earlier := build(flipped, true)
					earlier.LastAdvertisementTime = "2023-12-31T00:00:00Z"
					ob := queryAfterEarlier(earlier, build(tc.Rec, true), tc.Q, lookup)
					n++
					if key, ok := judge(tc, ob); !ok {
						r.Diverge(rep.Divergence{Key: key, Case: tc, Expected: tc.Out, Observed: ob, Detail: "variant refreshed-flag: the cache held this record with the override flag flipped"})
					}
				}
				{
					ob := queryAfterOthers(build(tc.Rec, j.idx%2 == 0), tc.Q, lookup)
					n++
					if key, ok := judge(tc, ob); !ok {
						r.Diverge(rep.Divergence{Key: key, Case: tc, Expected: tc.Out, Observed: ob, Detail: "variant repeated: the cache answered lookups with another metadata before"})
					}
				}
				if *httpEvery > 0 && j.idx%*httpEvery == 0 {
					pi := build(tc.Rec, true)
					src, closeFn, purl, err := httpSourceURLFor(pi)
					if err == nil {
						if len(lookup) > 0 && tc.Out.Kind == "exact" {
							fo := queryThroughFind(purl, tc.Q, lookup)
							n++
							if key, ok := judge(tc, fo); !ok {
								r.Diverge(rep.Divergence{Key: key, Case: tc, Expected: tc.Out, Observed: fo, Detail: "variant find-client: the reader-privacy client's Find, which expands through its own provider cache"})
							}
						}
						ob := query(src, true, tc.Q, lookup)
						if ob.Err == "" && ob.Panic == "" {
							if why := plainNeighbour(src, tc.Q, lookup); why != "" {
								r.Diverge(rep.Divergence{Key: "neighbour-record-leaks", Case: tc, Detail: why})
							}
						}
						closeFn()
						n++
						vmu.Lock()
						httpCases++
						vmu.Unlock()
						// JSON cannot carry nil inside a [][]byte distinct from empty... it can: null vs "".
						if key, ok := judge(tc, ob); !ok {
							r.Diverge(rep.Divergence{Key: key, Case: tc, Expected: tc.Out, Observed: ob, Detail: "variant http-json source"})
						}
					}
				}
				vmu.Lock()
				variants += n
				vmu.Unlock()
			}
		}()
	}
	idx := 0
	err := rep.ReadNDJSON(*cases, func(line []byte) error {
		tc := new(tcase)
		if err := json.Unmarshal(line, tc); err != nil {
			return fmt.Errorf("bad case line %d: %w", idx, err)
		}
		jobs <- job{tc, idx}
		idx++
		return nil
	})
	close(jobs)
	wg.Wait()
	if err != nil {
		fmt.Println("ERROR", err)
		r.SetExtra("read_error", err.Error())
	}
	r.SetExtra("impl_executions", variants)
	r.SetExtra("http_json_cases", httpCases)
	return r
}
