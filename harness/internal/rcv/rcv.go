// Package rcv replays behaviours of spec/Receiver.tla on the real announce.Receiver (call level:
// C09 decisions and delivered content, C16 blocking / wake-up / results) and on the real duplicate
// filter (stringLRU through the verif export, small capacities).
package rcv

import (
	"bytes"
	"context"
	"crypto/sha256"
	"encoding/json"
	"errors"
	"flag"
	"fmt"
	"runtime"
	"strconv"
	"strings"
	"sync"
	"sync/atomic"
	"time"
	"verifharness/internal/netx"

	"github.com/ipfs/go-cid"
	"github.com/ipni/go-libipni/announce"
	"github.com/ipni/go-libipni/announce/message"
	"github.com/libp2p/go-libp2p"
	pubsub "github.com/libp2p/go-libp2p-pubsub"
	"github.com/libp2p/go-libp2p/core/host"
	"github.com/libp2p/go-libp2p/core/peer"
	"github.com/multiformats/go-multiaddr"
	"github.com/multiformats/go-multihash"

	"verifharness/internal/ids"
	"verifharness/internal/psenv"
	"verifharness/internal/rep"
)

type ret struct {
	T string `json:"t"`
	R string `json:"r"`
}

type step struct {
	Op    string   `json:"op"`
	Cid   string   `json:"cid"`
	Peer  string   `json:"peer"`
	Addrs string   `json:"addrs"`
	Rets  []ret    `json:"rets"`
	Exp   string   `json:"exp"`
	Lru   []string `json:"lru"`
}

type behaviour struct {
	K     int    `json:"k"`
	Steps []step `json:"steps"`
}

func mkCid(name string) cid.Cid {
	// distinct CIDs need not have distinct multihashes: "b" is the content of "a" under another codec, "d" is "c" in CID
	// version 0 and "c" its version-1 form -- four announcements of four CIDs
	base, form := name, 0
	switch name {
	case "b":
		base, form = "a", 1
	case "c":
		form = 2
	case "d":
		base, form = "c", 3
	}
	h := sha256.Sum256([]byte("verif-cid-" + base))
	mh, _ := multihash.Encode(h[:], multihash.SHA2_256)
	switch form {
	case 1:
		return cid.NewCidV1(cid.Raw, mh)
	case 2:
		return cid.NewCidV1(cid.DagProtobuf, mh)
	case 3:
		return cid.NewCidV0(mh)
	}
	return cid.NewCidV1(cid.DagJSON, mh)
}

var (
	pubAddr  = multiaddr.StringCast("/ip4/8.8.4.4/tcp/3103")
	pubAddr2 = multiaddr.StringCast("/dns4/example.com/tcp/443/https")
	privAddr = multiaddr.StringCast("/ip4/192.168.1.7/tcp/3103")
	loopAddr = multiaddr.StringCast("/ip4/127.0.0.1/tcp/3103")
	unspAddr = multiaddr.StringCast("/ip4/0.0.0.0/tcp/3103")
)

func addrsOf(class string) []multiaddr.Multiaddr {
	switch class {
	case "pub+priv":
		return []multiaddr.Multiaddr{privAddr, pubAddr, unspAddr, pubAddr2}
	case "priv":
		return []multiaddr.Multiaddr{privAddr, loopAddr}
	case "loop+pub":
		return []multiaddr.Multiaddr{loopAddr, pubAddr, pubAddr2}
	case "pub":
		return []multiaddr.Multiaddr{pubAddr, pubAddr2}
	}
	return nil
}

// showMsg projects a delivered announcement to the model's "msg:cid:peer:addrs" string.
func showMsg(a announce.Announce, cids map[string]string, peers map[peer.ID]string) string {
	c, ok := cids[a.Cid.String()]
	if !ok {
		c = "?" + a.Cid.String()
	}
	p, ok := peers[a.PeerID]
	if !ok {
		p = "?" + a.PeerID.String()
	}
	cls := "none"
	if len(a.Addrs) != 0 {
		cls = "pub"
		want := addrsOf("pub")
		if len(a.Addrs) != len(want) {
			cls = fmt.Sprintf("?%v", a.Addrs)
		} else {
			for i := range want {
				if a.Addrs[i] == nil || !a.Addrs[i].Equal(want[i]) {
					cls = fmt.Sprintf("?%v", a.Addrs)
				}
			}
		}
	}
	return "msg:" + c + ":" + p + ":" + cls
}

type pending struct {
	done chan string
	gid  int64
}

func goid() int64 {
	var buf [64]byte
	n := runtime.Stack(buf[:], false)
	f := strings.Fields(string(buf[:n]))
	id, _ := strconv.ParseInt(f[1], 10, 64)
	return id
}

func waitParked(id int64, d time.Duration) bool {
	deadline := time.Now().Add(d)
	buf := make([]byte, 1<<16)
	hdr := "goroutine " + strconv.FormatInt(id, 10) + " ["
	for {
		n := runtime.Stack(buf, true)
		if n == len(buf) {
			buf = make([]byte, 2*len(buf))
			continue
		}
		s := string(buf[:n])
		if i := strings.Index(s, hdr); i >= 0 {
			line := s[i:]
			if j := strings.Index(line, "\n"); j >= 0 {
				line = line[:j]
			}
			if strings.Contains(line, "[select") || strings.Contains(line, "[chan") || strings.Contains(line, "[sync.Mutex") || strings.Contains(line, "[semacquire") {
				return true
			}
		} else {
			return true // already gone
		}
		if time.Now().After(deadline) {
			return false
		}
		time.Sleep(50 * time.Microsecond)
	}
}

func goroutineRunning(fn string) bool {
	buf := make([]byte, 1<<20)
	n := runtime.Stack(buf, true)
	return strings.Contains(string(buf[:n]), fn)
}

func errName(err error) string {
	switch {
	case err == nil:
		return "ok"
	case errors.Is(err, announce.ErrClosed):
		return "closed"
	}
	return "err:" + err.Error()
}

// watcher progress observed through the (non-parking) yield hook
var (
	wNext, wSend atomic.Int64
	wGid         atomic.Int64
)

func observeWatcher(point string) {
	switch point {
	case "w.next":
		wGid.Store(goid())
		wNext.Add(1)
	case "h.send":
		if goid() == wGid.Load() {
			wSend.Add(1)
		}
	}
}

// replayReceiver runs one behaviour on a real Receiver. Returns divergence key/detail, tolerated flag.
func replayReceiver(b *behaviour, watchdog time.Duration, withTopic bool) (key, detail string, at int) {
	cids := map[string]string{}
	peers := map[peer.ID]string{}
	allow := func(p peer.ID) bool { return peers[p] == "ok" }
	for _, n := range []string{"ok", "no"} {
		peers[ids.Peer("rcv-"+n)] = n
	}
	var h host.Host
	topic := ""
	usesPubsub := false
	for _, st := range b.Steps {
		usesPubsub = usesPubsub || strings.HasPrefix(st.Op, "pubsub-")
	}
	ropts := []announce.Option{announce.WithAllowPeer(allow), announce.WithFilterIPs(true)}
	var ps *psenv.Env
	var pmu sync.Mutex // guards what the watcher's allow callback reads
	remoteAllowed := map[peer.ID]bool{} // the remote hosts (H2, and H3 behind it) as publishers of their own: allowed or not as the step says
	type plainPub struct {
		name string
		by   peer.ID
	}
	plainBy := map[string][]plainPub{} // CID -> model peer and host of the "plain" pubsub steps that announced it
	isRemote := func(p peer.ID) bool { return ps != nil && (p == ps.H2.ID() || (ps.H3 != nil && p == ps.H3.ID())) }
	show := func(a announce.Announce) string {
		if isRemote(a.PeerID) {
			// attributed to a remote host: right only for a message that very host published for itself
			pmu.Lock()
			name := "?relay"
			for _, pp0 := range plainBy[a.Cid.String()] {
				if pp0.by == a.PeerID {
					name = pp0.name
				}
			}
			pmu.Unlock()
			pp := map[peer.ID]string{a.PeerID: name}
			return showMsg(a, cids, pp)
		}
		return showMsg(a, cids, peers)
	}
	if usesPubsub {
		var err error
		if ps, err = psenv.Get(); err != nil {
			return "infra", err.Error(), 0
		}
		h = ps.H1
		inner := allow
		allow = func(p peer.ID) bool {
			pmu.Lock()
			defer pmu.Unlock()
			if isRemote(p) {
				return remoteAllowed[p] // a remote host publishing for itself: allowed or not as the step says
			}
			return inner(p)
		}
		ropts = []announce.Option{announce.WithAllowPeer(allow), announce.WithFilterIPs(true), announce.WithTopic(ps.T1)}
		announce.VerifYield = observeWatcher
		defer func() { announce.VerifYield = nil }()
		// drain what earlier behaviours left in the probe subscription
		for drained := false; !drained; {
			dctx, c := context.WithTimeout(context.Background(), 3*time.Millisecond)
			_, err := ps.Probe.Next(dctx)
			c()
			drained = err != nil
		}
	} else if withTopic {
		var err error
		h, err = netx.Retry(func() (host.Host, error) { return libp2p.New(libp2p.ListenAddrStrings("/ip4/127.0.0.1/tcp/0")) })
		if err != nil {
			return "infra", err.Error(), 0
		}
		defer h.Close()
		topic = "/verif/announce"
	}
	wGid.Store(0)
	r, err := announce.NewReceiver(h, topic, ropts...)
	if err != nil {
		return "infra", err.Error(), 0
	}
	if usesPubsub { // the watcher reaches its first hook
		deadline := time.Now().Add(watchdog)
		for wGid.Load() == 0 || !goroutineRunning("announce.(*Receiver).watch") {
			if time.Now().After(deadline) {
				return "infra", "watcher did not start", 0
			}
			time.Sleep(50 * time.Microsecond)
		}
	}
	var bsend, brecv *pending
	var all []*pending
	defer func() {
		// final Close (idempotent): must return, and the pubsub watcher must be gone afterwards
		c := make(chan struct{})
		go func() { r.Close(); close(c) }()
		select {
		case <-c:
			if key == "" && (withTopic || usesPubsub) {
				deadline := time.Now().Add(watchdog)
				for goroutineRunning("announce.(*Receiver).watch") {
					if time.Now().After(deadline) {
						key, detail = "watcher-leak", "the pubsub watcher goroutine is still running after Close returned"
						break
					}
					time.Sleep(time.Millisecond)
				}
			}
		case <-time.After(watchdog):
			if key == "" {
				key, detail = "hang", "final Close did not return"
			}
		}
	}()
	start := func(f func() string) *pending {
		p := &pending{done: make(chan string, 1)}
		g := make(chan int64, 1)
		go func() { g <- goid(); p.done <- f() }()
		p.gid = <-g
		all = append(all, p)
		return p
	}
	wait := func(p *pending) (string, bool) {
		select {
		case s := <-p.done:
			return s, true
		case <-time.After(watchdog):
			return "", false
		}
	}
	for i := range b.Steps {
		st := &b.Steps[i]
		// calls the model holds blocked must not have returned
		for name, p := range map[string]*pending{"send": bsend, "next": brecv} {
			if p != nil {
				select {
				case s := <-p.done:
					return "returned-while-blocked", fmt.Sprintf("blocked %s call returned %q before step %d, model: still blocked", name, s, i), i
				default:
				}
			}
		}
		var self *pending
		switch st.Op {
		case "direct":
			c := mkCid(st.Cid)
			cids[c.String()] = st.Cid
			ai := peer.AddrInfo{ID: ids.Peer("rcv-" + st.Peer), Addrs: addrsOf(st.Addrs)}
			self = start(func() string { return errName(r.Direct(context.Background(), c, ai)) })
		case "next":
			self = start(func() string {
				a, err := r.Next(context.Background())
				if err != nil {
					return errName(err)
				}
				return show(a)
			})
		case "uncache":
			c := mkCid(st.Cid)
			self = start(func() string { r.UncacheCid(c); return "ok" })
		case "close":
			self = start(func() string { return errName(r.Close()) })
		case "pubsub-plain", "pubsub-relayed", "pubsub-self":
			c := mkCid(st.Cid)
			cids[c.String()] = st.Cid
			m := message.Message{Cid: c}
			m.SetAddrs(addrsOf(st.Addrs))
			tp := ps.T2
			pmu.Lock()
			switch st.Op {
			case "pubsub-plain": // sent by the publisher itself: that host is the source peer -- every other time the host two hops
				// away, whose messages arrive from the host in between
				pub := ps.H2.ID()
				if ps.H3 != nil && i%2 == 1 {
					pub, tp = ps.H3.ID(), ps.T3
				}
				remoteAllowed = map[peer.ID]bool{pub: st.Peer == "ok"}
				if st.Peer == "ok" { // a refused one delivers nothing
					plainBy[c.String()] = append(plainBy[c.String()], plainPub{st.Peer, pub})
				}
			case "pubsub-relayed": // re-published by the remote host on behalf of the original publisher
				m.OrigPeer = ids.Peer("rcv-" + st.Peer).String()
			case "pubsub-self": // a re-publication by the receiver's own host
				m.OrigPeer = ids.Peer("rcv-" + st.Peer).String()
				tp = ps.T1
			}
			pmu.Unlock()
			var buf bytes.Buffer
			if err := m.MarshalCBOR(&buf); err != nil {
				return "infra", err.Error(), i
			}
			// the watcher may still be on its way back to the top of its loop (a Next that has just returned freed the channel it
			// was sending on): the counters are read once it waits again
			if g := wGid.Load(); g != 0 {
				waitParked(g, 500*time.Millisecond)
			}
			n0, s0 := wNext.Load(), wSend.Load()
			if err := tp.Publish(context.Background(), buf.Bytes()); err != nil {
				return "infra", "publish: " + err.Error(), i
			}
			pctx, pc := context.WithTimeout(context.Background(), watchdog)
			_, err := ps.Probe.Next(pctx)
			pc()
			if err != nil {
				return "infra", "pubsub message did not arrive at the receiver's host: " + err.Error(), i
			}
			if st.Exp == "closed" {
				break // the watcher has exited with the receiver; nothing handles the message
			}
			// the watcher handles the message: it is back at the top of its loop, or (model: blocks) waits in the select
			blocks := strings.HasSuffix(st.Exp, "+blocks")
			deadline := time.Now().Add(watchdog)
			for {
				if !blocks && wNext.Load() > n0 {
					break
				}
				if wSend.Load() > s0 && waitParked(wGid.Load(), time.Millisecond) && wNext.Load() == n0 {
					if blocks {
						break
					}
					if st.Exp == "either" {
						return "", "tolerated:duplicate-window-ambiguous", i
					}
					return "watcher-blocked", fmt.Sprintf("step %d (%s %s by %s): the watcher is blocked delivering the announcement, model: %s", i, st.Op, st.Cid, st.Peer, st.Exp), i
				}
				if time.Now().After(deadline) {
					if blocks && wNext.Load() > n0 && st.Exp == "either+blocks" {
						return "", "tolerated:duplicate-window-ambiguous", i
					}
					return "watcher-progress", fmt.Sprintf("step %d (%s %s by %s): the watcher did not get to where the model has it (%s) within %v (w.next %d->%d, h.send %d->%d)",
						i, st.Op, st.Cid, st.Peer, st.Exp, watchdog, n0, wNext.Load(), s0, wSend.Load()), i
				}
				time.Sleep(50 * time.Microsecond)
			}
		}
		selfReturns := false
		for _, rt := range st.Rets {
			var p *pending
			switch rt.T {
			case "self":
				p, selfReturns = self, true
			case "send":
				p, bsend = bsend, nil
			case "next":
				p, brecv = brecv, nil
			}
			if p == nil {
				return "infra", "model returns a call the harness does not hold: " + rt.T, i
			}
			got, ok := wait(p)
			if !ok {
				return "hang", fmt.Sprintf("step %d (%s %s): the %s call did not return within %v; model: returns %q", i, st.Op, st.Cid, rt.T, watchdog, rt.R), i
			}
			if rt.R == "closed-or-msg" {
				if got != "closed" && !strings.HasPrefix(got, "msg:") {
					return "result-mismatch", fmt.Sprintf("step %d: Next after close returned %q", i, got), i
				}
				return "", "tolerated:nondeterministic-select", i
			}
			if got != rt.R {
				if rt.T == "self" && st.Op == "direct" && st.Exp == "either" {
					return "", "tolerated:duplicate-window-ambiguous", i
				}
				k := "result-mismatch"
				if strings.HasPrefix(got, "msg:") && strings.HasPrefix(rt.R, "msg:") {
					k = "delivered-content-mismatch"
				}
				return k, fmt.Sprintf("step %d (%s %s by %s): the %s call returned %q, model %q", i, st.Op, st.Cid, st.Peer, rt.T, got, rt.R), i
			}
		}
		if !selfReturns && self != nil {
			if !waitParked(self.gid, watchdog) {
				return "infra", "call did not park", i
			}
			select {
			case s := <-self.done:
				if st.Op == "direct" && st.Exp == "either" {
					return "", "tolerated:duplicate-window-ambiguous", i
				}
				return "returned-while-blocked", fmt.Sprintf("step %d: %s returned %q at once, model: blocks", i, st.Op, s), i
			default:
			}
			if st.Op == "direct" {
				bsend = self
			} else {
				brecv = self
			}
		}
	}
	return "", "", len(b.Steps)
}

// replayLRU runs the duplicate-filter projection of a behaviour on the real stringLRU with capacity k.
func replayLRU(b *behaviour) (key, detail string) {
	l := announce.NewVerifLRU(b.K)
	for i, st := range b.Steps {
		switch {
		case st.Op == "direct" && st.Exp != "filtered" && st.Exp != "closed":
			l.Update(st.Cid)
		case st.Op == "uncache":
			l.Remove(st.Cid)
		default:
			continue
		}
		got := l.Keys()
		if strings.Join(got, ",") != strings.Join(st.Lru, ",") || l.Len() != len(st.Lru) {
			return "lru-mismatch", fmt.Sprintf("step %d (%s %s): filter holds %v, model %v (most recent first)", i, st.Op, st.Cid, got, st.Lru)
		}
	}
	return "", ""
}

// Run is "harness c09": -mode lru | receiver.
// resendFails: a receiver that re-publishes direct announcements (WithResend) on a topic whose validator refuses them.  Delivery
// does not depend on the re-publication: the announcement is delivered, once, and a second announcement of it is a duplicate.
func resendFails(r *rep.Report) {
	h, err := netx.Retry(func() (host.Host, error) { return libp2p.New(libp2p.ListenAddrStrings("/ip4/127.0.0.1/tcp/0")) })
	if err != nil {
		return
	}
	defer h.Close()
	ctx, cancel := context.WithCancel(context.Background())
	defer cancel()
	ps, err := pubsub.NewGossipSub(ctx, h)
	if err != nil {
		return
	}
	const name = "/verif/rcv-resend-refused"
	if err := ps.RegisterTopicValidator(name, func(context.Context, peer.ID, *pubsub.Message) pubsub.ValidationResult {
		return pubsub.ValidationReject
	}); err != nil {
		return
	}
	topic, err := ps.Join(name)
	if err != nil {
		return
	}
	rcv, err := announce.NewReceiver(h, "", announce.WithTopic(topic), announce.WithResend(true))
	if err != nil {
		r.Diverge(rep.Divergence{Key: "resend-refused", Detail: "NewReceiver: " + err.Error()})
		return
	}
	defer rcv.Close()
	r.Eval(true)
	for _, name := range []string{"a", "c"} {
		c := mkCid(name)
		pi := peer.AddrInfo{ID: ids.Peer("rcv-ok"), Addrs: []multiaddr.Multiaddr{pubAddr}}
		dctx, dcancel := context.WithTimeout(ctx, 3*time.Second)
		derr := rcv.Direct(dctx, c, pi)
		nctx, ncancel := context.WithTimeout(ctx, 3*time.Second)
		got, nerr := rcv.Next(nctx)
		dcancel()
		ncancel()
		if derr != nil || nerr != nil || got.Cid != c || got.PeerID != pi.ID {
			r.Diverge(rep.Divergence{Key: "resend-refused-not-delivered", Detail: fmt.Sprintf("the topic refused the re-publication of %s: Direct returned %v, Next returned %v (%v): an allowed, unseen announcement is delivered all the same", name, derr, got.Cid, nerr)})
			return
		}
		if err := rcv.Direct(dctx, c, pi); err != nil && !errors.Is(err, context.Canceled) && !errors.Is(err, context.DeadlineExceeded) {
			// a duplicate is dropped silently
			r.Diverge(rep.Divergence{Key: "resend-refused-not-delivered", Detail: fmt.Sprintf("the duplicate of %s was answered with %v", name, err)})
		}
	}
}

func Run(args []string) *rep.Report {
	fs := flag.NewFlagSet("c09", flag.ExitOnError)
	file := fs.String("behaviours", "", "ndjson behaviours exported by TLC")
	mode := fs.String("mode", "receiver", "lru | receiver")
	shard := fs.String("shard", "", "i/n (internal)")
	procs := fs.Int("procs", runtime.NumCPU(), "worker processes")
	topicEvery := fs.Int("topic-every", 0, "run every n-th behaviour also on a Receiver with a libp2p host and pubsub topic")
	fs.Parse(args)
	if *shard == "" {
		return rep.RunSharded("c09", args, *procs)
	}
	si, sn := rep.ParseShard(*shard)
	r := rep.New()
	idx := -1
	tolerated := map[string]int{}
	err := rep.ReadNDJSON(*file, func(line []byte) error {
		idx++
		if idx%sn != si {
			return nil
		}
		var b behaviour
		if err := json.Unmarshal(line, &b); err != nil {
			return fmt.Errorf("line %d: %w", idx, err)
		}
		nontrivial := false
		for _, s := range b.Steps {
			if s.Exp == "drop" || s.Op == "close" || len(s.Rets) != 1 {
				nontrivial = true
			}
		}
		r.Eval(nontrivial)
		if idx%499 == 0 {
			r.Sample(b)
		}
		if *mode == "lru" {
			if k, d := replayLRU(&b); k != "" {
				r.Diverge(rep.Divergence{Key: k, Case: b, Detail: d})
			}
			return nil
		}
		if b.K != announce.VerifCacheSize {
			return fmt.Errorf("behaviour for capacity %d cannot run on the real Receiver (capacity %d)", b.K, announce.VerifCacheSize)
		}
		if *topicEvery > 0 && idx%*topicEvery == 0 {
			if k, d, _ := replayReceiver(&b, 2*time.Second, true); k != "" && k != "infra" {
				// confirm before alarm: the divergence must reproduce, with three times the patience (a pubsub message and the
				// goroutines that handle it can be slow on a busy machine)
				if k2, _, _ := replayReceiver(&b, 6*time.Second, true); k2 == k {
					r.Diverge(rep.Divergence{Key: k, Case: b, Detail: "with pubsub topic: " + d})
				} else {
					r.Inconclusive++
				}
			}
			r.AddExtra("behaviours_with_topic", 1)
		}
		k, d, _ := replayReceiver(&b, 2*time.Second, false)
		switch {
		case k == "infra":
			r.Inconclusive++
		case k != "":
			// confirm before alarm: the divergence must reproduce
			k2, _, _ := replayReceiver(&b, 2*time.Second, false)
			if k2 == k {
				r.Diverge(rep.Divergence{Key: k, Case: b, Detail: d})
			} else {
				r.Inconclusive++
			}
		case strings.HasPrefix(d, "tolerated:"):
			tolerated[d]++
		}
		return nil
	})
	if err != nil {
		r.SetExtra("read_error", err.Error())
	}
	for k, v := range tolerated {
		r.SetExtra(k, v)
	}
	if *mode == "receiver" && si == 0 {
		resendFails(r)
	}
	return r
}
