package rep

import (
	"bufio"
	"bytes"
	"encoding/json"
	"fmt"
	"os"
	"os/exec"
	"strings"
	"sync"
)

// RunSharded re-executes the current binary n times with "-shard i/n" appended to args and merges
// the children's reports.  Used where each case needs a quiet process (goroutine-state inspection,
// real-time TTLs) but the machine has many cores.
func RunSharded(cmd string, args []string, n int) *Report {
	out := New()
	var wg sync.WaitGroup
	var mu sync.Mutex
	for i := 0; i < n; i++ {
		wg.Add(1)
		go func(i int) {
			defer wg.Done()
			a := append([]string{cmd}, args...)
			a = append(a, "-shard", fmt.Sprintf("%d/%d", i, n))
			c := exec.Command(os.Args[0], a...)
			var stdout, stderr bytes.Buffer
			c.Stdout, c.Stderr = &stdout, &stderr
			if dir := os.Getenv("VERIF_SHARD_LOG"); dir != "" { // debugging aid: keep each shard's stderr in a file
				if f, err := os.Create(fmt.Sprintf("%s/shard-%d.err", dir, i)); err == nil {
					defer f.Close()
					c.Stderr = f
				}
			}
			err := c.Run()
			var child *Report
			sc := bufio.NewScanner(&stdout)
			sc.Buffer(make([]byte, 1<<20), 1<<28)
			for sc.Scan() {
				if strings.HasPrefix(sc.Text(), "REPORT ") {
					child = New()
					if e := json.Unmarshal([]byte(sc.Text()[7:]), child); e != nil {
						child = nil
					}
				}
			}
			mu.Lock()
			defer mu.Unlock()
			if i := strings.Index(stderr.String(), "WARNING: DATA RACE"); i >= 0 {
				out.Diverge(Divergence{Key: "data-race", Detail: tail(stderr.String()[i:], 6000)})
			}
			if child == nil {
				if k, d := libraryPanic(stderr.String()); k != "" {
					// the process died in a goroutine of the library with no harness frame on its stack: the library's own crash
					out.Diverge(Divergence{Key: k, Detail: d})
					out.AddExtra("shards_crashed_in_library", 1)
					return
				}
				out.AddExtra("shards_failed", 1)
				fmt.Fprintf(os.Stderr, "shard %d failed: %v\n%s\n", i, err, tail(stderr.String(), 3000))
				return
			}
			out.Merge(child)
		}(i)
	}
	wg.Wait()
	// normalise float extras back to ints where they are whole
	for k, v := range out.Extra {
		if f, ok := v.(float64); ok && f == float64(int(f)) {
			out.Extra[k] = int(f)
		}
	}
	return out
}

// libraryPanic recognises a crash of the shard process that happened in a goroutine of go-libipni on whose stack no
// harness frame appears (for example a goroutine started by a constructor that dereferences a nil field).
func libraryPanic(stderr string) (key, detail string) {
	i := strings.Index(stderr, "panic: ")
	if i < 0 {
		return "", ""
	}
	rest := stderr[i:]
	j := strings.Index(rest, "\ngoroutine ")
	if j < 0 {
		return "", ""
	}
	stack := rest[j+1:]
	if e := strings.Index(stack, "\n\n"); e >= 0 {
		stack = stack[:e]
	}
	if strings.Contains(stack, "verifharness/") || !strings.Contains(stack, "github.com/ipni/go-libipni/") {
		return "", ""
	}
	fn := ""
	for _, ln := range strings.Split(stack, "\n") {
		if strings.HasPrefix(ln, "github.com/ipni/go-libipni/") {
			fn = strings.TrimPrefix(ln, "github.com/ipni/go-libipni/")
			if k := strings.Index(fn, "("); k > 0 && strings.HasSuffix(fn, ")") {
				fn = fn[:strings.LastIndex(fn, "(")]
			}
			break
		}
	}
	return "library-panic@" + fn, tail(rest[:min(len(rest), j+1+len(stack))], 4000)
}

func tail(s string, n int) string {
	if len(s) > n {
		return s[len(s)-n:]
	}
	return s
}

// ParseShard parses "i/n".
func ParseShard(s string) (int, int) {
	var i, n int
	if _, err := fmt.Sscanf(s, "%d/%d", &i, &n); err != nil || n <= 0 {
		return 0, 1
	}
	return i, n
}
