// Package rep is the report protocol between harness sub-commands and ./check.
package rep

import (
	"bufio"
	"encoding/json"
	"fmt"
	"os"
	"sync"
)

// Divergence is one behaviour of the real code that the specification does not allow.
type Divergence struct {
	Key      string      `json:"key"` // structural signature, matched against known_findings.json
	Case     interface{} `json:"case,omitempty"`
	Expected interface{} `json:"expected,omitempty"`
	Observed interface{} `json:"observed,omitempty"`
	Detail   string      `json:"detail,omitempty"`
}

type Report struct {
	mu                 sync.Mutex
	Evaluations        int                    `json:"evaluations"`
	DistinctNontrivial int                    `json:"distinct_nontrivial"`
	Samples            []interface{}          `json:"samples"`
	Divergences        []Divergence           `json:"divergences"`
	Inconclusive       int                    `json:"inconclusive"`
	Extra              map[string]interface{} `json:"extra,omitempty"`
	divCount           map[string]int
}

func New() *Report {
	return &Report{Extra: map[string]interface{}{}, divCount: map[string]int{}}
}

func (r *Report) Eval(nontrivial bool) {
	r.mu.Lock()
	r.Evaluations++
	if nontrivial {
		r.DistinctNontrivial++
	}
	r.mu.Unlock()
}

func (r *Report) Sample(s interface{}) {
	r.mu.Lock()
	if len(r.Samples) < 3 {
		r.Samples = append(r.Samples, s)
	}
	r.mu.Unlock()
}

// Diverge records a divergence; at most 20 per key are kept in full, all are counted.
func (r *Report) Diverge(d Divergence) {
	r.mu.Lock()
	r.divCount[d.Key]++
	if r.divCount[d.Key] <= 20 {
		r.Divergences = append(r.Divergences, d)
	}
	r.mu.Unlock()
}

func (r *Report) SetExtra(k string, v interface{}) {
	r.mu.Lock()
	r.Extra[k] = v
	r.mu.Unlock()
}

func (r *Report) AddExtra(k string, n int) {
	r.mu.Lock()
	cur, _ := r.Extra[k].(int)
	r.Extra[k] = cur + n
	r.mu.Unlock()
}

func (r *Report) Print() {
	r.mu.Lock()
	defer r.mu.Unlock()
	if len(r.divCount) != 0 {
		r.Extra["divergence_counts"] = r.divCount
	}
	if r.Divergences == nil {
		r.Divergences = []Divergence{}
	}
	if r.Samples == nil {
		r.Samples = []interface{}{}
	}
	b, err := json.Marshal(r)
	if err != nil {
		fmt.Fprintln(os.Stderr, "report marshal:", err)
		os.Exit(3)
	}
	w := bufio.NewWriter(os.Stdout)
	fmt.Fprintf(w, "REPORT %s\n", b)
	w.Flush()
}

// ReadNDJSON streams an ndjson file, calling f for each line.
func ReadNDJSON(path string, f func(line []byte) error) error {
	fh, err := os.Open(path)
	if err != nil {
		return err
	}
	defer fh.Close()
	sc := bufio.NewScanner(fh)
	sc.Buffer(make([]byte, 1<<20), 1<<28)
	for sc.Scan() {
		b := sc.Bytes()
		if len(b) == 0 {
			continue
		}
		cp := make([]byte, len(b))
		copy(cp, b)
		if err := f(cp); err != nil {
			return err
		}
	}
	return sc.Err()
}

// Merge adds the counts, samples and divergences of o into r.
func (r *Report) Merge(o *Report) {
	r.mu.Lock()
	defer r.mu.Unlock()
	r.Evaluations += o.Evaluations
	r.DistinctNontrivial += o.DistinctNontrivial
	r.Inconclusive += o.Inconclusive
	for _, s := range o.Samples {
		if len(r.Samples) < 3 {
			r.Samples = append(r.Samples, s)
		}
	}
	for _, d := range o.Divergences {
		r.divCount[d.Key]++
		if r.divCount[d.Key] <= 20 {
			r.Divergences = append(r.Divergences, d)
		}
	}
	for k, v := range o.Extra {
		if k == "divergence_counts" {
			continue
		}
		switch x := v.(type) {
		case float64:
			cur, _ := r.Extra[k].(float64)
			r.Extra[k] = cur + x
		default:
			if _, ok := r.Extra[k]; !ok {
				r.Extra[k] = v
			}
		}
	}
}
