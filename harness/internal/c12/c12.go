// Package c12 binds spec/DHash.tla to the real dhash functions and the real DHashClient.
package c12

import (
	"bytes"
	"context"
	"encoding/json"
	"errors"
	"flag"
	"fmt"
	"net/http"
	"path"
	"runtime"
	"sort"
	"strings"
	"sync"
	"verifharness/internal/netx"

	"github.com/ipni/go-libipni/dhash"
	"github.com/ipni/go-libipni/find/client"
	"github.com/ipni/go-libipni/find/model"
	"github.com/libp2p/go-libp2p/core/peer"
	b58 "github.com/mr-tron/base58/base58"
	"github.com/multiformats/go-multiaddr"
	"github.com/multiformats/go-multihash"

	"verifharness/internal/ids"
	"verifharness/internal/rep"
)

type tcase struct {
	Q      string                `json:"q"`
	Index  map[string][][]string `json:"index"`
	Tamper struct {
		VK string `json:"vk"`
		MD string `json:"md"`
	} `json:"tamper"`
	Out [][]string `json:"out"`
}

// mhVariant selects how the model's multihash names become bytes (set per case): 0 = sha2-256 (34 bytes), 1 = identity
// multihashes of 100 bytes that share their first 92 bytes and differ only in the tail, 2 = sha2-512 (66 bytes).
var mhVariant int

func mhOf(name string) multihash.Multihash {
	var mh multihash.Multihash
	switch mhVariant {
	case 1:
		mh, _ = multihash.Sum(append(bytes.Repeat([]byte("verif-c12-long-"), 6), []byte(fmt.Sprintf("%-10s", name))...), multihash.IDENTITY, -1)
	case 2:
		mh, _ = multihash.Sum([]byte("verif-c12-"+name), multihash.SHA2_512, -1)
	default:
		mh, _ = multihash.Sum([]byte("verif-c12-"+name), multihash.SHA2_256, -1)
	}
	return mh
}

// pidVariant selects the key type behind the model's peer "ed" (set per case): 0 = ed25519 (38-byte identity peer ID),
// 1 = secp256k1 (39-byte identity peer ID: with a 64-byte context ID the longest value key there is).
var pidVariant int

func pidOf(name string) peer.ID {
	if name == "rsa" {
		return ids.PeerT("c12-rsa", "rsa") // sha2-256 hashed key
	}
	if pidVariant == 1 {
		return ids.PeerT("c12-"+name+"-secp", "secp256k1") // identity hashed key, one byte longer
	}
	return ids.Peer("c12-" + name) // identity hashed key
}

func ctxOf(name string) []byte {
	switch name {
	case "c0":
		return []byte{}
	case "c1":
		return bytes.Repeat([]byte{0xC1}, 64) // maximal context ID
	}
	return []byte("ctx-" + name)
}

func mdOf(name string) []byte { return []byte("metadata-" + name) }

// shape applies a blob shape of the model to real bytes.
func shape(b []byte, sh string, salt int) []byte {
	c := append([]byte(nil), b...)
	switch sh {
	case "intact":
	case "len<12":
		c = c[:salt%12]
	case "len=12":
		c = c[:12]
	case "len<28":
		c = c[:13+salt%15]
	case "truncated-tail":
		c = c[:len(c)-1-salt%3]
	case "flip-nonce":
		c[salt%12] ^= 1 << (salt % 8)
	case "flip-ct":
		c[12+salt%(len(c)-12)] ^= 1 << (salt % 8)
	case "appended":
		c = append(c, byte(salt), 0)
	}
	return c
}

type store struct {
	vks   map[string][][]byte // second multihash -> encrypted value keys
	mds   map[string][]byte   // sha256(vk) -> encrypted metadata
	calls int
}

func (s *store) FindMultihash(_ context.Context, mh multihash.Multihash) ([]model.EncryptedMultihashResult, error) {
	s.calls++
	evks := s.vks[string(mh)]
	if len(evks) == 0 {
		return nil, nil
	}
	return []model.EncryptedMultihashResult{{Multihash: mh, EncryptedValueKeys: evks}}, nil
}

func (s *store) FindMetadata(_ context.Context, hvk []byte) ([]byte, error) {
	md, ok := s.mds[string(hvk)]
	if !ok {
		return nil, errors.New("not found")
	}
	return md, nil
}

// the dhstore HTTP transport: one server per process that answers from the store of the case being run
var (
	httpStore *store
	httpOnce  sync.Once
	httpURL   string
)

func dhstoreServer() string {
	httpOnce.Do(func() {
		mux := http.NewServeMux()
		mux.HandleFunc("/encrypted/multihash/", func(w http.ResponseWriter, r *http.Request) {
			mh, err := multihash.FromB58String(path.Base(r.URL.Path))
			if err != nil {
				http.Error(w, err.Error(), http.StatusBadRequest)
				return
			}
			res, _ := httpStore.FindMultihash(r.Context(), mh)
			if len(res) == 0 {
				http.NotFound(w, r)
				return
			}
			json.NewEncoder(w).Encode(&model.FindResponse{EncryptedMultihashResults: res})
		})
		mux.HandleFunc("/metadata/", func(w http.ResponseWriter, r *http.Request) {
			hvk, err := b58.Decode(path.Base(r.URL.Path))
			if err != nil {
				http.Error(w, err.Error(), http.StatusBadRequest)
				return
			}
			md, err := httpStore.FindMetadata(r.Context(), hvk)
			if err != nil {
				http.NotFound(w, r)
				return
			}
			json.NewEncoder(w).Encode(map[string][]byte{"EncryptedMetadata": md})
		})
		// the provider source of the client's provider cache (lookups that are not metadata-only)
		mux.HandleFunc("/providers", func(w http.ResponseWriter, r *http.Request) {
			var all []*model.ProviderInfo
			for _, n := range []string{"ed", "rsa"} {
				all = append(all, &model.ProviderInfo{AddrInfo: peer.AddrInfo{ID: pidOf(n), Addrs: []multiaddr.Multiaddr{ids.Addr(n)}}, LastAdvertisementTime: "2024-01-01T00:00:00Z"})
			}
			json.NewEncoder(w).Encode(all)
		})
		mux.HandleFunc("/providers/", func(w http.ResponseWriter, r *http.Request) {
			for _, n := range []string{"ed", "rsa"} {
				if path.Base(r.URL.Path) == pidOf(n).String() {
					json.NewEncoder(w).Encode(&model.ProviderInfo{AddrInfo: peer.AddrInfo{ID: pidOf(n), Addrs: []multiaddr.Multiaddr{ids.Addr(n)}}, LastAdvertisementTime: "2024-01-01T00:00:00Z"})
					return
				}
			}
			http.NotFound(w, r)
		})
		httpURL = netx.NewServer(mux).URL
	})
	return httpURL
}

func runCase(tc *tcase, salt int, viaHTTP bool) (got [][]string, panicked string, err error) {
	defer func() {
		if e := recover(); e != nil {
			panicked = fmt.Sprint(e)
		}
	}()
	mhVariant = (salt / 2) % 3
	pidVariant = (salt / 6) % 2
	defer func() { mhVariant, pidVariant = 0, 0 }()
	st := &store{vks: map[string][][]byte{}, mds: map[string][]byte{}}
	// the metadata store is keyed by the value key alone, shared by all multihashes: the queried multihash's
	// records are written last so that what the hostile store does to them is what a lookup sees
	var order []string
	for m := range tc.Index {
		if m != tc.Q {
			order = append(order, m)
		}
	}
	sort.Strings(order)
	order = append(order, tc.Q)
	for _, m := range order {
		recs := tc.Index[m]
		mh := mhOf(m)
		for _, r := range recs {
			vk := dhash.CreateValueKey(pidOf(r[0]), ctxOf(r[1]))
			encMh := mh
			vkShape, mdShape := "intact", "intact"
			mdKey := vk
			if m == tc.Q {
				vkShape, mdShape = tc.Tamper.VK, tc.Tamper.MD
				if vkShape == "foreign" {
					encMh, vkShape = mhOf("some-other-multihash"), "intact"
				}
				if mdShape == "foreign" {
					mdKey, mdShape = dhash.CreateValueKey(pidOf(r[0]), []byte("other-context")), "intact"
				}
			}
			evk, e := dhash.EncryptValueKey(vk, encMh)
			if e != nil {
				return nil, "", e
			}
			key := string(dhash.SecondMultihash(mh))
			st.vks[key] = append(st.vks[key], shape(evk, vkShape, salt))
			if m == tc.Q && tc.Tamper.MD == "missing" {
				delete(st.mds, string(dhash.SHA256(vk, nil)))
			} else {
				emd, e := dhash.EncryptMetadata(mdOf(r[2]), mdKey)
				if e != nil {
					return nil, "", e
				}
				st.mds[string(dhash.SHA256(vk, nil))] = shape(emd, mdShape, salt+1)
			}
		}
	}
	opt := client.WithDHStoreAPI(st)
	if viaHTTP {
		httpStore = st
		opt = client.WithDHStoreURL(dhstoreServer())
	}
	// through HTTP every other case resolves the providers through the client's provider cache instead of metadata-only
	metadataOnly := !viaHTTP || (salt/4)%2 == 0
	cl, e := client.NewDHashClient(opt, client.WithMetadataOnly(metadataOnly))
	if e != nil {
		return nil, "", e
	}
	// the in-process store hands out the byte slices it holds (as an embedded dhstore does): a lookup must leave them alone,
	// and asking again must give the same answer
	before := st.snapshot()
	lookup := func() (out [][]string) {
		// FindAsync is what Find runs in a goroutine of its own; calling it here keeps a panic recoverable.
		resCh := make(chan model.ProviderResult, 64)
		if e := cl.FindAsync(context.Background(), mhOf(tc.Q), resCh); e != nil {
			return nil // an error is an allowed outcome for a hostile store; results would be empty
		}
		for pr := range resCh {
			out = append(out, []string{pidName(pr.Provider.ID), ctxName(pr.ContextID), mdName(pr.Metadata)})
		}
		return out
	}
	got = lookup()
	if after := st.snapshot(); after != before {
		sideEffects = append(sideEffects, fmt.Sprintf("store-modified-by-lookup: query %s, the store's blobs differ after the lookup (via HTTP: %v)", tc.Q, viaHTTP))
	}
	if again := lookup(); canon(again) != canon(got) {
		sideEffects = append(sideEffects, fmt.Sprintf("second-lookup-differs: query %s: first %v, second %v (via HTTP: %v)", tc.Q, got, again, viaHTTP))
	}
	return got, "", nil
}

// sideEffects collects what runCase noticed besides the result of the lookup.
var sideEffects []string

func (s *store) snapshot() string {
	var keys []string
	for k, v := range s.vks {
		for i, b := range v {
			keys = append(keys, fmt.Sprintf("vk %x %d %x", k, i, b))
		}
	}
	for k, v := range s.mds {
		keys = append(keys, fmt.Sprintf("md %x %x", k, v))
	}
	sort.Strings(keys)
	return strings.Join(keys, "\n")
}

func pidName(p peer.ID) string {
	for _, n := range []string{"ed", "rsa"} {
		if pidOf(n) == p {
			return n
		}
	}
	return "?" + p.String()
}
func ctxName(c []byte) string {
	for _, n := range []string{"c0", "c1"} {
		if bytes.Equal(ctxOf(n), c) {
			return n
		}
	}
	return fmt.Sprintf("?%x", c)
}
func mdName(m []byte) string {
	for _, n := range []string{"mdA", "mdB"} {
		if bytes.Equal(mdOf(n), m) {
			return n
		}
	}
	return fmt.Sprintf("?%x", m)
}

func canon(x [][]string) string {
	var s []string
	for _, r := range x {
		s = append(s, fmt.Sprint(r))
	}
	sort.Strings(s)
	return fmt.Sprint(s)
}

// primitives sweeps the dhash functions themselves: round trip, determinism, every truncation length and every
// single-bit flip for payloads up to maxLen, wrong passphrase, value-key split, second hash.
func primitives(r *rep.Report, maxLen int, every int) int {
	n := 0
	guard := func(what string, f func()) {
		defer func() {
			if e := recover(); e != nil {
				r.Diverge(rep.Divergence{Key: "panic:" + what, Detail: fmt.Sprint(e)})
			}
		}()
		f()
	}
	passes := [][]byte{mhOf("m1"), mhOf("m2"), {}, bytes.Repeat([]byte{7}, 200), mhOf("m3")}
	for plen := 0; plen <= maxLen; plen++ {
		pl := bytes.Repeat([]byte{byte(plen + 1)}, plen)
		for pi, pass := range passes {
			var nonce, ct []byte
			guard("EncryptAES", func() {
				var err error
				nonce, ct, err = dhash.EncryptAES(pl, pass)
				if err != nil {
					r.Diverge(rep.Divergence{Key: "encrypt-error", Detail: err.Error()})
				}
				n2, c2, _ := dhash.EncryptAES(pl, pass)
				if !bytes.Equal(nonce, n2) || !bytes.Equal(ct, c2) {
					r.Diverge(rep.Divergence{Key: "not-deterministic", Detail: fmt.Sprintf("payload length %d", plen)})
				}
				got, err := dhash.DecryptAES(nonce, ct, pass)
				if err != nil || !bytes.Equal(got, pl) {
					r.Diverge(rep.Divergence{Key: "round-trip", Detail: fmt.Sprintf("payload length %d: %v", plen, err)})
				}
				if got, err := dhash.DecryptAES(nonce, ct, passes[(pi+1)%len(passes)]); err == nil {
					r.Diverge(rep.Divergence{Key: "wrong-passphrase-accepted", Detail: fmt.Sprintf("payload length %d returned %x", plen, got)})
				}
			})
			// the wrappers used on the wire: every payload length including zero must round-trip
			guard("EncryptMetadata", func() {
				enc, err := dhash.EncryptMetadata(pl, pass)
				if err != nil {
					r.Diverge(rep.Divergence{Key: "encrypt-error", Detail: err.Error()})
					return
				}
				if got, err := dhash.DecryptMetadata(enc, pass); err != nil || !bytes.Equal(got, pl) {
					r.Diverge(rep.Divergence{Key: "round-trip-metadata", Detail: fmt.Sprintf("payload length %d: %v", plen, err)})
				}
				evk, err := dhash.EncryptValueKey(pl, pass)
				if err != nil {
					r.Diverge(rep.Divergence{Key: "encrypt-error", Detail: err.Error()})
					return
				}
				if got, err := dhash.DecryptValueKey(evk, pass); err != nil || !bytes.Equal(got, pl) {
					r.Diverge(rep.Divergence{Key: "round-trip-value-key", Detail: fmt.Sprintf("payload length %d: %v", plen, err)})
				}
			})
			// a caller that reuses its passphrase buffer: the result must depend on the buffer's content at call time
			guard("buffer-reuse", func() {
				other := passes[(pi+1)%len(passes)]
				if len(other) != len(pass) || len(pass) == 0 {
					return
				}
				buf := append([]byte(nil), other...)
				if _, _, err := dhash.EncryptAES(pl, buf); err != nil {
					return
				}
				copy(buf, pass) // same buffer, now holding `pass`
				n2, c2, err := dhash.EncryptAES(pl, buf)
				if err != nil || !bytes.Equal(n2, nonce) || !bytes.Equal(c2, ct) {
					r.Diverge(rep.Divergence{Key: "depends-on-earlier-passphrase", Detail: fmt.Sprintf("payload length %d: encryption under a reused buffer differs from encryption under a fresh copy of the same passphrase", plen)})
				}
				if got, err := dhash.DecryptAES(n2, c2, append([]byte(nil), other...)); err == nil {
					r.Diverge(rep.Divergence{Key: "wrong-passphrase-accepted", Detail: fmt.Sprintf("payload length %d: ciphertext made after the buffer was overwritten decrypts under the earlier passphrase (%x)", plen, got)})
				}
			})
			n += 8
			if (plen+pi)%every != 0 {
				continue
			}
			blob := append(append([]byte(nil), nonce...), ct...)
			for _, dec := range []struct {
				name string
				f    func([]byte) ([]byte, error)
			}{
				{"DecryptValueKey", func(b []byte) ([]byte, error) { return dhash.DecryptValueKey(b, pass) }},
				{"DecryptMetadata", func(b []byte) ([]byte, error) { return dhash.DecryptMetadata(b, pass) }},
			} {
				for cut := 0; cut < len(blob); cut++ { // every truncation length
					guard(dec.name, func() {
						if got, err := dec.f(blob[:cut]); err == nil {
							r.Diverge(rep.Divergence{Key: "truncated-accepted", Detail: fmt.Sprintf("%s: %d of %d bytes returned %x", dec.name, cut, len(blob), got)})
						}
					})
					n++
				}
				for bit := 0; bit < len(blob)*8; bit++ { // every single-bit flip of nonce and ciphertext
					b := append([]byte(nil), blob...)
					b[bit/8] ^= 1 << (bit % 8)
					guard(dec.name, func() {
						if got, err := dec.f(b); err == nil {
							r.Diverge(rep.Divergence{Key: "altered-accepted", Detail: fmt.Sprintf("%s: bit %d flipped returned %x", dec.name, bit, got)})
						}
					})
					n++
				}
			}
		}
	}
	// value keys: all peer-ID kinds x context IDs of 0..64 bytes
	for _, pn := range []string{"ed", "rsa"} {
		for cl := 0; cl <= 64; cl++ {
			ctx := bytes.Repeat([]byte{byte(cl)}, cl)
			guard("SplitValueKey", func() {
				vk := dhash.CreateValueKey(pidOf(pn), ctx)
				p, c, err := dhash.SplitValueKey(vk)
				if err != nil || p != pidOf(pn) || !bytes.Equal(c, ctx) {
					r.Diverge(rep.Divergence{Key: "value-key-split", Detail: fmt.Sprintf("%s ctx len %d: %v", pn, cl, err)})
				}
			})
			n++
		}
	}
	for v := 0; v < 3; v++ { // every form of multihash: short, long ones that differ only in their tail, sha2-512
		mhVariant = v
		seen := map[string]string{}
		for _, m := range []string{"m1", "m2", "m3"} {
			guard("SecondMultihash", func() {
				a, b := dhash.SecondMultihash(mhOf(m)), dhash.SecondMultihash(mhOf(m))
				dm, err := multihash.Decode(a)
				if !bytes.Equal(a, b) || bytes.Equal(a, mhOf(m)) || err != nil || dm.Code != multihash.DBL_SHA2_256 || dm.Length != 32 {
					r.Diverge(rep.Divergence{Key: "second-hash", Detail: fmt.Sprintf("%s (multihash form %d)", m, v)})
				}
				if other, dup := seen[string(a)]; dup {
					r.Diverge(rep.Divergence{Key: "second-hash", Detail: fmt.Sprintf("%s and %s (multihash form %d) have the same second hash", other, m, v)})
				}
				seen[string(a)] = m
			})
			n++
		}
	}
	mhVariant = 0
	return n
}

// concurrent: the primitives are functions of their arguments whoever else is calling them (DHash.tla, Determinism).  The answers
// for a set of inputs are computed one call at a time, then eight goroutines compute them again all at once.
func concurrent(r *rep.Report) int {
	type in struct {
		mh     multihash.Multihash
		vk, md []byte
	}
	type out struct{ second, evk, emd, dvk, dmd string }
	var ins []in
	for i := 0; i < 48; i++ {
		mh, _ := multihash.Sum([]byte(fmt.Sprintf("verif-c12-conc-%d", i)), []uint64{multihash.SHA2_256, multihash.SHA2_512, multihash.IDENTITY}[i%3], -1)
		pid := ids.Peer(fmt.Sprintf("c12-conc-%d", i%5))
		vk := dhash.CreateValueKey(pid, []byte(fmt.Sprintf("ctx-%d", i)))
		ins = append(ins, in{mh, vk, []byte(fmt.Sprintf("metadata-%d", i))})
	}
	eval := func(x in) (o out) {
		defer func() {
			if e := recover(); e != nil {
				o.second = "panic: " + fmt.Sprint(e)
			}
		}()
		second := dhash.SecondMultihash(x.mh)
		evk, err1 := dhash.EncryptValueKey(x.vk, x.mh)
		emd, err2 := dhash.EncryptMetadata(x.md, x.vk)
		dvk, err3 := dhash.DecryptValueKey(evk, x.mh)
		dmd, err4 := dhash.DecryptMetadata(emd, x.vk)
		return out{string(second), fmt.Sprintf("%x %v", evk, err1), fmt.Sprintf("%x %v", emd, err2), fmt.Sprintf("%x %v", dvk, err3), fmt.Sprintf("%x %v", dmd, err4)}
	}
	want := make([]out, len(ins))
	for i, x := range ins {
		want[i] = eval(x)
		if want[i].dvk != fmt.Sprintf("%x <nil>", x.vk) || want[i].dmd != fmt.Sprintf("%x <nil>", x.md) {
			r.Diverge(rep.Divergence{Key: "round-trip", Detail: fmt.Sprintf("input %d: decrypting what was encrypted gives %s / %s", i, want[i].dvk, want[i].dmd)})
			return 0
		}
	}
	prev := runtime.GOMAXPROCS(0)
	if prev < 8 {
		runtime.GOMAXPROCS(8)
		defer runtime.GOMAXPROCS(prev)
	}
	var wg sync.WaitGroup
	var mu sync.Mutex
	bad, calls := "", 0
	for g := 0; g < 8; g++ {
		wg.Add(1)
		go func(g int) {
			defer wg.Done()
			for it := 0; it < 300; it++ {
				i := (g*31 + it*7) % len(ins)
				got := eval(ins[i])
				mu.Lock()
				calls++
				if got != want[i] && bad == "" {
					bad = fmt.Sprintf("input %d computed while seven other goroutines call the package: %+v, computed alone: %+v", i, got, want[i])
				}
				mu.Unlock()
			}
		}(g)
	}
	wg.Wait()
	if bad != "" {
		r.Diverge(rep.Divergence{Key: "not-a-function-under-concurrency", Detail: bad})
	}
	return calls
}

func Run(args []string) *rep.Report {
	fs := flag.NewFlagSet("c12", flag.ExitOnError)
	file := fs.String("cases", "", "ndjson case table exported by TLC")
	maxLen := fs.Int("maxlen", 32, "payload lengths 0..maxlen for the primitive sweeps")
	every := fs.Int("sweep-every", 3, "run the exhaustive truncation / bit-flip sweep on every n-th (length, passphrase) pair")
	httpEvery := fs.Int("http-every", 4, "run every n-th case also through the dhstore HTTP transport")
	fs.Parse(args)
	r := rep.New()
	idx, httpRuns := 0, 0
	err := rep.ReadNDJSON(*file, func(line []byte) error {
		tc := new(tcase)
		if err := json.Unmarshal(line, tc); err != nil {
			return err
		}
		idx++
		r.Eval(len(tc.Index[tc.Q]) > 0)
		if idx%4001 == 0 {
			r.Sample(tc)
		}
		if *httpEvery > 0 && idx%*httpEvery == 0 {
			hgot, hpn, herr := runCase(tc, idx, true)
			httpRuns++
			switch {
			case herr != nil:
				r.Inconclusive++
				r.SetExtra("infra_example", herr.Error())
			case hpn != "":
				r.Diverge(rep.Divergence{Key: "panic", Case: tc, Detail: "through the dhstore HTTP transport: " + hpn})
			case canon(hgot) != canon(tc.Out):
				r.Diverge(rep.Divergence{Key: "find-mismatch-http", Case: tc, Expected: tc.Out, Observed: hgot, Detail: "through the dhstore HTTP transport"})
			}
		}
		got, pn, err := runCase(tc, idx, false)
		switch {
		case err != nil:
			r.Inconclusive++
			r.SetExtra("infra_example", err.Error())
		case pn != "":
			k := "panic"
			if tc.Tamper.VK == "len<12" {
				k = "panic-short-value-key"
			}
			r.Diverge(rep.Divergence{Key: k, Case: tc, Detail: pn})
		case canon(got) != canon(tc.Out):
			k := "find-mismatch"
			if len(tc.Out) == 0 {
				k = "find-returned-data-from-tampered-store"
			}
			r.Diverge(rep.Divergence{Key: k, Case: tc, Expected: tc.Out, Observed: got})
		}
		for _, se := range sideEffects {
			r.Diverge(rep.Divergence{Key: strings.SplitN(se, ":", 2)[0], Case: tc, Detail: se})
		}
		sideEffects = nil
		return nil
	})
	if err != nil {
		r.SetExtra("read_error", err.Error())
	}
	r.SetExtra("primitive_checks", primitives(r, *maxLen, *every))
	r.SetExtra("concurrent_calls", concurrent(r))
	r.SetExtra("cases_through_http_transport", httpRuns)
	return r
}
