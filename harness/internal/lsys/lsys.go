// Package lsys is the harness's auditable block store and link system.
package lsys

import (
	"bytes"
	"fmt"
	"io"
	"sync"

	"github.com/ipfs/go-cid"
	"github.com/ipld/go-ipld-prime"
	cidlink "github.com/ipld/go-ipld-prime/linking/cid"
	"github.com/multiformats/go-multihash"
)

// Store is an in-memory block store keyed by CID that records every write.
type Store struct {
	mu     sync.Mutex
	blocks map[cid.Cid][]byte
	Writes []cid.Cid // every committed write, in order
	Reads  []cid.Cid // every successful read, in order
	// OnWriteOpen, when set, is called each time the library asks for a writer (before any byte is written): a place to let
	// something else happen between a block being fetched and its being stored.
	OnWriteOpen func()
}

func NewStore() *Store { return &Store{blocks: map[cid.Cid][]byte{}} }

func (s *Store) Put(c cid.Cid, b []byte) {
	s.mu.Lock()
	s.blocks[c] = append([]byte(nil), b...)
	s.mu.Unlock()
}

func (s *Store) Get(c cid.Cid) ([]byte, bool) {
	s.mu.Lock()
	defer s.mu.Unlock()
	b, ok := s.blocks[c]
	return b, ok
}

func (s *Store) Has(c cid.Cid) bool { _, ok := s.Get(c); return ok }

func (s *Store) Keys() []cid.Cid {
	s.mu.Lock()
	defer s.mu.Unlock()
	out := make([]cid.Cid, 0, len(s.blocks))
	for c := range s.blocks {
		out = append(out, c)
	}
	return out
}

func (s *Store) Len() int {
	s.mu.Lock()
	defer s.mu.Unlock()
	return len(s.blocks)
}

func (s *Store) WriteCount() int {
	s.mu.Lock()
	defer s.mu.Unlock()
	return len(s.Writes)
}

// Audit recomputes, for every stored block, the multihash with the function and digest length of the
// CID it is stored under; it returns the CIDs whose content does not hash to them.
func (s *Store) Audit() []string {
	s.mu.Lock()
	defer s.mu.Unlock()
	var bad []string
	for c, b := range s.blocks {
		p := c.Prefix()
		sum, err := multihash.Sum(b, p.MhType, p.MhLength)
		if err != nil || !bytes.Equal(sum, c.Hash()) {
			bad = append(bad, fmt.Sprintf("%s (%d bytes)", c, len(b)))
		}
	}
	return bad
}

// LinkSystem returns a link system over the store (same shape as the repository's test helper).
func (s *Store) LinkSystem() ipld.LinkSystem {
	ls := cidlink.DefaultLinkSystem()
	ls.StorageReadOpener = func(_ ipld.LinkContext, lnk ipld.Link) (io.Reader, error) {
		c := lnk.(cidlink.Link).Cid
		s.mu.Lock()
		b, ok := s.blocks[c]
		if ok {
			s.Reads = append(s.Reads, c)
		}
		s.mu.Unlock()
		if !ok {
			return nil, ipld.ErrNotExists{}
		}
		return bytes.NewReader(b), nil
	}
	ls.StorageWriteOpener = func(ipld.LinkContext) (io.Writer, ipld.BlockWriteCommitter, error) {
		if f := s.OnWriteOpen; f != nil {
			f()
		}
		buf := bytes.NewBuffer(nil)
		return buf, func(lnk ipld.Link) error {
			c := lnk.(cidlink.Link).Cid
			s.mu.Lock()
			s.blocks[c] = append([]byte(nil), buf.Bytes()...)
			s.Writes = append(s.Writes, c)
			s.mu.Unlock()
			return nil
		}, nil
	}
	return ls
}
