// Package c05 concretises the cases of spec/AdSignature.tla with real keys and runs them through
// schema.Advertisement Sign / SignWithExtendedProviders / VerifySignature.
package c05

import (
	"bytes"
	"encoding/json"
	"flag"
	"fmt"
	"runtime"
	"sync"

	"github.com/ipfs/go-cid"
	"github.com/ipld/go-ipld-prime"
	"github.com/ipld/go-ipld-prime/codec/dagcbor"
	"github.com/ipld/go-ipld-prime/codec/dagjson"
	cidlink "github.com/ipld/go-ipld-prime/linking/cid"
	"github.com/ipni/go-libipni/ingest/schema"
	"github.com/libp2p/go-libp2p/core/crypto"
	"github.com/libp2p/go-libp2p/core/record"
	recpb "github.com/libp2p/go-libp2p/core/record/pb"
	"github.com/multiformats/go-multihash"
	"google.golang.org/protobuf/proto"

	"verifharness/internal/ids"
	"verifharness/internal/rep"
)

type epEntry struct {
	ID    string   `json:"id"`
	Addrs []string `json:"addrs"`
	MD    string   `json:"md"`
}

type shape struct {
	Prev   string    `json:"prev"`
	Ents   string    `json:"ents"`
	Prov   string    `json:"prov"`
	Addrs  []string  `json:"addrs"`
	MD     string    `json:"md"`
	Rm     bool      `json:"rm"`
	HasExt bool      `json:"hasExt"`
	Ctx    string    `json:"ctx"`
	Ov     bool      `json:"ov"`
	Eps    []epEntry `json:"eps"`
	Fmt    string    `json:"fmt"` // "current" | "old": the form of the advertisement's own signature payload
}

type tcase struct {
	Shape  shape    `json:"shape"`
	Signer string   `json:"signer"`
	Epk    []string `json:"epk"`
	Mut    struct {
		K string `json:"k"`
		I int    `json:"i"`
	} `json:"mut"`
	Out struct {
		Ok bool   `json:"ok"`
		By string `json:"by"`
	} `json:"out"`
}

func mkLink(name string) ipld.Link {
	mh, _ := multihash.Sum([]byte("verif-ad-"+name), multihash.SHA2_256, -1)
	return cidlink.Link{Cid: cid.NewCidV1(cid.DagJSON, mh)}
}

func addr(a string) string {
	switch a {
	case "a1":
		return "/ip4/8.8.8.8/tcp/3101"
	case "a2":
		return "/ip4/8.8.4.4/tcp/3102"
	}
	return "/ip4/9.9.9.9/tcp/3999" // a9: replacement value
}

func addrs(as []string) []string {
	var out []string
	for _, a := range as {
		out = append(out, addr(a))
	}
	return out
}

func build(s *shape, kt string) *schema.Advertisement {
	ad := &schema.Advertisement{
		Provider:  idStr(s.Prov, kt),
		Addresses: addrs(s.Addrs),
		ContextID: ctxBytes(s.Ctx),
		Metadata:  []byte("md-" + s.MD),
		IsRm:      s.Rm,
	}
	if s.Prev != "none" {
		ad.PreviousID = mkLink(s.Prev)
	}
	if s.Ents == "noents" {
		ad.Entries = schema.NoEntries
	} else {
		ad.Entries = mkLink(s.Ents)
	}
	if s.HasExt {
		ep := &schema.ExtendedProvider{Override: s.Ov}
		for _, e := range s.Eps {
			ep.Providers = append(ep.Providers, schema.Provider{ID: idStr(e.ID, kt), Addresses: addrs(e.Addrs), Metadata: []byte("md-" + e.MD)})
		}
		ad.ExtendedProvider = ep
	}
	return ad
}

// idStr: the string that stands for a name of the model where a provider is named -- a peer ID, or for the model's Texts a string
// that is none (a host name, a peer ID cut short)
func idStr(name, kt string) string {
	switch name {
	case "T1":
		return "provider-one.example.net"
	case "T2":
		return ids.PeerT("P", kt).String()[:20]
	}
	return ids.PeerT(name, kt).String()
}

func ctxBytes(c string) []byte {
	if c == "c0" {
		return nil // empty context ID
	}
	return []byte("ctx-" + c)
}

func cloneAd(ad *schema.Advertisement) *schema.Advertisement {
	c := *ad
	c.Addresses = append([]string(nil), ad.Addresses...)
	if ad.ExtendedProvider != nil {
		ep := *ad.ExtendedProvider
		ep.Providers = make([]schema.Provider, len(ad.ExtendedProvider.Providers))
		for i, p := range ad.ExtendedProvider.Providers {
			p.Addresses = append([]string(nil), p.Addresses...)
			ep.Providers[i] = p
		}
		c.ExtendedProvider = &ep
	}
	return &c
}

// sign produces the advertisement signature by signer and entry i's signature by key epk[i].
// nested: every signature of the advertisement under construction is made after another advertisement (other contents, other
// identities, with an extended provider) has been signed completely -- an advertisement is a value, signing one does not touch
// another that is being signed.  Done for a quarter of the cases.

func otherAd(kt string) {
	o := &schema.Advertisement{Provider: ids.PeerT("X", kt).String(), Addresses: []string{"/ip4/7.7.7.7/tcp/7777"}, Entries: schema.NoEntries,
		ContextID: []byte("ctx-of-another-advertisement"), Metadata: []byte("md-of-another-advertisement"), PreviousID: mkLink("A"),
		ExtendedProvider: &schema.ExtendedProvider{Providers: []schema.Provider{{ID: ids.PeerT("X", kt).String(), Addresses: []string{"/ip4/7.7.7.8/tcp/7777"}, Metadata: []byte("md-x")}}}}
	k := ids.KeyT("X", kt)
	o.SignWithExtendedProviders(k, func(string) (crypto.PrivKey, error) { return k, nil })
}

// oldRec seals the advertisement's signature payload in its deprecated form (the signed values themselves under a sha2-256
// multihash header instead of their hash), which VerifySignature still accepts.
type oldRec struct{ payload []byte }

func (r *oldRec) Domain() string                 { return "indexer" }
func (r *oldRec) Codec() []byte                  { return []byte("/indexer/ingest/adSignature") }
func (r *oldRec) MarshalRecord() ([]byte, error) { return r.payload, nil }
func (r *oldRec) UnmarshalRecord(b []byte) error { r.payload = b; return nil }

func sealOld(ad *schema.Advertisement, k crypto.PrivKey) error {
	var buf bytes.Buffer
	if ad.PreviousID != nil {
		buf.Write(ad.PreviousID.(cidlink.Link).Cid.Bytes())
	} else {
		buf.Write(cid.Undef.Bytes())
	}
	buf.Write(ad.Entries.(cidlink.Link).Cid.Bytes())
	buf.WriteString(ad.Provider)
	for _, a := range ad.Addresses {
		buf.WriteString(a)
	}
	buf.Write(ad.Metadata)
	if ad.IsRm {
		buf.WriteByte(1)
	} else {
		buf.WriteByte(0)
	}
	pl, err := multihash.Encode(buf.Bytes(), multihash.SHA2_256)
	if err != nil {
		return err
	}
	env, err := record.Seal(&oldRec{pl}, k)
	if err != nil {
		return err
	}
	ad.Signature, err = env.Marshal()
	return err
}

func keyFor(name, kt string, nested bool) crypto.PrivKey {
	k := ids.KeyT(name, kt)
	if nested {
		return ids.Nest(k, func() { otherAd(kt) })
	}
	return k
}

func sign(ad *schema.Advertisement, tc *tcase, kt string, nested bool) error {
	sk := keyFor(tc.Signer, kt, nested)
	if !tc.Shape.HasExt {
		return ad.Sign(sk)
	}
	// SignWithExtendedProviders signs every entry and then refuses a list that does not name the advertisement's provider: for
	// such a list (the cases "main provider not listed") the refusal is expected and the signatures made so far are kept --
	// whatever the wording of the error
	listsMain := false
	for _, e := range ad.ExtendedProvider.Providers {
		listsMain = listsMain || e.ID == ad.Provider
	}
	ignoreMissingMain := func(err error) error {
		if err != nil && !listsMain && len(ad.ExtendedProvider.Providers) > 0 {
			return nil
		}
		return err
	}
	// a removal: the entries are signed while the advertisement is not yet one (the entry payload does not cover the flag),
	// then the removal itself is signed with Sign, which leaves the list alone
	rm := ad.IsRm
	ad.IsRm = false
	if err := ignoreMissingMain(ad.SignWithExtendedProviders(sk, func(string) (crypto.PrivKey, error) { return sk, nil })); err != nil {
		return err
	}
	for i := range tc.Shape.Eps {
		k := keyFor(tc.Epk[i], kt, nested)
		c := cloneAd(ad)
		if err := ignoreMissingMain(c.SignWithExtendedProviders(k, func(string) (crypto.PrivKey, error) { return k, nil })); err != nil {
			return err
		}
		ad.ExtendedProvider.Providers[i].Signature = c.ExtendedProvider.Providers[i].Signature
	}
	if rm {
		ad.IsRm = true
		ep := ad.ExtendedProvider // Sign refuses an advertisement that carries the list: take it off, sign, put it back
		ad.ExtendedProvider = nil
		err := ad.Sign(sk)
		ad.ExtendedProvider = ep
		return err
	}
	return nil
}

func editEnvelope(sig []byte, what string, kt string) ([]byte, error) {
	var env recpb.Envelope
	if err := proto.Unmarshal(sig, &env); err != nil {
		return nil, err
	}
	switch what {
	case "key":
		pk, err := crypto.PublicKeyToProto(ids.KeyT("Z", kt).GetPublic())
		if err != nil {
			return nil, err
		}
		env.PublicKey = pk
	case "pl":
		mh, _ := multihash.Sum([]byte("tampered"), multihash.SHA2_256, -1)
		env.Payload = mh
	case "sig":
		env.Signature = append([]byte(nil), env.Signature...)
		env.Signature[len(env.Signature)/2] ^= 0x01
	}
	return proto.Marshal(&env)
}

func mutate(ad *schema.Advertisement, tc *tcase, kt string) error {
	m := tc.Mut
	var err error
	ep := func() *schema.Provider { return &ad.ExtendedProvider.Providers[m.I-1] }
	switch m.K {
	case "none":
	case "prev":
		if ad.PreviousID == nil {
			ad.PreviousID = mkLink("A")
		} else {
			ad.PreviousID = nil
		}
	case "ents":
		if ad.Entries == schema.NoEntries {
			ad.Entries = mkLink("E1")
		} else {
			ad.Entries = schema.NoEntries
		}
	case "prov":
		ad.Provider = ids.PeerT("Z", kt).String()
	case "md":
		ad.Metadata = []byte("md-m2")
	case "rm":
		ad.IsRm = !ad.IsRm
	case "addr":
		ad.Addresses[m.I-1] = addr("a9")
	case "ctx":
		ad.ContextID = []byte("ctx-c2")
	case "ov":
		ad.ExtendedProvider.Override = !ad.ExtendedProvider.Override
	case "adkey":
		ad.Signature, err = editEnvelope(ad.Signature, "key", kt)
	case "adpl":
		ad.Signature, err = editEnvelope(ad.Signature, "pl", kt)
	case "adsig":
		ad.Signature, err = editEnvelope(ad.Signature, "sig", kt)
	case "epid":
		ep().ID = ids.PeerT("Z", kt).String()
	case "epaddr":
		if len(ep().Addresses) == 0 {
			ep().Addresses = []string{addr("a9")}
		} else {
			ep().Addresses = nil
		}
	case "epmd":
		ep().Metadata = []byte("md-m2")
	case "epkey":
		ep().Signature, err = editEnvelope(ep().Signature, "key", kt)
	case "eppl":
		ep().Signature, err = editEnvelope(ep().Signature, "pl", kt)
	case "epsig":
		ep().Signature, err = editEnvelope(ep().Signature, "sig", kt)
	case "epswap":
		ep().Signature = ad.Signature
	default:
		return fmt.Errorf("unknown mutation %q", m.K)
	}
	return err
}

// roundTrip encodes and decodes the advertisement with the given codec ("", "json", "cbor").
func roundTrip(ad *schema.Advertisement, codec string) (*schema.Advertisement, error) {
	if codec == "" {
		return ad, nil
	}
	n, err := ad.ToNode()
	if err != nil {
		return nil, err
	}
	var buf bytes.Buffer
	nb := schema.AdvertisementPrototype.NewBuilder()
	if codec == "json" {
		if err = dagjson.Encode(n, &buf); err != nil {
			return nil, err
		}
		if err = dagjson.Decode(nb, &buf); err != nil {
			return nil, err
		}
	} else {
		if err = dagcbor.Encode(n, &buf); err != nil {
			return nil, err
		}
		if err = dagcbor.Decode(nb, &buf); err != nil {
			return nil, err
		}
	}
	return schema.UnwrapAdvertisement(nb.Build())
}

type observed struct {
	Ok    bool   `json:"ok"`
	By    string `json:"by,omitempty"`
	Err   string `json:"err,omitempty"`
	Panic string `json:"panic,omitempty"`
}

func runCase(tc *tcase, kt, codec string, nested bool) (ob observed, infra error) {
	defer func() {
		if e := recover(); e != nil {
			ob.Panic = fmt.Sprint(e)
		}
	}()
	ad := build(&tc.Shape, kt)
	if err := sign(ad, tc, kt, nested); err != nil {
		return ob, fmt.Errorf("sign: %w", err)
	}
	if tc.Shape.Fmt == "old" {
		if err := sealOld(ad, ids.KeyT(tc.Signer, kt)); err != nil {
			return ob, fmt.Errorf("seal in the old form: %w", err)
		}
	}
	if err := mutate(ad, tc, kt); err != nil {
		return ob, fmt.Errorf("mutate: %w", err)
	}
	ad2, err := roundTrip(ad, codec)
	if err != nil {
		return ob, fmt.Errorf("round trip %s: %w", codec, err)
	}
	signer, err := ad2.VerifySignature()
	if err != nil {
		ob.Err = err.Error()
		return ob, nil
	}
	ob.Ok = true
	for _, n := range []string{"P", "X", "S", "Z"} {
		if ids.PeerT(n, kt) == signer {
			ob.By = n
		}
	}
	if ob.By == "" {
		ob.By = "?" + signer.String()
	}
	return ob, nil
}

// flipSweep: every single-bit... every byte of key, payload and signature inside every envelope of an
// honestly signed advertisement is altered once; verification must fail each time.
func flipSweep(tc *tcase, kt string, r *rep.Report) int {
	ad := build(&tc.Shape, kt)
	if err := sign(ad, tc, kt, false); err != nil {
		return 0
	}
	n := 0
	slots := []*[]byte{&ad.Signature}
	if ad.ExtendedProvider != nil {
		for i := range ad.ExtendedProvider.Providers {
			slots = append(slots, &ad.ExtendedProvider.Providers[i].Signature)
		}
	}
	for si, slot := range slots {
		orig := *slot
		var env recpb.Envelope
		if proto.Unmarshal(orig, &env) != nil {
			continue
		}
		for _, field := range []string{"key", "pl", "sig"} {
			var target []byte
			switch field {
			case "key":
				target = env.PublicKey.Data
			case "pl":
				target = env.Payload
			case "sig":
				target = env.Signature
			}
			for i := range target {
				e2 := proto.Clone(&env).(*recpb.Envelope)
				switch field {
				case "key":
					e2.PublicKey.Data = append([]byte(nil), target...)
					e2.PublicKey.Data[i] ^= 0x80
				case "pl":
					e2.Payload = append([]byte(nil), target...)
					e2.Payload[i] ^= 0x80
				case "sig":
					e2.Signature = append([]byte(nil), target...)
					e2.Signature[i] ^= 0x80
				}
				b, err := proto.Marshal(e2)
				if err != nil {
					continue
				}
				*slot = b
				n++
				func() {
					defer func() {
						if e := recover(); e != nil {
							r.Diverge(rep.Divergence{Key: "panic", Case: tc, Detail: fmt.Sprintf("%s: byte %d of %s in envelope %d altered: panic %v", kt, i, field, si, e)})
						}
					}()
					if _, err := ad.VerifySignature(); err == nil {
						r.Diverge(rep.Divergence{Key: "accepted-altered-envelope", Case: tc,
							Detail: fmt.Sprintf("%s: byte %d of the %s inside envelope %d altered, verification still succeeds", kt, i, field, si)})
					}
				}()
			}
		}
		*slot = orig
	}
	return n
}

func Run(args []string) *rep.Report {
	fs := flag.NewFlagSet("c05", flag.ExitOnError)
	file := fs.String("cases", "", "ndjson case table exported by TLC")
	rsaEvery := fs.Int("rsa-every", 400, "run every n-th case with RSA keys as well")
	allKeys := fs.Bool("all-keys", true, "run every case with Ed25519, secp256k1 and ECDSA keys (false: one of them in rotation)")
	sweepEvery := fs.Int("sweep-every", 2000, "byte-alteration sweep on every n-th honest case")
	fs.Parse(args)
	r := rep.New()
	type job struct {
		tc  *tcase
		idx int
	}
	jobs := make(chan job, 256)
	var wg sync.WaitGroup
	var mu sync.Mutex
	execs, sweeps, infra := 0, 0, 0
	for w := 0; w < runtime.NumCPU(); w++ {
		wg.Add(1)
		go func() {
			defer wg.Done()
			for j := range jobs {
				tc := j.tc
				// every case with every key type whose peer ID embeds the key (Ed25519, secp256k1) or hashes it (ECDSA; RSA sampled):
				// a rotation by case index can line up with the enumeration order and never give a key type to a class of cases
				kts := []string{"ed25519", "secp256k1", "ecdsa"}
				if *allKeys == false {
					kts = []string{kts[(j.idx+j.idx/7)%3]}
				}
				if *rsaEvery > 0 && j.idx%*rsaEvery == 0 {
					kts = append(kts, "rsa")
				}
				r.Eval(tc.Mut.K != "none" || len(tc.Shape.Eps) > 0)
				if j.idx%4999 == 0 {
					r.Sample(tc)
				}
				for _, kt := range kts {
					codec := []string{"", "json", "cbor"}[(j.idx/3)%3]
					nested := (j.idx/5)%4 == 0
					ob, err := runCase(tc, kt, codec, nested)
					mu.Lock()
					execs++
					mu.Unlock()
					if err != nil {
						mu.Lock()
						infra++
						mu.Unlock()
						r.SetExtra("infra_example", err.Error())
						continue
					}
					key := ""
					switch {
					case ob.Panic != "":
						key = "panic"
					case tc.Out.Ok && !ob.Ok:
						key = "honest-ad-rejected"
					case !tc.Out.Ok && ob.Ok:
						key = "accepted:" + classify(tc)
					case tc.Out.Ok && ob.By != tc.Out.By:
						key = "wrong-signer-returned"
					}
					if key != "" {
						r.Diverge(rep.Divergence{Key: key, Case: tc, Expected: tc.Out, Observed: ob, Detail: fmt.Sprintf("key type %s codec %s nested signing %v", kt, codec, nested)})
					}
				}
				if tc.Out.Ok && *sweepEvery > 0 && j.idx%*sweepEvery == 0 {
					n := flipSweep(tc, kts[0], r)
					mu.Lock()
					sweeps += n
					mu.Unlock()
				}
			}
		}()
	}
	idx := 0
	err := rep.ReadNDJSON(*file, func(line []byte) error {
		tc := new(tcase)
		if err := json.Unmarshal(line, tc); err != nil {
			return err
		}
		jobs <- job{tc, idx}
		idx++
		return nil
	})
	close(jobs)
	wg.Wait()
	if err != nil {
		r.SetExtra("read_error", err.Error())
	}
	r.SetExtra("impl_executions", execs)
	r.SetExtra("envelope_byte_alterations", sweeps)
	r.Inconclusive = infra
	return r
}

// classify gives accepted-but-should-be-rejected cases a structural key.
func classify(tc *tcase) string {
	if tc.Mut.K != "none" {
		return "mutation-" + tc.Mut.K
	}
	mainListed := len(tc.Shape.Eps) == 0
	for _, e := range tc.Shape.Eps {
		if e.ID == tc.Shape.Prov {
			mainListed = true
		}
	}
	if !mainListed {
		return "main-provider-not-listed"
	}
	return "entry-signed-by-foreign-key"
}
