// Package c13 pushes every shape enumerated by spec/AdSchema.tla through the real IPLD round trip of
// ingest/schema: ToNode, LinkSystem Store / Load with the typed and the generic prototype, Unwrap, BytesTo...
package c13

import (
	"bytes"
	"encoding/json"
	"flag"
	"fmt"
	"github.com/libp2p/go-libp2p/core/peer"
	"math/rand"

	"github.com/ipfs/go-cid"
	"github.com/ipld/go-ipld-prime"
	cidlink "github.com/ipld/go-ipld-prime/linking/cid"
	"github.com/ipld/go-ipld-prime/node/basicnode"
	"github.com/ipni/go-libipni/ingest/schema"
	"github.com/multiformats/go-multihash"

	"verifharness/internal/ids"
	"verifharness/internal/lsys"
	"verifharness/internal/rep"
)

type epProv struct {
	Addrs int    `json:"addrs"`
	MD    string `json:"md"`
	Self  bool   `json:"self"` // the entry names the advertisement's own provider
}

type shape struct {
	Kind    string   `json:"kind"`
	Prov    string   `json:"prov"`
	Prev    bool     `json:"prev"`
	Addrs   int      `json:"addrs"`
	Ctx     string   `json:"ctx"`
	MD      string   `json:"md"`
	Rm      bool     `json:"rm"`
	Entries string   `json:"entries"`
	Ext     string   `json:"ext"`
	Ov      bool     `json:"ov"`
	Eps     []epProv `json:"eps"`
	N       int      `json:"n"`
	Mixed   bool     `json:"mixed"`
	Ent     string   `json:"ent"` // "multihash" | "bare" (a digest without multihash header) | "empty": the schema says Bytes
	Next    bool     `json:"next"`
}

type tcase struct {
	V     shape  `json:"v"`
	Codec string `json:"codec"`
}

func sized(class string, max int, tag byte) []byte {
	switch class {
	case "short":
		return []byte{tag, 1, 2}
	case "max":
		return bytes.Repeat([]byte{tag}, max)
	}
	return []byte{}
}

func link(name string) ipld.Link {
	mh, _ := multihash.Sum([]byte("c13-"+name), multihash.SHA2_256, -1)
	return cidlink.Link{Cid: cid.NewCidV1(cid.DagJSON, mh)}
}

func buildAd(s *shape) *schema.Advertisement {
	ad := &schema.Advertisement{
		Provider:  ids.Peer("c13-prov").String(),
		Signature: []byte("sig"),
		ContextID: sized(s.Ctx, schema.MaxContextIDLen, 0xC0),
		Metadata:  sized(s.MD, schema.MaxMetadataLen, 0xD0),
		IsRm:      s.Rm,
		Entries:   schema.NoEntries,
	}
	switch s.Prov {
	case "cidform": // the same peer ID, spelled as a CID
		ad.Provider = peer.ToCid(ids.Peer("c13-prov")).String()
	case "text":
		ad.Provider = "not a peer ID at all"
	}
	if s.Prev {
		ad.PreviousID = link("prev")
	}
	if s.Entries == "link" {
		ad.Entries = link("entries")
	}
	for i := 0; i < s.Addrs; i++ {
		ad.Addresses = append(ad.Addresses, fmt.Sprintf("/ip4/8.8.8.%d/tcp/3000", i+1))
	}
	if s.Ext == "present" {
		ep := &schema.ExtendedProvider{Override: s.Ov}
		for i, p := range s.Eps {
			pr := schema.Provider{ID: ids.Peer(fmt.Sprintf("c13-ep-%d", i)).String(), Metadata: sized(p.MD, 64, 0xE0), Signature: []byte("epsig")}
			if p.Self {
				pr.ID = ad.Provider
			}
			for a := 0; a < p.Addrs; a++ {
				pr.Addresses = append(pr.Addresses, fmt.Sprintf("/ip4/9.9.%d.%d/tcp/3000", i, a+1))
			}
			ep.Providers = append(ep.Providers, pr)
		}
		ad.ExtendedProvider = ep
	}
	return ad
}

func buildChunk(s *shape) *schema.EntryChunk {
	ec := &schema.EntryChunk{}
	fns := []uint64{multihash.SHA2_256, multihash.SHA2_512, multihash.BLAKE3, multihash.IDENTITY}
	for i := 0; i < s.N; i++ {
		fn := uint64(multihash.SHA2_256)
		if s.Mixed {
			fn = fns[i%len(fns)]
		}
		mh, _ := multihash.Sum([]byte(fmt.Sprintf("c13-entry-%d", i)), fn, -1)
		if i == 0 && s.Ent == "bare" {
			mh = mh[2:] // the digest alone
		} else if i == 0 && s.Ent == "empty" {
			mh = multihash.Multihash{}
		}
		ec.Entries = append(ec.Entries, mh)
	}
	if s.Next {
		ec.Next = link("next")
	}
	return ec
}

func eqStrs(a, b []string) bool {
	if len(a) != len(b) {
		return false
	}
	for i := range a {
		if a[i] != b[i] {
			return false
		}
	}
	return true
}

func linkEq(a, b ipld.Link) bool {
	if (a == nil) != (b == nil) {
		return false
	}
	return a == nil || a.String() == b.String()
}

// adEqual: semantic equality -- byte fields by content, lists by elements, optional parts by presence.
func adEqual(a, b *schema.Advertisement) string {
	switch {
	case !linkEq(a.PreviousID, b.PreviousID):
		return "PreviousID"
	case !linkEq(a.Entries, b.Entries):
		return "Entries"
	case a.Provider != b.Provider:
		return "Provider"
	case !eqStrs(a.Addresses, b.Addresses):
		return "Addresses"
	case !bytes.Equal(a.Signature, b.Signature):
		return "Signature"
	case !bytes.Equal(a.ContextID, b.ContextID):
		return "ContextID"
	case !bytes.Equal(a.Metadata, b.Metadata):
		return "Metadata"
	case a.IsRm != b.IsRm:
		return "IsRm"
	case (a.ExtendedProvider == nil) != (b.ExtendedProvider == nil):
		return "ExtendedProvider presence"
	}
	if a.ExtendedProvider != nil {
		x, y := a.ExtendedProvider, b.ExtendedProvider
		if x.Override != y.Override || len(x.Providers) != len(y.Providers) {
			return "ExtendedProvider"
		}
		for i := range x.Providers {
			p, q := x.Providers[i], y.Providers[i]
			if p.ID != q.ID || !eqStrs(p.Addresses, q.Addresses) || !bytes.Equal(p.Metadata, q.Metadata) || !bytes.Equal(p.Signature, q.Signature) {
				return fmt.Sprintf("ExtendedProvider.Providers[%d]", i)
			}
		}
	}
	return ""
}

func chunkEqual(a, b *schema.EntryChunk) string {
	if !linkEq(a.Next, b.Next) {
		return "Next"
	}
	if len(a.Entries) != len(b.Entries) {
		return "Entries length"
	}
	for i := range a.Entries {
		if !bytes.Equal(a.Entries[i], b.Entries[i]) {
			return fmt.Sprintf("Entries[%d]", i)
		}
	}
	return ""
}

func proto(codec string) cidlink.LinkPrototype {
	lp := schema.Linkproto
	if codec == "dag-cbor" {
		lp.Codec = cid.DagCBOR
	}
	return lp
}

func Run(args []string) *rep.Report {
	fs := flag.NewFlagSet("c13", flag.ExitOnError)
	file := fs.String("cases", "", "ndjson ad shapes exported by TLC")
	chunks := fs.String("chunks", "", "ndjson entry-chunk shapes exported by TLC")
	fuzzEvery := fs.Int("fuzz-every", 20, "truncation / byte-flip sweep on every n-th shape")
	seed := fs.Int64("seed", 1, "seed for byte flips")
	fs.Parse(args)
	r := rep.New()
	rng := rand.New(rand.NewSource(*seed))
	seen := map[string]string{} // cid -> shape json (distinct shapes must get distinct CIDs)
	idx, decodes := 0, 0
	bad := func(key string, tc *tcase, detail string) {
		r.Diverge(rep.Divergence{Key: key, Case: tc, Detail: detail})
	}
	handle := func(line []byte) error {
		tc := new(tcase)
		if err := json.Unmarshal(line, tc); err != nil {
			return err
		}
		idx++
		r.Eval(tc.V.Ext == "present" || tc.V.Prev || tc.V.Next || tc.V.N > 0)
		if idx%2999 == 0 {
			r.Sample(tc)
		}
		func() {
			defer func() {
				if e := recover(); e != nil {
					bad("panic", tc, fmt.Sprint(e))
				}
			}()
			st := lsys.NewStore()
			ls := st.LinkSystem()
			var node ipld.Node
			var err error
			var ad *schema.Advertisement
			var ec *schema.EntryChunk
			if tc.V.Kind == "ad" {
				ad = buildAd(&tc.V)
				node, err = ad.ToNode()
			} else {
				ec = buildChunk(&tc.V)
				node, err = ec.ToNode()
			}
			if err != nil {
				bad("to-node", tc, err.Error())
				return
			}
			l1, err := ls.Store(ipld.LinkContext{}, proto(tc.Codec), node)
			if err != nil {
				bad("store", tc, err.Error())
				return
			}
			l2, err := ls.Store(ipld.LinkContext{}, proto(tc.Codec), node)
			if err != nil || l1.String() != l2.String() {
				bad("cid-not-stable", tc, fmt.Sprintf("%v vs %v (%v)", l1, l2, err))
			}
			key := string(line[:bytes.LastIndex(line, []byte(`,"codec"`))]) + tc.Codec
			if prev, dup := seen[l1.String()]; dup && prev != key {
				bad("distinct-values-same-cid", tc, "another shape produced the same CID: "+prev)
			}
			seen[l1.String()] = key
			c := l1.(cidlink.Link).Cid
			raw, _ := st.Get(c)
			// typed prototype, generic prototype, and the BytesTo... helper
			check := func(how string, get func() (ipld.Node, error)) {
				n, err := get()
				if err != nil {
					bad("load:"+how, tc, err.Error())
					return
				}
				if tc.V.Kind == "ad" {
					got, err := schema.UnwrapAdvertisement(n)
					if err != nil {
						bad("unwrap:"+how, tc, err.Error())
					} else if d := adEqual(ad, got); d != "" {
						bad("round-trip:"+how, tc, "field "+d+" differs")
					} else {
						// the value handed out is the caller's: editing it leaves the node it came from as it was
						got.Provider, got.IsRm, got.Metadata = "edited", !got.IsRm, []byte("edited")
						if len(got.Addresses) > 0 {
							got.Addresses[0] = "/ip4/203.0.113.1/tcp/1"
						}
						if again, err := schema.UnwrapAdvertisement(n); err != nil {
							bad("unwrap:"+how, tc, "second unwrap of the same node: "+err.Error())
						} else if d := adEqual(ad, again); d != "" {
							bad("unwrapped-value-aliases-node", tc, how+": after the first unwrapped value was edited, field "+d+" of a second unwrap of the same node differs")
						}
					}
				} else {
					got, err := schema.UnwrapEntryChunk(n)
					if err != nil {
						bad("unwrap:"+how, tc, err.Error())
					} else if d := chunkEqual(ec, got); d != "" {
						bad("round-trip:"+how, tc, "field "+d+" differs")
					} else {
						if len(got.Entries) > 0 {
							got.Entries[0] = []byte("edited")
						}
						got.Next = nil
						if again, err := schema.UnwrapEntryChunk(n); err != nil {
							bad("unwrap:"+how, tc, "second unwrap of the same node: "+err.Error())
						} else if d := chunkEqual(ec, again); d != "" {
							bad("unwrapped-value-aliases-node", tc, how+": after the first unwrapped value was edited, field "+d+" of a second unwrap of the same node differs")
						}
					}
				}
			}
			typed := ipld.NodePrototype(schema.AdvertisementPrototype)
			if tc.V.Kind != "ad" {
				typed = schema.EntryChunkPrototype
			}
			check("typed", func() (ipld.Node, error) { return ls.Load(ipld.LinkContext{}, l1, typed) })
			check("generic", func() (ipld.Node, error) { return ls.Load(ipld.LinkContext{}, l1, basicnode.Prototype.Any) })
			if tc.V.Kind == "ad" {
				got, err := schema.BytesToAdvertisement(c, raw)
				if err != nil {
					bad("bytes-to", tc, err.Error())
				} else if d := adEqual(ad, &got); d != "" {
					bad("round-trip:bytes-to", tc, "field "+d+" differs")
				}
			} else {
				got, err := schema.BytesToEntryChunk(c, raw)
				if err != nil {
					bad("bytes-to", tc, err.Error())
				} else if d := chunkEqual(ec, &got); d != "" {
					bad("round-trip:bytes-to", tc, "field "+d+" differs")
				}
			}
			// decoder totality on damaged encodings: an error, or a value that can be re-encoded; never a panic
			if *fuzzEvery > 0 && idx%*fuzzEvery == 0 {
				try := func(b []byte, what string) {
					decodes++
					defer func() {
						if e := recover(); e != nil {
							bad("panic", tc, fmt.Sprintf("%s: %v", what, e))
						}
					}()
					if tc.V.Kind == "ad" {
						if v, err := schema.BytesToAdvertisement(c, b); err == nil {
							if _, err := v.ToNode(); err != nil {
								bad("decoded-not-reencodable", tc, what+": "+err.Error())
							}
						}
					} else if v, err := schema.BytesToEntryChunk(c, b); err == nil {
						if _, err := v.ToNode(); err != nil {
							bad("decoded-not-reencodable", tc, what+": "+err.Error())
						}
					}
				}
				step := 1
				if len(raw) > 600 {
					step = len(raw) / 300
				}
				for cut := 0; cut < len(raw); cut += step {
					try(raw[:cut], fmt.Sprintf("truncated to %d of %d bytes", cut, len(raw)))
				}
				for k := 0; k < 64; k++ {
					b := append([]byte(nil), raw...)
					i := rng.Intn(len(b))
					b[i] ^= 1 << uint(rng.Intn(8))
					try(b, fmt.Sprintf("bit flipped in byte %d", i))
				}
			}
		}()
		return nil
	}
	for _, f := range []string{*file, *chunks} {
		if err := rep.ReadNDJSON(f, handle); err != nil {
			r.SetExtra("read_error", err.Error())
		}
	}
	r.SetExtra("damaged_decodes", decodes)
	r.SetExtra("distinct_cids", len(seen))
	return r
}
