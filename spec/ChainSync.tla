------------------------------ MODULE ChainSync ------------------------------
(* C01 -- one sync of an advertisement chain or entries chain by dagsync.Subscriber:
   the option layer of SyncAdChain / asyncSyncAdChain / SyncEntries (which stop point, which
   depth limit, segmented or not), the segmented loop of handler.handle, and the block walk of
   ipnisync.Syncer (local test, request, hook replay after each segment).

   A chain is the blocks 1..n, block i linking to i-1 (block 1 has no link).  A configuration is
   chosen in Init (so TLC enumerates every configuration within the bounds) and the sync then
   runs to completion:

     ChooseStopAndLimit   SyncAdChain L427-L475, asyncSyncAdChain L858-L871, SyncEntries
     DecideSegmentation   handle L1013-L1022
     Visit                one block of Syncer.walkFetch: stop test on the LINK, local test, request
     Hooks                end of one Syncer.Sync: hooks replayed in walk order, loop bookkeeping
     Finish               latest-synced value and notification only when the head was queried

   The declarative side (Expected) is the reading of C01: head, head-1, ... down to but excluding
   the stop point, cut off at the applicable depth limit.  Invariant Done compares everything the
   property talks about; the same run exports every configuration with its expected observations. *)
(* Two variants of every fourth configuration are run by the harness besides the plain one: the same call made once before
   against a publisher that fails the second block request (what that attempt stored is "held locally" for the sync proper:
   the reported blocks, the head, latest-synced and the notification are the same, and nothing else is requested), and a block
   hook that cancels the caller's context at the second block (the sync fails, or it is the whole sync).                  *)
EXTENDS Integers, Sequences, SequencesExt, FiniteSets, TLC, VerifIO

CONSTANTS MaxLen,        \* chain lengths 1..MaxLen
          Depths,        \* positive depth values tried for each of the three depth options
          Segs,          \* positive segment sizes
          Layer,         \* "traversal": every (n, head, stop, limit, segment, pre-stored set) through the per-call options
                         \* "options":   every combination of subscriber / first-sync / per-call options, latest, stop, resync on a fixed chain
                         \* "entries":   entries-chain entry points
          EXPORT, BUG    \* BUG = "none" | "depth-off-by-one": a known-wrong loop exit, to show Done is not vacuous

OFF == 99                \* a CID that is not on the chain
NOPT == 0                \* option not given

VARIABLES cfg,           \* the configuration (constant during a run)
          pc, stop, limit, seg, head, upd,
          cur, left, walk, reported, requested, store, soFar, nextDepth, result, latest, events
vars == <<cfg, pc, stop, limit, seg, head, upd, cur, left, walk, reported, requested, store, soFar, nextDepth, result, latest, events>>

(* cfg fields:
     kind      "ads" | "entries" | "one" | "all"
     n         chain length
     explicit  0 = head is queried from the publisher (= n), else the explicit head 1..n
     latest0   0 = nothing synced yet, 1..n, OFF
     stopOpt   0 = none, 1..n, OFF            (WithStopAdCid)
     resync    BOOLEAN                        (WithAdsResync)
     subDepth  0 | d      (AdsDepthLimit / EntriesDepthLimit; 0 = unlimited)
     firstDepth 0 | d     (FirstSyncDepth)
     callDepth 0 | -1 | d (ScopedDepthLimit; -1 = explicitly unlimited)
     subSeg    -1 | s     (SegmentDepthLimit)
     callSeg   0 | -1 | s (ScopedSegmentDepthLimit)
     pre       SUBSET 1..n  blocks already in the local store                                   *)

DepthOpt0 == {0} \cup Depths
CallDepth == {0, -1} \cup Depths
SubSeg == {-1} \cup Segs
CallSeg == {0, -1} \cup Segs

Configs ==
  CASE Layer = "traversal" ->
         {[kind |-> "ads", n |-> n, explicit |-> e, latest0 |-> 0, stopOpt |-> st, resync |-> FALSE, subDepth |-> 0, firstDepth |-> 0,
           callDepth |-> cd, subSeg |-> -1, callSeg |-> cs, pre |-> p] :
            n \in 1..MaxLen, e \in 0..MaxLen, st \in (0..MaxLen) \cup {OFF}, cd \in CallDepth \ {-1}, cs \in CallSeg \ {-1}, p \in SUBSET (1..MaxLen)}
    [] Layer = "options" ->
         {[kind |-> "ads", n |-> MaxLen, explicit |-> e, latest0 |-> l0, stopOpt |-> st, resync |-> rs, subDepth |-> sd, firstDepth |-> fd,
           callDepth |-> cd, subSeg |-> ss, callSeg |-> cs, pre |-> p] :
            e \in {0, MaxLen - 1}, l0 \in {0, 1, MaxLen - 1, MaxLen, OFF}, st \in {0, 1, MaxLen, OFF}, rs \in BOOLEAN,
            sd \in DepthOpt0, fd \in DepthOpt0, cd \in CallDepth, ss \in SubSeg, cs \in CallSeg, p \in {{}, {MaxLen - 1}}}
    [] Layer = "entries" ->
         {[kind |-> k, n |-> n, explicit |-> e, latest0 |-> 0, stopOpt |-> 0, resync |-> FALSE, subDepth |-> sd, firstDepth |-> 0,
           callDepth |-> cd, subSeg |-> ss, callSeg |-> 0, pre |-> p] :
            k \in {"entries", "one", "all"}, n \in 1..MaxLen, e \in 1..MaxLen, sd \in DepthOpt0, cd \in CallDepth, ss \in SubSeg, p \in SUBSET (1..MaxLen)}
WellFormed(c) == c.explicit <= c.n /\ c.pre \subseteq 1..c.n /\ (c.stopOpt \in 1..MaxLen => c.stopOpt <= c.n)
                 /\ (c.latest0 \in 1..MaxLen => c.latest0 <= c.n)
                 /\ (c.kind # "ads" => c.explicit >= 1)
                 /\ (c.kind \in {"one", "all"} => c.subDepth = 0 /\ c.callDepth = 0 /\ c.subSeg = -1)

Init == /\ cfg \in {c \in Configs : WellFormed(c)}
        /\ pc = "options" /\ stop = 0 /\ limit = 0 /\ seg = -1 /\ head = 0 /\ upd = FALSE
        /\ cur = 0 /\ left = 0 /\ walk = <<>> /\ reported = <<>> /\ requested = <<>> /\ store = cfg.pre
        /\ soFar = 0 /\ nextDepth = 0 /\ result = 0 /\ latest = cfg.latest0 /\ events = <<>>
Cfg == UNCHANGED cfg

(* recursionLimit(): values < 1 mean unlimited (0 here) *)
RL(d) == IF d < 1 THEN 0 ELSE d

---------------------------------------------------------------------------
(* The option layer.  stop = 0: no stop point; limit = 0: unlimited. *)
ChooseStopAndLimit ==
  /\ pc = "options"
  /\ LET c == cfg
         hd == IF c.explicit = 0 THEN c.n ELSE c.explicit
     IN CASE c.kind = "ads" ->
               LET st == IF c.resync THEN c.stopOpt
                         ELSE IF c.stopOpt # 0 THEN c.stopOpt ELSE c.latest0
                   lim0 == IF c.callDepth # 0 THEN RL(c.callDepth) ELSE c.subDepth
                   lim == IF st = 0 /\ c.firstDepth # 0 /\ c.callDepth = 0 THEN c.firstDepth ELSE lim0
                   sg == IF c.callSeg # 0 THEN c.callSeg ELSE c.subSeg
               IN /\ head' = hd /\ upd' = (c.explicit = 0) /\ stop' = st /\ limit' = lim /\ seg' = sg
                  /\ IF st # 0 /\ st = hd
                     THEN /\ pc' = "done" /\ result' = hd      \* "cid to sync to is the stop node. Nothing to do"
                     ELSE /\ pc' = "segdecide" /\ UNCHANGED result
          [] c.kind = "entries" ->
               /\ head' = hd /\ upd' = FALSE /\ stop' = 0
               /\ limit' = IF c.callDepth # 0 THEN RL(c.callDepth) ELSE c.subDepth
               /\ seg' = c.subSeg /\ pc' = "segdecide" /\ UNCHANGED result
          [] c.kind = "one" ->      \* selectorOne: recursion depth 0 = the block itself
               /\ head' = hd /\ upd' = FALSE /\ stop' = 0 /\ limit' = 1 /\ seg' = -1 /\ pc' = "segdecide" /\ UNCHANGED result
          [] c.kind = "all" ->
               /\ head' = hd /\ upd' = FALSE /\ stop' = 0 /\ limit' = 0 /\ seg' = -1 /\ pc' = "segdecide" /\ UNCHANGED result
  /\ UNCHANGED <<cur, left, walk, reported, requested, store, soFar, nextDepth, latest, events>> /\ Cfg

Segmented == seg > 0 /\ ~(limit > 0 /\ limit <= seg)

DecideSegmentation ==
  /\ pc = "segdecide"
  /\ cur' = head /\ pc' = "visit"
  /\ nextDepth' = IF Segmented THEN seg ELSE 0
  /\ left' = IF Segmented THEN seg ELSE (IF limit > 0 THEN limit ELSE -1)
  /\ UNCHANGED <<stop, limit, seg, head, upd, walk, reported, requested, store, soFar, result, latest, events>> /\ Cfg

(* One block of the walk.  The block is taken from the local store if present, otherwise requested
   from the publisher (and then stored).  The walk goes on to the previous block unless there is
   none, its link is the stop link, or the depth of this Sync call is used up.                      *)
Visit ==
  /\ pc = "visit"
  /\ IF cur \in store THEN UNCHANGED <<requested, store>>
     ELSE requested' = Append(requested, cur) /\ store' = store \cup {cur}
  /\ walk' = Append(walk, cur)
  /\ IF cur - 1 >= 1 /\ cur - 1 # stop /\ (left = -1 \/ left > 1)
     THEN cur' = cur - 1 /\ left' = (IF left = -1 THEN -1 ELSE left - 1) /\ pc' = "visit"
     ELSE pc' = "hooks" /\ UNCHANGED <<cur, left>>
  /\ UNCHANGED <<stop, limit, seg, head, upd, reported, soFar, nextDepth, result, latest, events>> /\ Cfg

(* End of one Syncer.Sync: the block hook is called for the walked blocks in walk order; in a
   segmented sync the hook names the next CID (the previous link of the last block).               *)
Hooks ==
  /\ pc = "hooks"
  /\ reported' = reported \o walk /\ walk' = <<>>
  /\ IF ~Segmented THEN pc' = "finish" /\ UNCHANGED <<soFar, nextDepth, cur, left>>
     ELSE LET sf == soFar + nextDepth
              nx == walk[Len(walk)] - 1
              exhausted == IF BUG = "depth-off-by-one" THEN sf > limit ELSE sf >= limit IN
          /\ soFar' = sf
          /\ IF nx = 0 \/ nx = stop \/ (limit > 0 /\ exhausted)
             THEN pc' = "finish" /\ UNCHANGED <<nextDepth, cur, left>>
             ELSE LET nd == IF limit > 0 /\ limit - sf < seg THEN limit - sf ELSE nextDepth IN
                  /\ nextDepth' = nd /\ cur' = nx /\ left' = nd /\ pc' = "visit"
  /\ UNCHANGED <<stop, limit, seg, head, upd, requested, store, result, latest, events>> /\ Cfg

Finish ==
  /\ pc = "finish"
  /\ result' = head /\ pc' = "done"
  /\ IF upd THEN latest' = head /\ events' = Append(events, [cid |-> head, count |-> Len(reported)])
     ELSE UNCHANGED <<latest, events>>
  /\ UNCHANGED <<stop, limit, seg, head, upd, cur, left, walk, reported, requested, store, soFar, nextDepth>> /\ Cfg

Next == ChooseStopAndLimit \/ DecideSegmentation \/ Visit \/ Hooks \/ Finish
Spec == Init /\ [][Next]_vars

---------------------------------------------------------------------------
(* Declarative reading of C01 for a configuration. *)
RECURSIVE Down(_, _, _, _)
Down(b, st, lim, k) == IF b < 1 \/ b = st \/ (lim > 0 /\ k >= lim) THEN <<>> ELSE <<b>> \o Down(b - 1, st, lim, k + 1)

EHead(c) == IF c.explicit = 0 THEN c.n ELSE c.explicit
EStop(c) == IF c.kind # "ads" THEN 0
            ELSE IF c.resync THEN c.stopOpt ELSE IF c.stopOpt # 0 THEN c.stopOpt ELSE c.latest0
ELimit(c) == CASE c.kind = "one" -> 1
               [] c.kind = "all" -> 0
               [] c.kind = "entries" -> (IF c.callDepth # 0 THEN RL(c.callDepth) ELSE c.subDepth)
               [] OTHER -> IF c.callDepth # 0 THEN RL(c.callDepth)              \* per-call limit wins
                           ELSE IF EStop(c) = 0 /\ c.firstDepth # 0 THEN c.firstDepth   \* first sync: nothing to stop at
                           ELSE c.subDepth
Expected(c) == IF EStop(c) # 0 /\ EStop(c) = EHead(c) THEN <<>> ELSE Down(EHead(c), EStop(c), ELimit(c), 0)
NothingToDo(c) == c.kind = "ads" /\ EStop(c) # 0 /\ EStop(c) = EHead(c)
Records(c) == c.kind = "ads" /\ c.explicit = 0 /\ ~NothingToDo(c)      \* latest-synced is recorded and a notification sent

SeqMinus(s, S) == SelectSeq(s, LAMBDA x : x \notin S)

Done == pc = "done" =>
  LET E == Expected(cfg) IN
    /\ reported = E                                           \* exactly once each, newest to oldest
    /\ requested = SeqMinus(E, cfg.pre)                       \* nothing local, nothing at or beyond the stop point
    /\ \A i \in 1..Len(E) : E[i] \in store                    \* all readable afterwards
    /\ result = EHead(cfg)
    /\ latest = (IF Records(cfg) THEN EHead(cfg) ELSE cfg.latest0)
    /\ events = (IF Records(cfg) THEN <<[cid |-> EHead(cfg), count |-> Len(E)]>> ELSE <<>>)

ExportCase == (EXPORT /\ pc = "done") =>
  Emit("c01_cases.ndjson", [cfg |-> [cfg EXCEPT !.pre = SetToSeq(cfg.pre)], reported |-> reported, requested |-> requested, result |-> result,
                            latest |-> latest, events |-> events, segmented |-> Segmented])
=============================================================================
