------------------------------- MODULE IngestAPI -------------------------------
(* The HTTP client of the ingest API (ingest/client/client.go): New, Announce, IndexContent, Register -- and the way an
   announcement made with it travels on: client -> CBOR message on the wire -> announce.Receiver.Direct -> Next.
   No listed property is about the client alone (C18 reads the requests it signs, C10 the message it encodes, C09 the
   receiver it feeds); this module is coverage of the system, not a claim (check X02).

   (1) New(baseURL): the URL must parse and have the scheme http or https (in any spelling of the letters); its PATH is
       dropped, its QUERY is kept; anything else is refused and nothing ever reaches the wire.
   (2) Every operation is one request whose method, path and content type depend on the operation only.
   (3) The reply: Announce succeeds on 200 and on 204, IndexContent and Register on 200 only (a 204 is an error there);
       every other status is an API error that keeps the status, and whose text is the body without surrounding white
       space -- or, for a body of white space only, the status line ("404 Not Found").
   (4) Announce(provider, root): the message carries root and one address per address of the provider, each with the
       provider's ID appended; a provider without addresses gives a message whose only address is the bare /p2p/ID (the
       other side still learns who announces); a provider without ID is refused before anything is sent.  Decoded on the other side and handed to a Receiver, the announcement that comes
       out of Next carries the same CID, the provider's ID and the provider's addresses.                            *)
EXTENDS Integers, Sequences, FiniteSets, TLC, VerifIO

CONSTANT EXPORT

Ops == {"Announce", "IndexContent", "Register"}
Bases == {"plain",          \* http://host:port
          "slash",          \* http://host:port/
          "path",           \* http://host:port/some/prefix
          "path-slash",     \* http://host:port/some/prefix/
          "query",          \* http://host:port/?via=x02
          "path-query",     \* http://host:port/some/prefix?via=x02
          "upper-scheme",   \* HTTP://host:port
          "https",          \* https://host:port (a TLS server, the client given through WithClient)
          "noscheme",       \* host:port
          "otherscheme",    \* ftp://host:port
          "relative",       \* /some/prefix
          "empty"}
Statuses == {200, 201, 204, 400, 404, 500}
BodyKinds == {"empty", "text", "padded-text", "spaces", "json-error"}

BaseOk(b) == b \notin {"noscheme", "otherscheme", "relative", "empty"}
QueryOf(b) == IF b \in {"query", "path-query"} THEN "via=x02" ELSE ""

Wire(op) == CASE op = "Announce"     -> [method |-> "PUT",  path |-> "/ingest/announce", ctype |-> "application/octet-stream"]
              [] op = "IndexContent" -> [method |-> "POST", path |-> "/ingest/content",  ctype |-> "application/octet-stream"]
              [] op = "Register"     -> [method |-> "POST", path |-> "/register",        ctype |-> "application/octet-stream"]

Accepted(op, st) == st = 200 \/ (op = "Announce" /\ st = 204)
Text(st, body) == CASE st = 204 \/ body \in {"empty", "spaces"} -> "status-line"       \* a 204 has no body, whatever the server meant to say
                [] body \in {"text", "padded-text"} -> "the-text"
                [] OTHER -> "the-json-as-it-is"          \* the client does not decode an encoded API error: the caller gets the document

Cases == [op : Ops, base : Bases, status : Statuses, body : BodyKinds]
Call(c) ==
  IF ~BaseOk(c.base) THEN [new |-> "refused", sent |-> FALSE, result |-> "none", status |-> 0, text |-> "none"]
  ELSE IF Accepted(c.op, c.status) THEN [new |-> "ok", sent |-> TRUE, result |-> "ok", status |-> 0, text |-> "none"]
  ELSE [new |-> "ok", sent |-> TRUE, result |-> "api-error", status |-> c.status, text |-> Text(c.status, c.body)]

ASSUME \A c \in Cases :
   LET o == Call(c) IN
   /\ o.sent <=> BaseOk(c.base)                                             \* a refused base URL never reaches the wire
   /\ o.result = "ok" <=> (BaseOk(c.base) /\ c.status \in {200, 204} /\ (c.status = 204 => c.op = "Announce"))
   /\ o.result = "api-error" => o.status = c.status /\ o.status # 0         \* the status survives
   /\ (o.result = "api-error" /\ c.body \in {"text", "padded-text"} /\ c.status # 204) => o.text = "the-text"
ASSUME \A o1, o2 \in Ops : Wire(o1).path = Wire(o2).path => o1 = o2          \* one endpoint per operation
ASSUME \A op \in Ops : Wire(op).method = "PUT" <=> op = "Announce"

(* (4) the announcement *)
Providers == [id : {"set", "unset"}, addrs : 0..3, private : BOOLEAN]       \* private: one of the addresses is a loopback one
Announced(p) ==
  IF p.id = "unset" THEN [sent |-> FALSE, naddrs |-> 0, withid |-> FALSE]
  ELSE [sent |-> TRUE, naddrs |-> IF p.addrs = 0 THEN 1 ELSE p.addrs, withid |-> TRUE]
Delivered(p, filter) ==       \* what comes out of Receiver.Next when the decoded message is handed to Receiver.Direct
  IF p.id = "unset" THEN "nothing"
  ELSE IF filter /\ p.private /\ p.addrs > 0 THEN "without-the-private-address"
  ELSE "all-addresses"
ASSUME \A p \in Providers : Announced(p).sent => Announced(p).withid /\ Announced(p).naddrs >= 1 /\ Announced(p).naddrs >= p.addrs

ASSUME EXPORT => \A c \in Cases : Emit("x02_cases.ndjson", [c |-> c, wire |-> Wire(c.op), query |-> QueryOf(c.base), out |-> Call(c)])
ASSUME EXPORT => \A p \in Providers : \A f \in BOOLEAN :
                   Emit("x02_announce.ndjson", [p |-> p, filter |-> f, msg |-> Announced(p), delivered |-> Delivered(p, f)])

VARIABLE dummy
Init == dummy = 0
Next == UNCHANGED dummy
Spec == Init /\ [][Next]_dummy
=============================================================================
