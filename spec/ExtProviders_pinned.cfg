SPECIFICATION Spec
CONSTANTS
  Ids = {"m", "x"}
  Mds = {"nil", "empty", "L", "A"}
  Lookups = {"L"}
  MaxLen = 2
  MaxSum = 2
  FIXED = FALSE
  EXPORT = FALSE
INVARIANTS Laws
