----------------------------- MODULE AdSignature -----------------------------
(* C05 -- advertisement signatures (ingest/schema/envelope.go) over a symbolic model of
   signatures: a signature envelope is [typ, key, pl, sby, spl] -- payload type, embedded public
   key, payload, and "signature made by key sby over payload spl"; it opens iff it has the
   expected type and sby = key /\ spl = pl (unforgeability is assumed, its USE is what is
   checked).  Payloads are the tuples of signed values of envelope.go (the real code
   concatenates them without delimiters, which is why only single-value changes are claimed).

     Sign      -- what Sign / SignWithExtendedProviders produce for a given assignment of keys
                  to extended-provider entries (the key fetcher may hand out any key);
     Mutate    -- one single-value change of the signed advertisement, or a change of the key /
                  payload / signature inside one envelope;
     Verify    -- transcription of VerifySignature (FIXED = FALSE: the pinned code, which never
                  compares an entry's envelope key with the identity the entry names);
     (Signing is a function of the values: the harness also signs a quarter of the cases with keys that sign another
      advertisement first -- nothing of one signing may show in another.)
     Out       -- the declarative reading of C05: accepted iff nothing was changed, the main
                  provider is listed when there are extended providers, and every entry is
                  signed by the identity it names (the ad's signer for the main provider).   *)
EXTENDS Integers, Sequences, FiniteSets, TLC, VerifIO

CONSTANTS Ids,       \* identities = keys; "P" is the advertisement's provider
          Signers,   \* who may sign the advertisement (provider or a separate publisher)
          MaxEps, FIXED, EXPORT,
          SLIM,      \* TRUE: only lists of exactly MaxEps extended providers on one fixed ad body (the pairs, cheaply)
          Texts      \* names that are NO identities (strings that are not peer IDs): they may stand where a provider is named -- the
                     \* advertisement's provider, an entry's ID -- but no key belongs to them ({}: none)
Prov == "P"
Other == "Z"          \* an identity that never appears honestly (attacker / replacement value)

VARIABLES shape, signer, epk, mut, stage
vars == <<shape, signer, epk, mut, stage>>

(* ---- value space ---- *)
AddrSeqs == {<<>>, <<"a1">>, <<"a1", "a2">>}
EpEntries == [id : Ids \cup Texts, addrs : {<<>>, <<"a1">>}, md : {"m1"}]
EpSeqs == IF SLIM THEN [1..MaxEps -> [id : Ids \cup Texts, addrs : {<<>>}, md : {"m1"}]] ELSE UNION {[1..n -> EpEntries] : n \in 0..MaxEps}
(* fmt: the form of the advertisement's own signature payload -- "current" (the hash of the signed values) or "old" (the
   deprecated form VerifySignature still accepts: the values themselves under a multihash header); whichever it is, everything
   else is verified the same way                                                                                           *)
Shapes == IF SLIM
          THEN [prev : {"A"}, ents : {"E1"}, prov : {Prov} \cup Texts, addrs : {<<>>}, md : {"m1"}, rm : BOOLEAN,
                hasExt : {TRUE}, ctx : {"c1"}, ov : BOOLEAN, eps : EpSeqs \cup {<<>>}, fmt : {"current", "old"}]
          ELSE [prev : {"none", "A"}, ents : {"noents", "E1"}, prov : {Prov} \cup Texts, addrs : AddrSeqs, md : {"m1"}, rm : BOOLEAN,
                hasExt : BOOLEAN, ctx : {"c0", "c1"}, ov : BOOLEAN, eps : EpSeqs, fmt : {"current"}]      \* "c0" = empty context ID
(* A removal with extended providers: SignWithExtendedProviders refuses to make one, but the advertisement signature does not
   cover the list, so entries (signed while it was not a removal) can be attached to a removal signed with Sign.               *)
WellShaped(s) == (~s.hasExt => s.eps = <<>> /\ ~s.ov)

AdPl(ad) == <<"ad", ad.fmt, ad.prev, ad.ents, ad.prov, ad.addrs, ad.md, ad.rm>>
EpPl(ad, p) == <<"ep", ad.prev, ad.ents, ad.prov, ad.ctx, p.id, p.addrs, p.md, ad.ov>>
Env(typ, k, pl) == [typ |-> typ, key |-> k, pl |-> pl, sby |-> k, spl |-> pl]
Opens(e, typ) == e.typ = typ /\ e.sby = e.key /\ e.spl = e.pl

(* ---- signing: keys[i] is the key the fetcher returned for entry i ---- *)
Sign(s, sg, keys) ==
  [s EXCEPT !.eps = [i \in 1..Len(s.eps) |-> [id |-> s.eps[i].id, addrs |-> s.eps[i].addrs, md |-> s.eps[i].md,
                                                 env |-> Env("ep", keys[i], EpPl(s, s.eps[i]))]]]
  @@ [env |-> Env("ad", sg, AdPl(s))]
Proper(s, sg, i) == IF s.eps[i].id = s.prov THEN sg ELSE s.eps[i].id

(* ---- single mutations ---- *)
Muts(s) ==
  {[k |-> "none", i |-> 0]} \cup
  {[k |-> x, i |-> 0] : x \in {"prev", "ents", "prov", "md", "rm", "adkey", "adpl", "adsig"}} \cup
  {[k |-> "addr", i |-> j] : j \in 1..Len(s.addrs)} \cup
  \* context ID and override are signed only through the extended-provider entries
  (IF Len(s.eps) > 0 THEN {[k |-> x, i |-> 0] : x \in {"ctx", "ov"}} ELSE {}) \cup
  {[k |-> x, i |-> j] : x \in {"epid", "epaddr", "epmd", "epkey", "eppl", "epsig", "epswap"}, j \in 1..Len(s.eps)}

Flip(v, a, b) == IF v = a THEN b ELSE a
SetEp(ad, j, f(_)) == [ad EXCEPT !.eps = [i \in 1..Len(ad.eps) |-> IF i = j THEN f(ad.eps[i]) ELSE ad.eps[i]]]
Mutate(ad, m) ==
  CASE m.k = "none"  -> ad
    [] m.k = "prev"  -> [ad EXCEPT !.prev = Flip(@, "none", "A")]
    [] m.k = "ents"  -> [ad EXCEPT !.ents = Flip(@, "noents", "E1")]
    [] m.k = "prov"  -> [ad EXCEPT !.prov = Other]
    [] m.k = "md"    -> [ad EXCEPT !.md = "m2"]
    [] m.k = "rm"    -> [ad EXCEPT !.rm = ~@]
    [] m.k = "addr"  -> [ad EXCEPT !.addrs[m.i] = "a9"]
    [] m.k = "ctx"   -> [ad EXCEPT !.ctx = "c2"]
    [] m.k = "ov"    -> [ad EXCEPT !.ov = ~@]
    [] m.k = "adkey" -> [ad EXCEPT !.env.key = Other]
    [] m.k = "adpl"  -> [ad EXCEPT !.env.pl = <<"ad", "tampered">>]
    [] m.k = "adsig" -> [ad EXCEPT !.env.sby = Other]
    [] m.k = "epid"  -> SetEp(ad, m.i, LAMBDA e : [e EXCEPT !.id = Other])
    [] m.k = "epaddr" -> SetEp(ad, m.i, LAMBDA e : [e EXCEPT !.addrs = IF @ = <<>> THEN <<"a9">> ELSE <<>>])
    [] m.k = "epmd"  -> SetEp(ad, m.i, LAMBDA e : [e EXCEPT !.md = "m2"])
    [] m.k = "epkey" -> SetEp(ad, m.i, LAMBDA e : [e EXCEPT !.env.key = Other])
    [] m.k = "eppl"  -> SetEp(ad, m.i, LAMBDA e : [e EXCEPT !.env.pl = <<"ep", "tampered">>])
    [] m.k = "epsig" -> SetEp(ad, m.i, LAMBDA e : [e EXCEPT !.env.sby = Other])
    [] m.k = "epswap" -> SetEp(ad, m.i, LAMBDA e : [e EXCEPT !.env = ad.env])   \* the ad's own envelope in an entry's slot

(* ---- VerifySignature ---- *)
Reject == [ok |-> FALSE, by |-> ""]
Accept(s) == [ok |-> TRUE, by |-> s]
Verify(ad) ==
  IF ~Opens(ad.env, "ad") \/ ad.env.pl # AdPl(ad) THEN Reject
  ELSE LET s == ad.env.key IN
       IF ~ad.hasExt THEN Accept(s)
       ELSE IF ad.rm /\ Len(ad.eps) > 0 THEN Reject        \* no entry of a removal can be verified
       ELSE IF \E i \in 1..Len(ad.eps) :
                  \/ ~Opens(ad.eps[i].env, "ep")
                  \/ ad.eps[i].env.pl # EpPl(ad, ad.eps[i])
                  \/ (FIXED /\ ad.eps[i].env.key # (IF ad.eps[i].id = ad.prov THEN s ELSE ad.eps[i].id))
            THEN Reject
       ELSE IF Len(ad.eps) > 0 /\ ~\E i \in 1..Len(ad.eps) : ad.eps[i].id = ad.prov THEN Reject
       ELSE Accept(s)

(* ---- the property ---- *)
Honest == /\ mut.k = "none" /\ ~(shape.rm /\ Len(shape.eps) > 0)
          /\ (Len(shape.eps) > 0 => \E i \in 1..Len(shape.eps) : shape.eps[i].id = shape.prov)
          /\ \A i \in 1..Len(shape.eps) : epk[i] = Proper(shape, signer, i)
Out == IF Honest THEN Accept(signer) ELSE Reject

Init == shape \in {s \in Shapes : WellShaped(s) /\ s.eps = <<>> /\ s.addrs = <<>>} /\ signer \in Signers /\ epk = <<>>
        /\ mut = [k |-> "none", i |-> 0] /\ stage = 0
PickLists == /\ stage = 0 /\ stage' = 1 /\ UNCHANGED <<signer, mut>>
             /\ \E a \in (IF SLIM THEN {<<>>} ELSE AddrSeqs), e \in EpSeqs :
                  /\ (shape.hasExt \/ e = <<>>)
                  /\ shape' = [shape EXCEPT !.addrs = a, !.eps = e]
                  /\ epk' \in [1..Len(e) -> Ids \cup {Other}]
PickMut == /\ stage = 1 /\ stage' = 2 /\ UNCHANGED <<shape, signer, epk>>
           /\ mut' \in Muts(shape)
Next == PickLists \/ PickMut
Spec == Init /\ [][Next]_vars
Complete == stage = 2

Result == Verify(Mutate(Sign(shape, signer, epk), mut))
Agree == Complete => Result = Out
(* verification returns the peer ID of the key that signed *)
ReturnsSigner == (Complete /\ Result.ok) => Result.by = signer
ExportCase == (Complete /\ EXPORT) =>
   Emit("c05_cases.ndjson", [shape |-> shape, signer |-> signer, epk |-> epk, mut |-> mut, out |-> Out])
=============================================================================
