---------------------------- MODULE ExtProviders ----------------------------
(* C17 -- expansion of a provider record into find results (pcache.GetResults).

   The module has two independent descriptions of the expansion:
     * Expand      -- operational, transcribed from GetResults: index loops over the
                      provider list with a look-up into the metadata list at the same
                      index (FIXED = FALSE reproduces the pinned code: unchecked index,
                      context-level substitution only for nil metadata);
     * Declared    -- the IPNI rules of property C17 written as sequence algebra.
   TLC enumerates every record (actions PickChain, PickCtx; one stage-2 state per record x query), checks
   that the two agree (invariant Agree), checks the clauses of C17 as separate laws and
   exports [in, out] for every state; the Go harness pushes each case through a real
   ProviderCache.                                                                       *)
EXTENDS Integers, Sequences, FiniteSets, TLC, VerifIO

CONSTANTS Ids,        \* identities that may appear in extended-provider lists; "m" is the main provider
          Mds,        \* metadata classes an entry may carry: "nil", "empty", "L" (= looked-up), "A" (different)
          Lookups,    \* classes of the looked-up metadata: "L", "nil"
          MaxLen,     \* maximum length of a provider list
          MaxSum,     \* bound on Len(chain list) + Len(contextual list)
          FIXED,      \* TRUE: repaired expansion; FALSE: pinned code
          EXPORT      \* TRUE: write the case table

Main == "m"
Ctx1 == "c1"          \* the context id that has contextual extended providers (when present)
Queries == {"c1", "c2"}

VARIABLES rec, q, l, stage     \* stage 0: nothing chosen, 1: chain level chosen, 2: complete case
vars == <<rec, q, l, stage>>

SeqsUpTo(S, n) == UNION {[1..k -> S] : k \in 0..n}

(* A provider list with its metadata list; mism = 0 same length, -1 metadata one shorter,
   1 metadata one longer (extra value "A").                                              *)
Lists == { [p |-> ps, m |-> ms] :
             ps \in SeqsUpTo(Ids, MaxLen), ms \in SeqsUpTo(Mds, MaxLen + 1) }
WellSized(x) == Len(x.m) = Len(x.p)
Sized(x) == \/ Len(x.m) = Len(x.p)
            \/ Len(x.m) = Len(x.p) - 1
            \/ (Len(x.m) = Len(x.p) + 1 /\ x.m[Len(x.m)] = "A")
GoodLists == {x \in Lists : Sized(x)}
EmptyList == [p |-> <<>>, m |-> <<>>]

WellFormed(r) == WellSized(r.ch) /\ WellSized(r.cx)

---------------------------------------------------------------------------
(* Operational transcription of GetResults. *)
NoMd(md) == md \in {"nil", "empty"}
Ok(s) == [kind |-> "ok", res |-> s]
Panic == [kind |-> "panic", res |-> <<>>]

RECURSIVE Loop(_, _, _, _, _)
Loop(x, i, acc, look, ctxLevel) ==
  IF i > Len(x.p) THEN Ok(acc)
  ELSE IF i > Len(x.m) /\ ~FIXED THEN Panic                    \* metadatas[i] out of range
  ELSE LET xmd == IF i > Len(x.m) THEN "nil" ELSE x.m[i]
           sub == IF ctxLevel /\ ~FIXED THEN xmd = "nil" ELSE NoMd(xmd)   \* pinned: ctx level tests == nil
       IN IF x.p[i] = Main /\ (NoMd(xmd) \/ xmd = look)
          THEN Loop(x, i + 1, acc, look, ctxLevel)
          ELSE Loop(x, i + 1, Append(acc, [id |-> x.p[i], md |-> IF sub THEN look ELSE xmd]), look, ctxLevel)

Expand(r, qq, look) ==
  LET first == <<[id |-> Main, md |-> look]>> IN
  IF ~r.has THEN Ok(first)
  ELSE LET registered == r.cxp /\ qq = Ctx1
           a == IF registered THEN Loop(r.cx, 1, first, look, TRUE) ELSE Ok(first)
       IN IF a.kind = "panic" THEN Panic
          ELSE IF registered /\ r.ov THEN a
          ELSE Loop(r.ch, 1, a.res, look, FALSE)

---------------------------------------------------------------------------
(* Declarative reading of C17 (only for well-formed records). *)
(* an entry beyond the end of the metadata list has no metadata of its own (absent) *)
Zip(x) == [i \in 1..Len(x.p) |-> [id |-> x.p[i], md |-> IF i <= Len(x.m) THEN x.m[i] ELSE "nil"]]
AddsNothing(e, look) == e.id = Main /\ (NoMd(e.md) \/ e.md = look)
MapKeep(s, look) ==
  LET keep == SelectSeq(s, LAMBDA e : ~AddsNothing(e, look))
  IN [i \in 1..Len(keep) |-> [id |-> keep[i].id, md |-> IF NoMd(keep[i].md) THEN look ELSE keep[i].md]]
Declared(r, qq, look) ==
  LET registered == r.has /\ r.cxp /\ qq = Ctx1
      ctxPart == IF registered THEN MapKeep(Zip(r.cx), look) ELSE <<>>
      chPart  == IF r.has /\ ~(registered /\ r.ov) THEN MapKeep(Zip(r.ch), look) ELSE <<>>
  IN <<[id |-> Main, md |-> look]>> \o ctxPart \o chPart

(* Lists of different lengths: "results or an error, never a panic" -- if results are produced they
   follow the same rules, a missing metadata value counting as absent.                              *)
Out(r, qq, look) == [kind |-> IF WellFormed(r) THEN "exact" ELSE "exact_or_error", res |-> Declared(r, qq, look)]

---------------------------------------------------------------------------
(* The case is chosen in two steps so that TLC's workers share the enumeration. *)
NoExt == [has |-> FALSE, ch |-> EmptyList, cxp |-> FALSE, ov |-> FALSE, cx |-> EmptyList]
Init == rec = NoExt /\ q = "c1" /\ l \in Lookups /\ stage = 0
PickChain == /\ stage = 0 /\ stage' = 1 /\ UNCHANGED <<q, l>>
             /\ \/ rec' = NoExt
                \/ \E c \in GoodLists : rec' = [NoExt EXCEPT !.has = TRUE, !.ch = c]
PickCtx == /\ stage = 1 /\ stage' = 2 /\ UNCHANGED l /\ q' \in Queries
           /\ \/ rec' = rec
              \/ rec.has /\ \E o \in BOOLEAN, x \in GoodLists :
                      /\ Len(x.p) + Len(rec.ch.p) <= MaxSum
                      /\ rec' = [rec EXCEPT !.cxp = TRUE, !.ov = o, !.cx = x]
Next == PickChain \/ PickCtx
Spec == Init /\ [][Next]_vars
Complete == stage = 2

R == Expand(rec, q, l)

(* Clauses of C17 as separate laws over a result r of the transcription. *)
AgreeOf(r) == (WellFormed(rec) \/ FIXED) => r = Ok(Declared(rec, q, l))
HeadIsMainOf(r) == r.kind = "ok" => Len(r.res) >= 1 /\ r.res[1] = [id |-> Main, md |-> l]
NeverPanicsOf(r) == FIXED => r.kind = "ok"
NoEmptyMetadataOf(r) ==   \* substitution: nobody is returned with absent/empty metadata unless the looked-up one is
  (r.kind = "ok" /\ FIXED /\ ~NoMd(l)) => \A i \in 1..Len(r.res) : ~NoMd(r.res[i].md)
OverrideHidesChainOf(r) ==
  (r.kind = "ok" /\ WellFormed(rec) /\ rec.has /\ rec.cxp /\ rec.ov /\ q = Ctx1)
     => Len(r.res) <= 1 + Len(rec.cx.p)
MainSkippedOnlyWhenRedundantOf(r) ==
  (r.kind = "ok" /\ WellFormed(rec)) =>
     \A i \in 2..Len(r.res) : r.res[i].id = Main => (r.res[i].md # l /\ ~NoMd(r.res[i].md))

(* One invariant per clause (for diagnosis) and their conjunction evaluated on a single
   expansion (what the cfgs use: TLC does not memoise R across invariants).             *)
Agree == Complete => AgreeOf(R)
HeadIsMain == Complete => HeadIsMainOf(R)
NeverPanics == Complete => NeverPanicsOf(R)
NoEmptyMetadata == Complete => NoEmptyMetadataOf(R)
OverrideHidesChain == Complete => OverrideHidesChainOf(R)
MainSkippedOnlyWhenRedundant == Complete => MainSkippedOnlyWhenRedundantOf(R)
Laws == Complete => LET r == R IN
          /\ AgreeOf(r) /\ HeadIsMainOf(r) /\ NeverPanicsOf(r) /\ NoEmptyMetadataOf(r)
          /\ OverrideHidesChainOf(r) /\ MainSkippedOnlyWhenRedundantOf(r)

ExportCase == (Complete /\ EXPORT) => Emit("c17_cases.ndjson", [rec |-> rec, q |-> q, l |-> l, out |-> Out(rec, q, l)])
=============================================================================
