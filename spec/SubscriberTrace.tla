-------------------------- MODULE SubscriberTrace --------------------------
(* Trace validation for dagsync.Subscriber (C08, C14, C15).  The harness runs a real Subscriber
   under the gate scheduler (one goroutine at a time; every yield hook of the library is an event,
   recorded while the goroutine is parked, so file order is execution order) and this module replays
   the events on the abstract state of Subscriber.tla:

     pending[p]   the announcement slot of publisher p (0 = empty)
     asyncH[p]    goroutine holding p's asyncMutex        syncH[p]  goroutine holding p's syncMutex
     semCnt       announce-triggered syncs holding the concurrency semaphore (bound: cfgSem, 0 = none)
     latest[p]    latest-synced advertisement             reported[p]  blocks handed to the block hook
     inEv         notifications sent to the distributor and not yet taken (channel of capacity 1)
     dlist        listeners in the distributor's list     expect[l]  what listener l must receive

   Every event carries the enabling condition of its spec action (a lock must be free when it is
   taken, the message taken must be the last one swapped in, ...); a trace in which the code took a
   step the specification does not allow is rejected, and the rejected line is reported.  "final.*"
   events carry the end-of-run observations: the quiescence clause of C08 and the per-listener
   sequences of C14 are checked there.

   STRICT = TRUE: announce-only runs -- every advertisement must be reported exactly once.
   STRICT = FALSE: runs mixed with explicit syncs -- the exactly-once / final-latest clauses are
   evaluated outside (known findings F-C08-1..3), everything else is checked the same.          *)
EXTENDS Integers, Sequences, FiniteSets, TLC, Json, IOUtils

CONSTANT STRICT
Trace == ndJsonDeserialize(IOEnv.VERIF_TRACE)
MaxP == 4
MaxG == 6000
MaxL == 4

VARIABLES l, cfgSem, nAds, pending, asyncH, syncH, semCnt, latest, reported, took, cur, inEv, dlist, expect, regFlight, rmFlight,
          closeRet, closing, errEvents, owe, everErr, xcall, distExited, cfgSeg, users, hexists, oweX
vars == <<l, cfgSem, nAds, pending, asyncH, syncH, semCnt, latest, reported, took, cur, inEv, dlist, expect, regFlight, rmFlight, closeRet, closing, errEvents, owe, everErr, xcall, distExited, cfgSeg, users, hexists, oweX>>

Ev == Trace[l]
ErrOf == "err" \in DOMAIN Ev /\ Ev.err
Is(e) == l <= Len(Trace) /\ Ev.ev = e /\ l' = l + 1
ZeroP == [p \in 1..MaxP |-> 0]
Fresh == /\ pending' = ZeroP /\ asyncH' = ZeroP /\ syncH' = ZeroP /\ semCnt' = 0 /\ latest' = ZeroP
         /\ reported' = [p \in 1..MaxP |-> <<>>] /\ took' = [g \in 1..MaxG |-> 0] /\ cur' = [g \in 1..MaxG |-> <<>>]
         /\ inEv' = <<>> /\ dlist' = <<>> /\ expect' = [k \in 1..MaxL |-> <<>>] /\ regFlight' = 0 /\ rmFlight' = 0
         /\ closeRet' = FALSE /\ closing' = FALSE /\ errEvents' = {} /\ owe' = {} /\ everErr' = FALSE /\ xcall' = [g \in 1..MaxG |-> 0] /\ distExited' = FALSE
         /\ users' = ZeroP /\ hexists' = [p \in 1..MaxP |-> FALSE] /\ oweX' = {}

Init == /\ l = 1 /\ cfgSem = 0 /\ nAds = 0 /\ pending = ZeroP /\ asyncH = ZeroP /\ syncH = ZeroP /\ semCnt = 0 /\ latest = ZeroP
        /\ reported = [p \in 1..MaxP |-> <<>>] /\ took = [g \in 1..MaxG |-> 0] /\ cur = [g \in 1..MaxG |-> <<>>]
        /\ inEv = <<>> /\ dlist = <<>> /\ expect = [k \in 1..MaxL |-> <<>>] /\ regFlight = 0 /\ rmFlight = 0 /\ closeRet = FALSE /\ closing = FALSE /\ errEvents = {} /\ owe = {} /\ everErr = FALSE /\ xcall = [g \in 1..MaxG |-> 0] /\ distExited = FALSE /\ cfgSeg = 0
        /\ users = ZeroP /\ hexists = [p \in 1..MaxP |-> FALSE] /\ oweX = {}

Keep(vs) == UNCHANGED vs
Reset == Is("reset") /\ cfgSem' = Ev.n /\ nAds' = Ev.c /\ cfgSeg' = Ev.g /\ Fresh       \* g: the segment depth limit of this run (0: none)

(* events without a state change *)
Skips == {"env.entries", "env.entries.ret",       \* an entries sync of a publisher: a sync like any other for the publisher's lock and the hooks (HLocked, Hook, HUnlock)
          "w.next", "i.tick", "x.wait", "env.nested", "env.announce.denied", "d.select", "g.entry", "h.prelock", "env.xcancel", "env.announce.ret", "env.explicit",
          "e.enter", "l.preadd", "l.added", "l.prerm", "env.cancel.ret", "env.close", "c.expclosed",
          "c.expdone", "c.watchdone", "c.asyncdone", "c.inclosed", "final.end"}
Skip == /\ l <= Len(Trace) /\ Ev.ev \in Skips /\ l' = l + 1
        /\ UNCHANGED <<cfgSem, nAds, pending, asyncH, syncH, semCnt, latest, reported, took, cur, inEv, dlist, expect, regFlight, rmFlight, closeRet, closing, errEvents, owe, everErr, xcall, distExited, cfgSeg, users, hexists, oweX>>

U1 == <<cfgSem, nAds>>

(* an announcement of (p, c): an earlier failure for the same CID no longer excuses a missing sync -- the failed sync
   un-cached the CID, so this announcement must be acted on (C04: a failed sync does not impair later ones)          *)
EnvAnnounce == /\ Is("env.announce") /\ errEvents' = errEvents \ {<<Ev.p, Ev.c>>}
               /\ UNCHANGED <<cfgSem, nAds, pending, asyncH, syncH, semCnt, latest, reported, took, cur, inEv, dlist, expect, regFlight, rmFlight, closeRet, closing, owe, everErr, xcall, distExited, cfgSeg, users, hexists, oweX>>

(* ---- announcement hand-off (C08: coalescing, at most one pending) ---- *)
SwapFirst == /\ Is("w.swap.first") /\ pending[Ev.p] = 0 /\ pending' = [pending EXCEPT ![Ev.p] = Ev.c]
             /\ UNCHANGED <<cfgSem, nAds, asyncH, syncH, semCnt, latest, reported, took, cur, inEv, dlist, expect, regFlight, rmFlight, closeRet, closing, errEvents, owe, everErr, xcall, distExited, cfgSeg, users, hexists, oweX>>
SwapReplaced == /\ Is("w.swap.replaced") /\ pending[Ev.p] # 0 /\ pending' = [pending EXCEPT ![Ev.p] = Ev.c]
                /\ UNCHANGED <<cfgSem, nAds, asyncH, syncH, semCnt, latest, reported, took, cur, inEv, dlist, expect, regFlight, rmFlight, closeRet, closing, errEvents, owe, everErr, xcall, distExited, cfgSeg, users, hexists, oweX>>
GLocked == /\ Is("g.locked") /\ asyncH[Ev.p] = 0 /\ users[Ev.p] > 0 /\ asyncH' = [asyncH EXCEPT ![Ev.p] = Ev.g]
           /\ UNCHANGED <<cfgSem, nAds, pending, syncH, semCnt, latest, reported, took, cur, inEv, dlist, expect, regFlight, rmFlight, closeRet, closing, errEvents, owe, everErr, xcall, distExited, cfgSeg, users, hexists, oweX>>
(* C08: no more announce-triggered syncs at once than the configured maximum *)
GSem == /\ Is("g.sem") /\ asyncH[Ev.p] = Ev.g
        /\ (cfgSem > 0 => semCnt < cfgSem \/ closing)
        /\ semCnt' = semCnt + 1
        /\ UNCHANGED <<cfgSem, nAds, pending, asyncH, syncH, latest, reported, took, cur, inEv, dlist, expect, regFlight, rmFlight, closeRet, closing, errEvents, owe, everErr, xcall, distExited, cfgSeg, users, hexists, oweX>>
(* the message acted on is the last one swapped in *)
GTook == /\ Is("g.took") /\ asyncH[Ev.p] = Ev.g /\ pending[Ev.p] = Ev.c /\ Ev.c # 0
         /\ pending' = [pending EXCEPT ![Ev.p] = 0] /\ took' = [took EXCEPT ![Ev.g] = Ev.c]
         /\ UNCHANGED <<cfgSem, nAds, asyncH, syncH, semCnt, latest, reported, cur, inEv, dlist, expect, regFlight, rmFlight, closeRet, closing, errEvents, owe, everErr, xcall, distExited, cfgSeg, users, hexists, oweX>>
(* C04 / C14: an announce-triggered sync that ran (took the publisher's sync lock) has sent its notification, success or error,
   before its goroutine ends                                                                                               *)
GExit == /\ Is("g.exit") /\ asyncH[Ev.p] = Ev.g /\ syncH[Ev.p] # Ev.g /\ Ev.g \notin owe
         /\ asyncH' = [asyncH EXCEPT ![Ev.p] = 0] /\ semCnt' = semCnt - 1
         /\ UNCHANGED <<cfgSem, nAds, pending, syncH, latest, reported, took, cur, inEv, dlist, expect, regFlight, rmFlight, closeRet, closing, errEvents, owe, everErr, xcall, distExited, cfgSeg, users, hexists, oweX>>

(* ---- one sync at a time per publisher (C08) ---- *)
HLocked == /\ Is("h.locked") /\ syncH[Ev.p] = 0 /\ users[Ev.p] > 0 /\ ~closeRet
           /\ syncH' = [syncH EXCEPT ![Ev.p] = Ev.g] /\ cur' = [cur EXCEPT ![Ev.g] = <<>>]
           /\ owe' = IF asyncH[Ev.p] = Ev.g THEN owe \cup {Ev.g} ELSE owe
           /\ UNCHANGED <<cfgSem, nAds, pending, asyncH, semCnt, latest, reported, took, inEv, dlist, expect, regFlight, rmFlight, closeRet, closing, errEvents, everErr, xcall, distExited, cfgSeg, users, hexists, oweX>>
(* block-hook calls belong to the sync that holds the publisher's lock; none after Close returned (C15) *)
XStart == /\ Is("env.explicit.start") /\ xcall' = [xcall EXCEPT ![Ev.g] = Ev.n]
          /\ UNCHANGED <<cfgSem, nAds, pending, asyncH, syncH, semCnt, latest, reported, took, cur, inEv, dlist, expect, regFlight, rmFlight, closeRet, closing, errEvents, owe, everErr, distExited, cfgSeg, users, hexists, oweX>>
(* ... and go to the hook of that very sync: an explicit sync's own (scoped) hook, numbered n, is called by the goroutine of
   explicit sync n and by no other; syncs without one use the subscriber's hook (n = 0)                                   *)
Hook == /\ Is("hook") /\ syncH[Ev.p] = Ev.g /\ ~closeRet /\ Ev.n = xcall[Ev.g]
        /\ cur' = [cur EXCEPT ![Ev.g] = Append(@, Ev.c)] /\ reported' = [reported EXCEPT ![Ev.p] = Append(@, Ev.c)]
        /\ UNCHANGED <<cfgSem, nAds, pending, asyncH, syncH, semCnt, latest, took, inEv, dlist, expect, regFlight, rmFlight, closeRet, closing, errEvents, owe, everErr, xcall, distExited, cfgSeg, users, hexists, oweX>>
HUnlock == /\ Is("h.unlock") /\ syncH[Ev.p] = Ev.g /\ syncH' = [syncH EXCEPT ![Ev.p] = 0]
           /\ UNCHANGED <<cfgSem, nAds, pending, asyncH, semCnt, latest, reported, took, cur, inEv, dlist, expect, regFlight, rmFlight, closeRet, closing, errEvents, owe, everErr, xcall, distExited, cfgSeg, users, hexists, oweX>>

(* C14: an explicit sync of a queried head that completed (e.synced) records the head as latest and sends its notification
   before it returns -- also when the head is the one recorded already (a resync)                                       *)
ESynced == /\ Is("e.synced") /\ oweX' = oweX \cup {Ev.g}
           /\ UNCHANGED <<cfgSem, nAds, pending, asyncH, syncH, semCnt, latest, reported, took, cur, inEv, dlist, expect, regFlight, rmFlight, closeRet, closing, errEvents, owe, everErr, xcall, distExited, cfgSeg, users, hexists>>
XRet == /\ Is("env.explicit.ret") /\ (~ErrOf => Ev.g \notin oweX) /\ oweX' = oweX \ {Ev.g}
        /\ UNCHANGED <<cfgSem, nAds, pending, asyncH, syncH, semCnt, latest, reported, took, cur, inEv, dlist, expect, regFlight, rmFlight, closeRet, closing, errEvents, owe, everErr, xcall, distExited, cfgSeg, users, hexists>>
EHead == /\ Is("e.head") /\ took' = [took EXCEPT ![Ev.g] = Ev.c]
         /\ UNCHANGED <<cfgSem, nAds, pending, asyncH, syncH, semCnt, latest, reported, cur, inEv, dlist, expect, regFlight, rmFlight, closeRet, closing, errEvents, owe, everErr, xcall, distExited, cfgSeg, users, hexists, oweX>>

(* ---- recording and notification (C14: one notification per completed sync, latest first) ---- *)
(* sendSyncFinishedEvent: latest is set and then the notification is sent; the hook sits between the two,
   the send itself wakes the distributor, so the notification counts as sent from here on (the
   "recorded" hooks that follow may be overtaken by the distributor's).                                *)
Push(e) == inEv' = Append(inEv, e)
LatestSet == /\ Is("s.latestset") /\ took[Ev.g] = Ev.c /\ syncH[Ev.p] # Ev.g
             /\ latest' = [latest EXCEPT ![Ev.p] = Ev.c]
             /\ Push([p |-> Ev.p, c |-> Ev.c, count |-> Len(cur[Ev.g]), err |-> 0]) /\ owe' = owe \ {Ev.g} /\ oweX' = oweX \ {Ev.g}
             /\ UNCHANGED <<cfgSem, nAds, pending, asyncH, syncH, semCnt, reported, took, cur, dlist, expect, regFlight, rmFlight, closeRet, closing, errEvents, everErr, xcall, distExited, cfgSeg, users, hexists>>
Recorded == /\ (Is("g.recorded") \/ Is("e.recorded")) /\ (took[Ev.g] = Ev.c \/ Ev.ev = "e.recorded")
            /\ UNCHANGED <<cfgSem, nAds, pending, asyncH, syncH, semCnt, latest, reported, took, cur, inEv, dlist, expect, regFlight, rmFlight, closeRet, closing, errEvents, owe, everErr, xcall, distExited, cfgSeg, users, hexists, oweX>>
Failed == /\ Is("g.failed") /\ took[Ev.g] = Ev.c
          /\ Push([p |-> Ev.p, c |-> Ev.c, count |-> 0, err |-> 1]) /\ errEvents' = errEvents \cup {<<Ev.p, Ev.c>>}
          /\ owe' = owe \ {Ev.g} /\ everErr' = TRUE
          /\ UNCHANGED <<cfgSem, nAds, pending, asyncH, syncH, semCnt, latest, reported, took, cur, dlist, expect, regFlight, rmFlight, closeRet, closing, xcall, distExited, cfgSeg, users, hexists, oweX>>
(* the distributor takes the oldest notification and hands it to every listener in its list *)
(* Notifications of different publishers may reach the distributor in either order (their senders are
   parked between setting latest and sending); per publisher the order of completion is kept.        *)
FirstOf(p) == CHOOSE i \in 1..Len(inEv) : inEv[i].p = p /\ \A j \in 1..(i - 1) : inEv[j].p # p
(* runs mixed with explicit syncs: the order of a publisher's notifications is judged outside (F-C08-2) *)
AnyOf(p, c) == CHOOSE i \in 1..Len(inEv) : inEv[i].p = p /\ inEv[i].c = c /\ \A j \in 1..(i - 1) : ~(inEv[j].p = p /\ inEv[j].c = c)
DEvent == /\ Is("d.event") /\ ~closeRet
          /\ IF STRICT THEN \E i \in 1..Len(inEv) : inEv[i].p = Ev.p ELSE \E i \in 1..Len(inEv) : inEv[i].p = Ev.p /\ inEv[i].c = Ev.c
          /\ LET i == IF STRICT THEN FirstOf(Ev.p) ELSE AnyOf(Ev.p, Ev.c) e == inEv[i] IN
             /\ e.c = Ev.c
             /\ inEv' = SubSeq(inEv, 1, i - 1) \o SubSeq(inEv, i + 1, Len(inEv))
             /\ expect' = [k \in 1..MaxL |-> IF \E x \in 1..Len(dlist) : dlist[x] = k
                                             THEN expect[k] \o <<e.p, e.c, e.count, e.err>> ELSE expect[k]]
          /\ UNCHANGED <<cfgSem, nAds, pending, asyncH, syncH, semCnt, latest, reported, took, cur, dlist, regFlight, rmFlight, closeRet, closing, errEvents, owe, everErr, xcall, distExited, cfgSeg, users, hexists, oweX>>
EnvReg == /\ Is("env.reg") /\ regFlight = 0 /\ regFlight' = Ev.n
          /\ UNCHANGED <<cfgSem, nAds, pending, asyncH, syncH, semCnt, latest, reported, took, cur, inEv, dlist, expect, rmFlight, closeRet, closing, errEvents, owe, everErr, xcall, distExited, cfgSeg, users, hexists, oweX>>
DAdd == /\ Is("d.add") /\ regFlight # 0 /\ dlist' = Append(dlist, regFlight) /\ regFlight' = 0
        /\ UNCHANGED <<cfgSem, nAds, pending, asyncH, syncH, semCnt, latest, reported, took, cur, inEv, expect, rmFlight, closeRet, closing, errEvents, owe, everErr, xcall, distExited, cfgSeg, users, hexists, oweX>>
(* the distributor has handed out everything and closed the listeners' channels *)
DExit == /\ Is("d.exit") /\ distExited' = TRUE
         /\ UNCHANGED <<cfgSem, nAds, pending, asyncH, syncH, semCnt, latest, reported, took, cur, inEv, dlist, expect, regFlight, rmFlight, closeRet, closing, errEvents, owe, everErr, xcall, cfgSeg, users, hexists, oweX>>
(* a registration returns: with a live channel once the distributor has added it, or -- only when the distributor has gone --
   with a channel that is already closed (C14: a listener registered before a sync finished receives its notification)  *)
EnvRegRet == /\ Is("env.reg.ret")
             /\ IF regFlight # 0 THEN distExited /\ regFlight' = 0 ELSE UNCHANGED regFlight      \* never added: refused
             /\ UNCHANGED <<cfgSem, nAds, pending, asyncH, syncH, semCnt, latest, reported, took, cur, inEv, dlist, expect, rmFlight, closeRet, closing, errEvents, owe, everErr, xcall, distExited, cfgSeg, users, hexists, oweX>>
EnvCancel == /\ Is("env.cancel") /\ rmFlight' = Ev.n
             /\ UNCHANGED <<cfgSem, nAds, pending, asyncH, syncH, semCnt, latest, reported, took, cur, inEv, dlist, expect, regFlight, closeRet, closing, errEvents, owe, everErr, xcall, distExited, cfgSeg, users, hexists, oweX>>
DRm == /\ Is("d.rm") /\ rmFlight # 0 /\ dlist' = SelectSeq(dlist, LAMBDA k : k # rmFlight) /\ rmFlight' = 0
       /\ UNCHANGED <<cfgSem, nAds, pending, asyncH, syncH, semCnt, latest, reported, took, cur, inEv, expect, regFlight, closeRet, closing, errEvents, owe, everErr, xcall, distExited, cfgSeg, users, hexists, oweX>>

(* ---- shutdown (C15): when Close returns nothing is running any more ---- *)
CloseRet == /\ Is("env.close.ret") /\ ~ErrOf
            /\ \A p \in 1..MaxP : syncH[p] = 0 /\ asyncH[p] = 0
            /\ closeRet' = TRUE
            /\ UNCHANGED <<cfgSem, nAds, pending, asyncH, syncH, semCnt, latest, reported, took, cur, inEv, dlist, expect, regFlight, rmFlight, errEvents, closing, owe, everErr, xcall, distExited, cfgSeg, users, hexists, oweX>>

CClosing == /\ Is("c.closing") /\ closing' = TRUE
            /\ UNCHANGED <<cfgSem, nAds, pending, asyncH, syncH, semCnt, latest, reported, took, cur, inEv, dlist, expect, regFlight, rmFlight, closeRet, errEvents, owe, everErr, xcall, distExited, cfgSeg, users, hexists, oweX>>

(* ---- end-of-run observations ---- *)
Count(s, x) == Cardinality({i \in 1..Len(s) : s[i] = x})
(* C08 quiescence: latest = last announced head (or an error notification for it was delivered), and
   every advertisement up to it was reported exactly once                                           *)
FinalLatest ==
  /\ Is("final.latest")
  /\ (STRICT /\ ~closeRet) =>
        /\ (Ev.c = Ev.n \/ <<Ev.p, Ev.n>> \in errEvents)
        /\ (~everErr => \A a \in 1..Ev.n : Count(reported[Ev.p], a) = 1)
        /\ \A a \in 1..Ev.c : Count(reported[Ev.p], a) >= 1
        \* a segmented sync that fails has reported its completed segments, and the retry reports them again
        /\ (~everErr \/ cfgSeg = 0) => \A a \in 1..nAds : Count(reported[Ev.p], a) <= 1
  /\ Ev.c = latest[Ev.p]
  /\ UNCHANGED <<cfgSem, nAds, pending, asyncH, syncH, semCnt, latest, reported, took, cur, inEv, dlist, expect, regFlight, rmFlight, closeRet, closing, errEvents, owe, everErr, xcall, distExited, cfgSeg, users, hexists, oweX>>
(* C14: every listener got exactly the notifications forwarded while it was registered, in order, and
   its channel was closed afterwards                                                                *)
QSeq == IF "q" \in DOMAIN Ev THEN Ev.q ELSE <<>>
FinalListener ==
  /\ Is("final.listener")
  /\ QSeq = expect[Ev.n]
  /\ ~ErrOf
  /\ UNCHANGED <<cfgSem, nAds, pending, asyncH, syncH, semCnt, latest, reported, took, cur, inEv, dlist, expect, regFlight, rmFlight, closeRet, closing, errEvents, owe, everErr, xcall, distExited, cfgSeg, users, hexists, oweX>>

(* ---- handler lifecycle (C08): a publisher's handler -- its two locks and its pending slot -- stays for as long as anything
   uses it: the watcher between looking it up and handing the message over, the goroutine that is going to take the pending
   message, an explicit sync from looking it up to its return.  The idle handler cleaner removes a handler only when nothing
   uses it; a handler removed while in use would give the publisher a second set of locks and so a second sync at a time. ---- *)
Others == <<cfgSem, nAds, pending, asyncH, syncH, semCnt, latest, reported, took, cur, inEv, dlist, expect, regFlight, rmFlight, closeRet, closing, errEvents, owe, everErr, xcall, distExited, cfgSeg>>
Acquire == /\ (Is("w.recv") \/ Is("e.handler"))
           /\ users' = [users EXCEPT ![Ev.p] = @ + 1] /\ hexists' = [hexists EXCEPT ![Ev.p] = TRUE]
           /\ UNCHANGED <<Others, oweX>>
Release == /\ Is("r.release") /\ users[Ev.p] > 0 /\ users' = [users EXCEPT ![Ev.p] = @ - 1]
           /\ UNCHANGED <<Others, hexists, oweX>>
IdleRemoved == /\ Is("i.removed") /\ hexists[Ev.p]
               /\ users[Ev.p] = 0 /\ asyncH[Ev.p] = 0 /\ syncH[Ev.p] = 0 /\ pending[Ev.p] = 0
               /\ hexists' = [hexists EXCEPT ![Ev.p] = FALSE]
               /\ UNCHANGED <<Others, users, oweX>>
(* end of run: the handlers that exist (RemoveHandler says so) are those taken and not removed since; nothing is in flight *)
FinalHandlers == /\ Is("final.handlers")
                 /\ {QSeq[i] : i \in 1..Len(QSeq)} = {p \in 1..MaxP : hexists[p]}
                 /\ \A p \in 1..MaxP : users[p] = 0
                 /\ inEv = <<>>            \* C14: every notification that was sent has been taken by the distributor
                 /\ UNCHANGED <<Others, users, hexists, oweX>>

Next == Reset \/ Skip \/ EnvAnnounce \/ XStart \/ DExit \/ EnvRegRet \/ SwapFirst \/ SwapReplaced \/ GLocked \/ GSem \/ GTook \/ GExit \/ HLocked \/ Hook \/ HUnlock \/ EHead
        \/ LatestSet \/ Recorded \/ Failed \/ DEvent \/ EnvReg \/ DAdd \/ EnvCancel \/ DRm \/ CloseRet \/ CClosing \/ FinalLatest \/ FinalListener \/ Acquire \/ Release \/ IdleRemoved \/ FinalHandlers \/ ESynced \/ XRet
Spec == Init /\ [][Next]_vars

Accepted == TLCGet("stats").diameter - 1 = Len(Trace)
=============================================================================
