---------------------------- MODULE ProviderCache ----------------------------
(* pcache.ProviderCache (C06, C07): the writer side (Refresh, fetchMissing) with its one-slot
   lock, the write map with its stamps, the atomically published read snapshot (m, u), the
   merge rule, the TTL clock, readers, and an environment of provider sources.

   Implementation-shaped: a refresh is  RefreshBegin / one RefreshFetch (or RefreshCancel) per
   source / RefreshPublish ; a cache miss is  MissBegin / one MissFetch per source /
   MissPublish ; a call that finds the writer lock taken is parked in `waiter` and proceeds
   when the lock is free (WaiterProceed).  The environment may change between any two steps,
   in particular between two source fetches of one refresh.  A lookup that finds the refresh
   interval elapsed starts the automatic refresh: a Refresh in a goroutine of its own, which takes
   the writer lock if it is free and otherwise waits for the holder like any second Refresh; the
   lookup itself returns at once (GetHit(p, 1)).

   FIXED = TRUE  models the repaired Refresh (all sources are fetched first; sequence number
                 and write map are touched only when every source has answered);
   FIXED = FALSE models the pinned Refresh (seq++ first, each source folded into the write map
                 as it is fetched, so a refresh cancelled part-way leaves stamps behind).

   Abstract values: a provider record is its version 1..MaxVer (larger = later
   LastAdvertisementTime); in snapshots NONE = not in the map, 0 = negative entry (nil).     *)
EXTENDS Integers, Sequences, FiniteSets, TLC, VerifIO

CONSTANTS SrcSeq,      \* sequence of sources, in the order the cache queries them
          ProvSeq,     \* sequence of providers (order only used for export)
          MaxVer,
          TTL,         \* in clock units; a Tick advances the clock by TickLen
          TickLen,
          MaxTicks,
          MaxCalls,    \* bound on API calls (Refresh, Get); internal steps of a call are free
          MaxEnv,      \* bound on environment changes after the initial state
          FIXED,
          EXPORT,      \* write behaviours at terminal states
          InitFree,    \* arbitrary initial source contents
          WithWaiter,  \* allow one call to be parked on the writer lock
          MaxAuto,     \* how many times the refresh interval may elapse (0: no automatic refresh)
          PREGHOST     \* TRUE: the snapshot a publication started from is part of the state (ghost `pre`), so that the same
                       \* published snapshot reached from different predecessors -- an update that was still in the update
                       \* map, or already merged -- gives different states and both histories are exported and replayed

Src == {SrcSeq[i] : i \in 1..Len(SrcSeq)}
Prov == {ProvSeq[i] : i \in 1..Len(ProvSeq)}
N == Len(SrcSeq)
NONE == -1

VARIABLES content,   \* [Src -> [Prov -> 0..MaxVer]]   0 = source does not report the provider
          up,        \* [Src -> BOOLEAN]               FALSE = source fails every request
          now, ticks,
          seq,       \* pc.seq
          write,     \* [Prov -> [ver, sq, us, ex]]    ver NONE = no entry, 0 = negative entry
          rM, rU,    \* published snapshot
          w,         \* the call holding the writer lock (pc = "idle": lock free)
          waiter,    \* the call parked on the writer lock
          seen,      \* ghost: newest version applied for p since it last left the write map
          rep,       \* ghost: providers reported by a responding source in the last completed refresh
          goneAt,    \* ghost: clock value of the first completed refresh that found p unreported (0: reported)
          prevVis,   \* ghost: Visible before the last publish
          hi,        \* ghost: newest version any fetch (even of a cancelled refresh) returned for p since it last left the cache
          last,      \* kind of the last completed step
          lastArg,   \* provider and return value of the last completed miss
          calls, envs, h,
          autos,     \* how often the refresh interval has elapsed
          pre,       \* ghost (PREGHOST): the published snapshot <<rM, rU>> the last publication started from
          resets     \* ghost: clock value at which p's armed removal timer was last cleared because a source reported p again (0: never);
                     \* part of the VIEW so that histories with a disappearance and a return are explored and exported as such

vars == <<content, up, now, ticks, seq, write, rM, rU, w, waiter, seen, rep, goneAt, prevVis, hi, last, lastArg, calls, envs, h, autos, resets, pre>>
view == <<content, up, now, ticks, seq, write, rM, rU, w, waiter, seen, rep, goneAt, prevVis, hi, last, lastArg, calls, envs, autos, resets, pre>>

NoEnt == [ver |-> NONE, sq |-> 0, us |-> 0, ex |-> 0]
AnyProv == ProvSeq[1]
Zero == [p \in Prov |-> 0]
Idle == [pc |-> "idle", i |-> 0, acc |-> <<>>, p |-> AnyProv, best |-> 0, sq |-> 0, fm |-> Zero, auto |-> FALSE]
NoWaiter == [kind |-> "none", p |-> AnyProv]

Max(a, b) == IF a > b THEN a ELSE b
NeedMerge(u, m) == u * (u + 1) > m * 2
Card(f) == Cardinality({p \in Prov : f[p] # NONE})
Visible(p) == IF rU[p] # NONE THEN rU[p] ELSE rM[p]
VisSeq == [i \in 1..Len(ProvSeq) |-> Visible(ProvSeq[i])]
VisSeqOf(m, u) == [i \in 1..Len(ProvSeq) |-> IF u[ProvSeq[i]] # NONE THEN u[ProvSeq[i]] ELSE m[ProvSeq[i]]]

TypeOK ==
  /\ content \in [Src -> [Prov -> 0..MaxVer]] /\ up \in [Src -> BOOLEAN]
  /\ \A p \in Prov : write[p].ver \in NONE..MaxVer /\ rM[p] \in NONE..MaxVer /\ rU[p] \in NONE..MaxVer
  /\ w.pc \in {"idle", "refresh", "miss"} /\ waiter.kind \in {"none", "piggy", "miss"}

(* One history record per step: the action, its arguments, what the call returned (ret) and
   the visible snapshot after the step.  Uniform field types so that the list serialises.   *)
HiSeqOf(f) == [i \in 1..Len(ProvSeq) |-> f[ProvSeq[i]]]
Step(a, s, p, v, ret, vis, hh, str) == [a |-> a, s |-> s, p |-> p, v |-> v, ret |-> ret, vis |-> vis, hi |-> hh, str |-> str, au |-> 0]
Rec(a, s, p, v, ret, vis) == h' = Append(h, Step(a, s, p, v, ret, vis, <<>>, 0))
RecX(a, s, p, v, ret, vis, hh, str) == h' = Append(h, Step(a, s, p, v, ret, vis, hh, str))
RecAu(a, s, p, v, ret, vis, hh, str, au) == h' = Append(h, [Step(a, s, p, v, ret, vis, hh, str) EXCEPT !.au = au])
(* The initial source contents are arbitrary (InitFree) so that bounded histories spend their
   budget on cache operations; h starts with the EnvSet steps that establish them.          *)
InitSteps(c) ==
  LET F[k \in 0..(N * Len(ProvSeq))] ==
        IF k = 0 THEN <<>>
        ELSE LET s == SrcSeq[((k - 1) \div Len(ProvSeq)) + 1]
                 p == ProvSeq[((k - 1) % Len(ProvSeq)) + 1]
             IN IF c[s][p] = 0 THEN F[k - 1]
                ELSE Append(F[k - 1], Step("EnvSet", s, p, c[s][p], 0, [i \in 1..Len(ProvSeq) |-> NONE], <<>>, 0))
  IN F[N * Len(ProvSeq)]

Init ==
  /\ IF InitFree THEN content \in [Src -> [Prov -> 0..MaxVer]] ELSE content = [s \in Src |-> Zero]
  /\ up = [s \in Src |-> TRUE]
  /\ now = 1 /\ ticks = 0 /\ seq = 0
  /\ write = [p \in Prov |-> NoEnt]
  /\ rM = [p \in Prov |-> NONE] /\ rU = [p \in Prov |-> NONE]
  /\ w = Idle /\ waiter = NoWaiter
  /\ seen = Zero /\ rep = {} /\ goneAt = Zero /\ prevVis = [p \in Prov |-> NONE] /\ hi = Zero
  /\ last = "init" /\ lastArg = [p |-> AnyProv, ret |-> 0] /\ calls = 0 /\ envs = 0 /\ h = InitSteps(content) /\ autos = 0 /\ resets = Zero /\ pre = <<>>

BudgetA == calls < MaxCalls /\ calls' = calls + 1 /\ UNCHANGED envs         \* an API call starts
Budget == BudgetA /\ UNCHANGED autos
Free == UNCHANGED <<calls, envs, autos>>                                     \* internal step of a call
Useful == calls < MaxCalls \/ w.pc # "idle"                                   \* somebody can still observe the environment
EnvBudget == Useful /\ envs < MaxEnv /\ envs' = envs + 1 /\ UNCHANGED <<calls, autos>>

---------------------------------------------------------------------------
(* Environment *)
EnvSet(s, p, v) ==
  /\ EnvBudget /\ content[s][p] # v /\ content' = [content EXCEPT ![s][p] = v]
  /\ Rec("EnvSet", s, p, v, 0, VisSeq) /\ last' = "env"
  /\ UNCHANGED <<up, now, ticks, seq, write, rM, rU, w, waiter, seen, rep, goneAt, resets, pre, prevVis, lastArg, hi>>
EnvFlip(s) ==
  /\ EnvBudget /\ up' = [up EXCEPT ![s] = ~@]
  /\ Rec(IF up[s] THEN "EnvDown" ELSE "EnvUp", s, AnyProv, 0, 0, VisSeq) /\ last' = "env"
  /\ UNCHANGED <<content, now, ticks, seq, write, rM, rU, w, waiter, seen, rep, goneAt, resets, pre, prevVis, lastArg, hi>>
Tick ==
  /\ Useful /\ Free /\ ticks < MaxTicks /\ ticks' = ticks + 1 /\ now' = now + TickLen
  /\ Rec("Tick", SrcSeq[1], AnyProv, 0, 0, VisSeq) /\ last' = "tick"
  /\ UNCHANGED <<content, up, seq, write, rM, rU, w, waiter, seen, rep, goneAt, resets, pre, prevVis, lastArg, hi>>

---------------------------------------------------------------------------
(* Refresh *)
ApplySource(wm, c, sq) ==      \* provider_cache.go: "Collect latest info on each provider"
  [p \in Prov |->
     IF c[p] = 0 THEN wm[p]
     ELSE IF wm[p].ver = NONE THEN [ver |-> c[p], sq |-> sq, us |-> sq, ex |-> 0]
     ELSE IF c[p] > wm[p].ver THEN [ver |-> c[p], sq |-> sq, us |-> sq, ex |-> 0]
     ELSE [wm[p] EXCEPT !.sq = sq, !.ex = 0]]

RECURSIVE ApplyAll(_, _, _, _)
ApplyAll(wm, acc, k, sq) == IF k > Len(acc) THEN wm ELSE ApplyAll(ApplySource(wm, acc[k], sq), acc, k + 1, sq)

RefreshBegin ==
  /\ Budget /\ w.pc = "idle" /\ waiter.kind = "none"
  /\ IF FIXED THEN /\ w' = [Idle EXCEPT !.pc = "refresh", !.i = 1] /\ UNCHANGED seq
              ELSE /\ w' = [Idle EXCEPT !.pc = "refresh", !.i = 1, !.sq = seq + 1] /\ seq' = seq + 1
  /\ Rec("RefreshBegin", SrcSeq[1], AnyProv, 0, 0, VisSeq) /\ last' = "refreshBegin"
  /\ UNCHANGED <<content, up, now, ticks, write, rM, rU, waiter, seen, rep, goneAt, resets, pre, prevVis, lastArg, hi>>

(* FetchAll of source w.i returns (or fails, and the refresh moves on). *)
RefreshFetch ==
  /\ Free /\ w.pc = "refresh" /\ w.i <= N
  /\ LET s == SrcSeq[w.i] IN
     /\ IF ~up[s]
        THEN /\ w' = [w EXCEPT !.i = @ + 1] /\ UNCHANGED <<write, seen, hi>>
        ELSE LET fm2 == [p \in Prov |-> Max(w.fm[p], content[s][p])] IN
             /\ hi' = [p \in Prov |-> Max(hi[p], content[s][p])]
             /\ IF FIXED
                THEN /\ w' = [w EXCEPT !.i = @ + 1, !.acc = Append(@, content[s]), !.fm = fm2]
                     /\ UNCHANGED <<write, seen>>
                ELSE /\ w' = [w EXCEPT !.i = @ + 1, !.fm = fm2]
                     /\ write' = ApplySource(write, content[s], w.sq)
                     /\ seen' = [p \in Prov |-> Max(seen[p], content[s][p])]
     /\ Rec("RefreshFetch", s, AnyProv, w.i, IF up[s] THEN 1 ELSE 0, VisSeq)
  /\ last' = "refreshFetch"
  /\ UNCHANGED <<content, up, now, ticks, seq, rM, rU, waiter, rep, goneAt, resets, pre, prevVis, lastArg>>

(* The caller's context is cancelled while source w.i is being fetched: Refresh returns the error.  A context cancelled once the
   last source has answered changes nothing: from there the refresh runs to its publication (RefreshPublish has no other outcome;
   the harness cancels the context at that very moment in a third of the behaviours). *)
RefreshCancel ==
  /\ Free /\ w.pc = "refresh" /\ w.i <= N /\ ~w.auto        \* the automatic refresh runs under the background context
  /\ w' = Idle
  /\ Rec("RefreshCancel", SrcSeq[w.i], AnyProv, w.i, 0, VisSeq) /\ last' = "refreshCancelled"
  /\ UNCHANGED <<content, up, now, ticks, seq, write, rM, rU, waiter, seen, rep, goneAt, resets, pre, prevVis, lastArg, hi>>

(* Everything after the source loop, up to and including pc.read.Store: one critical section
   whose intermediate states nobody can observe.                                             *)
RefreshPublish ==
  /\ Free /\ w.pc = "refresh" /\ w.i = N + 1
  /\ LET sq == IF FIXED THEN seq + 1 ELSE w.sq
         w1 == IF FIXED THEN ApplyAll(write, w.acc, 1, sq) ELSE write
         gone == {p \in Prov : w1[p].ver # NONE /\ w1[p].sq # sq /\ w1[p].ex # 0 /\ now > w1[p].ex}
         w2 == [p \in Prov |->
                  IF p \in gone THEN NoEnt
                  ELSE IF w1[p].ver # NONE /\ w1[p].sq # sq /\ w1[p].ex = 0
                       THEN [w1[p] EXCEPT !.ex = now + TTL] ELSE w1[p]]
         upd == [p \in Prov |->
                   IF p \in gone THEN 0
                   ELSE IF w1[p].ver # NONE /\ w1[p].sq = sq /\ w1[p].us = sq THEN w1[p].ver
                   ELSE rU[p]]
         merge == NeedMerge(Card(upd), Card(rM))
         m2 == IF merge
               THEN [p \in Prov |-> IF w2[p].ver = NONE THEN NONE
                                    ELSE IF upd[p] # NONE THEN upd[p]
                                    ELSE IF rM[p] = NONE THEN 0 ELSE rM[p]]
               ELSE rM
         u2 == IF merge THEN [p \in Prov |-> NONE] ELSE upd
         sn == IF FIXED THEN [p \in Prov |-> Max(seen[p], w.fm[p])] ELSE seen
     IN /\ seq' = sq /\ write' = w2 /\ rM' = m2 /\ rU' = u2 /\ pre' = (IF PREGHOST THEN <<rM, rU>> ELSE pre)
        /\ seen' = [p \in Prov |-> IF p \in gone THEN 0 ELSE sn[p]]
        /\ rep' = {p \in Prov : w.fm[p] > 0}
        /\ goneAt' = [p \in Prov |-> IF w.fm[p] > 0 THEN 0
                                     ELSE IF Visible(p) > 0 /\ goneAt[p] = 0 THEN now
                                     ELSE IF Visible(p) <= 0 THEN 0 ELSE goneAt[p]]
        /\ prevVis' = [p \in Prov |-> Visible(p)]
        /\ resets' = [p \in Prov |-> IF write[p].ver > 0 /\ write[p].ex # 0 /\ w1[p].ex = 0 THEN now ELSE resets[p]]
        /\ hi' = [p \in Prov |-> IF p \in gone THEN 0 ELSE hi[p]]
        /\ RecX("RefreshPublish", SrcSeq[1], AnyProv, IF merge THEN 1 ELSE 0, 0, VisSeqOf(m2, u2), HiSeqOf(hi), 0)
  /\ w' = Idle /\ last' = "refreshOK"
  /\ UNCHANGED <<content, up, now, ticks, waiter, lastArg>>

---------------------------------------------------------------------------
(* Readers and the miss path *)

(* Get(p) for a provider in the snapshot: never touches the lock (C07), returns the snapshot's value. *)
GetHit(p, t) ==
  /\ BudgetA /\ Visible(p) # NONE
  /\ (t = 0 \/ (autos < MaxAuto /\ waiter.kind = "none" /\ (w.pc = "idle" \/ WithWaiter))) /\ autos' = autos + t
  /\ IF t = 0 THEN UNCHANGED <<w, waiter, seq>>
     ELSE IF w.pc = "idle"              \* the refresh interval has elapsed: the automatic refresh starts in its own goroutine ...
     THEN /\ UNCHANGED waiter
          /\ IF FIXED THEN /\ w' = [Idle EXCEPT !.pc = "refresh", !.i = 1, !.auto = TRUE] /\ UNCHANGED seq
                      ELSE /\ w' = [Idle EXCEPT !.pc = "refresh", !.i = 1, !.sq = seq + 1, !.auto = TRUE] /\ seq' = seq + 1
     ELSE /\ waiter' = [kind |-> "piggy", p |-> AnyProv] /\ UNCHANGED <<w, seq>>     \* ... or waits for the writer at work
  /\ RecAu("GetHit", SrcSeq[1], p, 0, Visible(p), VisSeq, <<>>, IF write[p].ver # NONE THEN 1 ELSE 0,
           IF t = 0 THEN 0 ELSE IF w.pc = "idle" THEN 1 ELSE 2)
  /\ last' = "getHit"
  /\ UNCHANGED <<content, up, now, ticks, write, rM, rU, seen, rep, goneAt, resets, pre, prevVis, lastArg, hi>>

(* fetchMissing after the lock is taken.  If the provider is in the write map the snapshot is
   consulted again ("stored by previous request"); an entry that is in the write map but in
   neither read map is dropped and fetched (reachable only with FIXED = FALSE).             *)
EnterMiss(p, how) ==
  IF write[p].ver # NONE /\ Visible(p) # NONE
  THEN /\ Rec(how, SrcSeq[1], p, 1, Visible(p), VisSeq) /\ last' = "getStored"
       /\ w' = Idle /\ UNCHANGED write
  ELSE /\ Rec(how, SrcSeq[1], p, 0, 0, VisSeq) /\ last' = "missBegin"
       /\ w' = [Idle EXCEPT !.pc = "miss", !.i = 1, !.p = p, !.sq = seq]
       /\ write' = [write EXCEPT ![p] = NoEnt]

MissBegin(p) ==
  /\ Budget /\ Visible(p) = NONE /\ w.pc = "idle" /\ waiter.kind = "none"
  /\ EnterMiss(p, "MissBegin")
  /\ UNCHANGED <<content, up, now, ticks, seq, rM, rU, waiter, seen, rep, goneAt, resets, pre, prevVis, lastArg, hi>>

MissFetch ==
  /\ Free /\ w.pc = "miss" /\ w.i <= N
  /\ LET s == SrcSeq[w.i]
         got == IF up[s] THEN content[s][w.p] ELSE 0
     IN /\ w' = [w EXCEPT !.i = @ + 1, !.best = Max(@, got)]
        /\ Rec("MissFetch", s, w.p, w.i, got, VisSeq)
  /\ last' = "missFetch"
  /\ UNCHANGED <<content, up, now, ticks, seq, write, rM, rU, waiter, seen, rep, goneAt, resets, pre, prevVis, lastArg, hi>>

MissCancel ==
  /\ Free /\ w.pc = "miss" /\ w.i <= N
  /\ w' = Idle
  /\ Rec("MissCancel", SrcSeq[w.i], w.p, w.i, 0, VisSeq) /\ last' = "missCancelled"
  /\ UNCHANGED <<content, up, now, ticks, seq, write, rM, rU, waiter, seen, rep, goneAt, resets, pre, prevVis, lastArg, hi>>

MissPublish ==
  /\ Free /\ w.pc = "miss" /\ w.i = N + 1
  /\ LET p == w.p
         w2 == [write EXCEPT ![p] = [ver |-> w.best, sq |-> w.sq, us |-> w.sq,
                                     ex |-> IF w.best = 0 THEN now + TTL ELSE 0]]
         upd == [rU EXCEPT ![p] = w.best]
         merge == NeedMerge(Card(upd), Card(rM))
         m2 == IF merge
               THEN [x \in Prov |-> IF w2[x].ver = NONE THEN NONE
                                    ELSE IF upd[x] # NONE THEN upd[x]
                                    ELSE IF rM[x] = NONE THEN 0 ELSE rM[x]]
               ELSE rM
         u2 == IF merge THEN [x \in Prov |-> NONE] ELSE upd
     IN /\ write' = w2 /\ rM' = m2 /\ rU' = u2 /\ pre' = (IF PREGHOST THEN <<rM, rU>> ELSE pre)
        /\ seen' = [seen EXCEPT ![p] = w.best]
        /\ prevVis' = [x \in Prov |-> Visible(x)]
        /\ Rec("MissPublish", SrcSeq[1], p, IF merge THEN 1 ELSE 0, w.best, VisSeqOf(m2, u2))
        /\ lastArg' = [p |-> p, ret |-> w.best]
        /\ hi' = [hi EXCEPT ![p] = Max(@, w.best)]
  /\ w' = Idle /\ last' = "missOK"
  /\ UNCHANGED <<content, up, now, ticks, seq, waiter, rep, goneAt, resets>>

---------------------------------------------------------------------------
(* A call that finds the writer lock taken.  At most one is parked (Go does not specify which
   of several blocked senders wins, so the harness could not steer more).                   *)
PiggyStart ==       \* Refresh while the lock is held: waits, then returns without refreshing
  /\ WithWaiter /\ Budget /\ w.pc # "idle" /\ waiter.kind = "none"
  /\ waiter' = [kind |-> "piggy", p |-> AnyProv]
  /\ Rec("PiggyStart", SrcSeq[1], AnyProv, 0, 0, VisSeq) /\ last' = "park"
  /\ UNCHANGED <<content, up, now, ticks, seq, write, rM, rU, w, seen, rep, goneAt, resets, pre, prevVis, lastArg, hi>>

MissPark(p) ==      \* Get of a provider that is not in the snapshot while the lock is held
  /\ WithWaiter /\ Budget /\ w.pc # "idle" /\ waiter.kind = "none" /\ Visible(p) = NONE
  /\ waiter' = [kind |-> "miss", p |-> p]
  /\ Rec("MissPark", SrcSeq[1], p, 0, 0, VisSeq) /\ last' = "park"
  /\ UNCHANGED <<content, up, now, ticks, seq, write, rM, rU, w, seen, rep, goneAt, resets, pre, prevVis, lastArg, hi>>

WaiterProceed ==
  /\ Free /\ w.pc = "idle" /\ waiter.kind # "none"
  /\ waiter' = NoWaiter
  /\ IF waiter.kind = "piggy"
     THEN /\ Rec("PiggyReturn", SrcSeq[1], AnyProv, 0, 0, VisSeq) /\ last' = "piggyReturn"
          /\ UNCHANGED <<w, write>>
     ELSE EnterMiss(waiter.p, "MissUnpark")
  /\ UNCHANGED <<content, up, now, ticks, seq, rM, rU, seen, rep, goneAt, resets, pre, prevVis, lastArg, hi>>

---------------------------------------------------------------------------
Next ==
  \/ \E s \in Src, p \in Prov, v \in 0..MaxVer : EnvSet(s, p, v)
  \/ \E s \in Src : EnvFlip(s)
  \/ Tick
  \/ RefreshBegin \/ RefreshFetch \/ RefreshCancel \/ RefreshPublish
  \/ \E p \in Prov : GetHit(p, 0) \/ GetHit(p, 1) \/ MissBegin(p) \/ MissPark(p)
  \/ MissFetch \/ MissCancel \/ MissPublish
  \/ PiggyStart \/ WaiterProceed

Spec == Init /\ [][Next]_vars

---------------------------------------------------------------------------
(* C06, declaratively.  Evaluated in the state right after a refresh completed without error. *)

(* every provider reported by a responding source is visible with the newest record seen for it *)
Converged == last = "refreshOK" => \A p \in rep : Visible(p) = seen[p] /\ seen[p] > 0

(* a provider no source reports any longer stays visible until the TTL has elapsed and is gone
   after the next refresh past that                                                          *)
ExpiryRule ==
  last = "refreshOK" =>
    \A p \in Prov \ rep :
       prevVis[p] > 0 =>
         IF goneAt[p] # 0 /\ now > goneAt[p] + TTL
         THEN Visible(p) <= 0
         ELSE Visible(p) = prevVis[p]

(* a miss-fetch publishes what the sources said, positive or negative *)
MissRule == last = "missOK" => Visible(lastArg.p) = lastArg.ret

(* the published snapshot always agrees with the write map when no writer is active *)
SnapshotMatchesWrite ==
  (FIXED /\ w.pc = "idle") => \A p \in Prov : write[p].ver # NONE => Visible(p) = write[p].ver

(* the update map is never left larger than the merge rule allows *)
UpdatesBounded == ~NeedMerge(Card(rU), Card(rM))

(* reads never regress for a provider that stays in the cache (C07, third sentence), at the level of publications *)
NoRegress ==
  last \in {"refreshOK", "missOK"} =>
    \A p \in Prov : (prevVis[p] > 0 /\ Visible(p) > 0) => Visible(p) >= prevVis[p]

(* C07, first sentence, as a state predicate: whatever the writer is doing, every read of a cached
   provider is enabled (reader actions never mention w or waiter).                                *)
ReadersNeverBlocked == \A p \in Prov : (Visible(p) # NONE /\ calls < MaxCalls) => ENABLED GetHit(p, 0)

(* the tolerance interval exported to the harness is well-formed *)
HiBound == \A p \in Prov : Visible(p) <= hi[p] \/ ~FIXED

Terminal == calls = MaxCalls /\ w.pc = "idle" /\ waiter.kind = "none"
ExportBehaviour == (EXPORT /\ Terminal) => Emit("c06_behaviours.ndjson", [steps |-> h])
=============================================================================
