SPECIFICATION Spec
CONSTANT STRICT = FALSE
POSTCONDITION Accepted
CHECK_DEADLOCK FALSE
