-------------------------------- MODULE AdSchema --------------------------------
(* C13 -- the value space of Advertisement and EntryChunk and the laws of storing them in a
   content-addressed store through IPLD (ingest/schema).

   The codecs are axiomatised: Put(v, codec) is the term <<codec, v>> (encoding is a function of the
   value and injective on the value space), Get returns the value of the term whatever prototype is
   used to load it.  What TLC contributes here is the complete enumeration of shapes -- every
   combination of optional parts (previous link, next link, extended providers), list lengths 0..2,
   empty / short / maximal byte fields, flags, entry lists with mixed hash functions -- and the check
   that the laws are consistent on it (distinct shapes get distinct CIDs: in particular "absent"
   and "present but empty" must not collapse).  The Go harness pushes every shape through the real
   ToNode / LinkSystem.Store / Load (typed and generic prototype) / Unwrap / BytesTo... functions.
   Claimed at exploration level: no byte-level decoding is decided by the model.                  *)
EXTENDS Integers, Sequences, FiniteSets, TLC, VerifIO

CONSTANTS MaxList, EXPORT
Sizes == {"empty", "short", "max"}
(* self: the entry names the advertisement's own provider (which the IPNI rules allow to leave addresses and metadata out:
   what it leaves out stays out -- the stored value is the value, whatever a reader may substitute later)                  *)
EpProviders == UNION {[1..n -> [addrs : 0..1, md : {"empty", "short"}, self : BOOLEAN]] : n \in 0..MaxList}
(* prov: how the provider is spelled -- the field is a string: a peer ID in its usual base58 form, the same peer ID in its CID
   form (bafz...), or something that is no peer ID at all; whatever was stored is what is read back                         *)
Ads == [kind : {"ad"}, prov : {"b58", "cidform", "text"}, prev : BOOLEAN, addrs : 0..MaxList, ctx : Sizes, md : Sizes, rm : BOOLEAN, entries : {"noentries", "link"},
        ext : {"absent"} \cup {"present"}, ov : BOOLEAN, eps : EpProviders]
WellFormedAd(a) == (a.ext = "absent" => (a.eps = <<>> /\ ~a.ov)) /\ ~(a.rm /\ a.ext = "present" /\ a.ov)
(* ent: the first entry is a multihash, a bare digest, or empty -- the schema says Bytes, and a chunk is stored and read back as it is *)
Chunks == [kind : {"chunk"}, n : 0..3 \cup {16384}, mixed : BOOLEAN, next : BOOLEAN, ent : {"multihash", "bare", "empty"}]      \* 16384: a full-size chunk (over 1 MiB in DAG-JSON)
WellFormedChunk(c) == (c.mixed => c.n >= 2) /\ (c.ent # "multihash" => c.n \in 1..3)
Codecs == {"dag-json", "dag-cbor"}

Put(v, codec) == <<codec, v>>
Get(cidterm) == cidterm[2]

VARIABLES v, codec, stage
vars == <<v, codec, stage>>
Init == v \in {a \in Ads : WellFormedAd(a) /\ a.eps = <<>> /\ a.ext = "absent"} /\ codec \in Codecs /\ stage = 0
PickAd == /\ stage = 0 /\ stage' = 1 /\ UNCHANGED codec
          /\ \/ v' = v
             \/ /\ v.prov = "b58"          \* the extended-provider shapes are enumerated for the usual spelling of the provider
                /\ \E e \in EpProviders, o \in BOOLEAN : v' = [v EXCEPT !.ext = "present", !.eps = e, !.ov = o] /\ WellFormedAd(v')
Next == PickAd
Spec == Init /\ [][Next]_vars
Complete == stage = 1

RoundTrip == Complete => Get(Put(v, codec)) = v
Deterministic == Complete => Put(v, codec) = Put(v, codec)
(* absent and present-but-empty are different values *)
AbsentIsNotEmpty == Complete => \A w \in {[v EXCEPT !.ext = "absent", !.eps = <<>>, !.ov = FALSE], [v EXCEPT !.ext = "present", !.eps = <<>>]} :
                        (w # v) => Put(w, codec) # Put(v, codec)
ExportCase == (Complete /\ EXPORT) => Emit("c13_cases.ndjson", [v |-> v, codec |-> codec])
(* entry chunks are few: exported from a constant-level set *)
ASSUME EXPORT => \A c \in {x \in Chunks : WellFormedChunk(x)} : \A cd \in Codecs : Emit("c13_chunks.ndjson", [v |-> c, codec |-> cd])
=============================================================================
