---------------------------- MODULE ReceiverLocks ----------------------------
(* C16 -- announce.Receiver shutdown at the granularity of its critical sections (no pubsub
   topic).  Threads run short programs of API calls; every lock / unlock / channel operation
   is one step, so TLC explores every interleaving of Close with Direct, Next and UncacheCid.

     Close   : c0 Lock -> c1 (closed? -> [unlock] return nil | closed := TRUE) -> c2 Unlock
               -> c3 close(done) -> return nil
     Direct  : d0 allow filter -> d1 Lock -> d2 (closed? -> unlock, ErrClosed | update filter)
               -> d3 Unlock -> d4 select { out <- msg : nil | <-done : ErrClosed }
     Next    : n0 select { <-out : msg | <-done : ErrClosed }
     Uncache : u0 Lock -> u1 remove, Unlock -> return

   FIXED = FALSE is the pinned code: the early return of a repeated Close keeps the mutex.

   Properties: once some Close has returned every call ever started returns (Termination, under
   weak fairness of the threads); result table (ResultsOK); the mutex is free whenever no call
   is inside a critical section (MutexReleased).                                              *)
EXTENDS Integers, Sequences, FiniteSets, TLC

CONSTANTS Threads, MaxCalls, FIXED
Ops == {"close", "directOk", "directNo", "next", "uncache"}
Programs == UNION {[1..n -> Ops] : n \in 0..MaxCalls}

VARIABLES prog, pcs, ip, mutex, closed, done, out, res, closeReturned, startedAfterClose
vars == <<prog, pcs, ip, mutex, closed, done, out, res, closeReturned, startedAfterClose>>

Init == /\ prog \in [Threads -> Programs]
        /\ \E t \in Threads : Len(prog[t]) >= 1 /\ prog[t][1] = "close"
        /\ pcs = [t \in Threads |-> "idle"] /\ ip = [t \in Threads |-> 1]
        /\ mutex = 0 /\ closed = FALSE /\ done = FALSE /\ out = 0
        /\ res = [t \in Threads |-> <<>>] /\ closeReturned = FALSE
        /\ startedAfterClose = [t \in Threads |-> FALSE]

Op(t) == prog[t][ip[t]]
Return(t, r) == /\ res' = [res EXCEPT ![t] = Append(@, [op |-> Op(t), r |-> r, late |-> startedAfterClose[t]])]
                /\ ip' = [ip EXCEPT ![t] = @ + 1] /\ pcs' = [pcs EXCEPT ![t] = "idle"]
                /\ closeReturned' = (closeReturned \/ Op(t) = "close")
Goto(t, l) == pcs' = [pcs EXCEPT ![t] = l] /\ UNCHANGED <<ip, res, closeReturned>>

Start(t) == /\ pcs[t] = "idle" /\ ip[t] <= Len(prog[t])
            /\ startedAfterClose' = [startedAfterClose EXCEPT ![t] = closeReturned]
            /\ Goto(t, CASE Op(t) = "close" -> "c0" [] Op(t) \in {"directOk", "directNo"} -> "d0"
                         [] Op(t) = "next" -> "n0" [] OTHER -> "u0")
            /\ UNCHANGED <<prog, mutex, closed, done, out>>

Lock(t, from, to) == pcs[t] = from /\ mutex = 0 /\ mutex' = t /\ Goto(t, to) /\ UNCHANGED <<prog, closed, done, out, startedAfterClose>>

C1(t) == /\ pcs[t] = "c1"
         /\ IF closed
            THEN /\ mutex' = IF FIXED THEN 0 ELSE mutex       \* pinned: returns with the mutex held
                 /\ Return(t, "nil") /\ UNCHANGED closed
            ELSE /\ closed' = TRUE /\ Goto(t, "c2") /\ UNCHANGED mutex
         /\ UNCHANGED <<prog, done, out, startedAfterClose>>
C2(t) == pcs[t] = "c2" /\ mutex' = 0 /\ Goto(t, "c3") /\ UNCHANGED <<prog, closed, done, out, startedAfterClose>>
C3(t) == pcs[t] = "c3" /\ done' = TRUE /\ Return(t, "nil") /\ UNCHANGED <<prog, mutex, closed, out, startedAfterClose>>

D0(t) == /\ pcs[t] = "d0"
         /\ IF Op(t) = "directNo" THEN Return(t, "nil") ELSE Goto(t, "d1")
         /\ UNCHANGED <<prog, mutex, closed, done, out, startedAfterClose>>
D2(t) == /\ pcs[t] = "d2"
         /\ IF closed THEN mutex' = 0 /\ Return(t, "closed") ELSE Goto(t, "d3") /\ UNCHANGED mutex
         /\ UNCHANGED <<prog, closed, done, out, startedAfterClose>>
D3(t) == pcs[t] = "d3" /\ mutex' = 0 /\ Goto(t, "d4") /\ UNCHANGED <<prog, closed, done, out, startedAfterClose>>
D4(t) == /\ pcs[t] = "d4"
         /\ \/ out = 0 /\ out' = 1 /\ Return(t, "nil") /\ UNCHANGED done
            \/ done /\ Return(t, "closed") /\ UNCHANGED <<out, done>>
         /\ UNCHANGED <<prog, mutex, closed, startedAfterClose>>
N0(t) == /\ pcs[t] = "n0"
         /\ \/ out = 1 /\ out' = 0 /\ Return(t, "msg") /\ UNCHANGED done
            \/ done /\ Return(t, "closed") /\ UNCHANGED <<out, done>>
         /\ UNCHANGED <<prog, mutex, closed, startedAfterClose>>
U1(t) == pcs[t] = "u1" /\ mutex' = 0 /\ Return(t, "nil") /\ UNCHANGED <<prog, closed, done, out, startedAfterClose>>

Step(t) == \/ Start(t) \/ Lock(t, "c0", "c1") \/ C1(t) \/ C2(t) \/ C3(t)
           \/ D0(t) \/ Lock(t, "d1", "d2") \/ D2(t) \/ D3(t) \/ D4(t)
           \/ N0(t) \/ Lock(t, "u0", "u1") \/ U1(t)
Next == \E t \in Threads : Step(t)
Spec == Init /\ [][Next]_vars /\ \A t \in Threads : WF_vars(Step(t))

AllDone == \A t \in Threads : pcs[t] = "idle" /\ ip[t] > Len(prog[t])
(* every call returns once a Close has returned (the initial condition guarantees a Close is called) *)
Termination == <>AllDone
InCritical(t) == pcs[t] \in {"c1", "c2", "d2", "d3", "u1"}
MutexReleased == mutex # 0 => InCritical(mutex)
ResultsOK ==
  \A t \in Threads : \A i \in 1..Len(res[t]) :
     LET e == res[t][i] IN
       /\ e.op = "close" => e.r = "nil"
       /\ e.op = "directNo" => e.r = "nil"
       /\ (e.op = "directOk" /\ e.late) => e.r = "closed"
       /\ (e.op = "next" /\ e.r = "closed") => done
       /\ e.op = "uncache" => e.r = "nil"
=============================================================================
