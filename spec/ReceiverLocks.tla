---------------------------- MODULE ReceiverLocks ----------------------------
(* C16 -- announce.Receiver shutdown at the granularity of its lock, unlock and channel steps,
   with and without the pubsub watcher goroutine.  Threads make API calls (the operation of each
   call is chosen when it starts); every step between two yield hooks of the code is one action,
   so TLC explores every interleaving of Close with Direct, Next, UncacheCid and the watcher, and
   the same actions validate traces recorded from the real Receiver (ReceiverLocksTrace.tla).

     Close   : c0 Lock -> c1 (closed? -> unlock, return nil | closed := TRUE [, c2 cancel subscription], unlock)
               -> c3 close(done) -> [watcher: c4 cancel the watcher's context -> c5 <-watchDone] -> return nil
     Direct  : (allow filter: not allowed -> return nil) d1 Lock -> d2 (closed? -> unlock, ErrClosed |
               duplicate -> unlock, nil | unlock) -> d3 -> d4 select { out <- msg : nil | <-done : ErrClosed }
     Next    : n0 select { <-out : msg | <-done : ErrClosed }
     Uncache : u0 Lock -> u1 remove, unlock -> return
     Watcher : loop -> next: subscription.Next { message -> got | cancelled -> exit | other error -> restart }
               got (from an allowed peer; otherwise gotno -> loop) Lock -> check (closed -> unlock, exit | duplicate ->
               unlock, loop | unlock) -> send -> select { out <- msg : loop | <-done, ctx : exit }
               exit: close(watchDone);   restart: Lock -> new subscription, unlock -> loop

   The out channel has capacity 1 and Go's hand-off semantics: a send completes into the buffer or straight into a
   waiting receiver; a receive from a full buffer lets a blocked sender's message move into the buffer.  (The
   hand-offs are what makes the order in which two woken goroutines report their return irrelevant.)

   FIXED = FALSE is the pinned code: the early return of a repeated Close keeps the mutex.
   UNLOCK = "deferred" is a plausible "hardening" of Close (defer Unlock right after Lock): the mutex is then
   held while Close waits for the watcher, which may be waiting for the mutex.

   Reentrant = TRUE adds the operation "directRe": a Direct from an allowed peer whose allow-peer callback itself calls
   UncacheCid before it answers (ra0 Lock -> ra1 remove, unlock -> d1 ...).  The callback runs before Direct takes the
   mutex (ALLOWPOS = "before", the code); ALLOWPOS = "under" is the plausible slip of consulting it inside the critical
   section: the callback then waits for a mutex its own goroutine holds, and nothing that needs the mutex ever returns.

   Properties: once some Close has been called every call ever started returns and the watcher exits
   (Termination, under weak fairness of every thread and the watcher); result table (ResultsOK); the mutex
   is free whenever nobody is inside a critical section (MutexReleased).                               *)
EXTENDS Integers, Sequences, FiniteSets, TLC

CONSTANTS Threads,      \* API callers (positive integers)
          MaxCalls,     \* calls per thread; 0: any number (the counter is then frozen and the state space stays finite)
          FIXED, UNLOCK,
          Watcher,      \* BOOLEAN: the receiver has a libp2p host and a topic, so a watcher goroutine runs
          MaxMsgs,      \* pubsub messages that may arrive
          MaxRestarts,  \* spurious subscription errors (restart path of the watcher)
          Resend,       \* BOOLEAN: direct announcements are re-published on the topic (and come back to the watcher)
          Cancels,      \* BOOLEAN: the context of a Direct / Next call may be cancelled while the call is under way
          Reentrant,    \* BOOLEAN: operation "directRe" (the allow-peer callback calls UncacheCid)
          ALLOWPOS,     \* "before" (the code) | "under": where the allow-peer callback runs relative to the mutex
          CANCELWATCH   \* "before" (the code: Close cancels the watcher's context, then waits for the watcher) | "deferred" (cancelled when Close returns)
W == 0 - 1              \* the watcher's identity as a mutex holder
Ops == {"close", "directOk", "directNo", "next", "uncache"} \cup (IF Reentrant THEN {"directRe"} ELSE {})
Directs == {"directOk", "directRe"}

VARIABLES pcs, op, ncalls, mutex, closed, done, out, res, closeCalled, closeReturned, startedAfterClose, cancelled,
          wpc, msgs, published, restarts, subCancelled, watchCancelled, watchDone
vars == <<pcs, op, ncalls, mutex, closed, done, out, res, closeCalled, closeReturned, startedAfterClose, cancelled,
          wpc, msgs, published, restarts, subCancelled, watchCancelled, watchDone>>
wvars == <<wpc, msgs, published, restarts>>
PsDead == published = MaxMsgs + 1        \* the application has shut its pubsub down (PsStop, below)

Init == /\ pcs = [t \in Threads |-> "idle"] /\ op = [t \in Threads |-> "none"] /\ ncalls = [t \in Threads |-> 0]
        /\ mutex = 0 /\ closed = FALSE /\ done = FALSE /\ out = 0
        /\ res = [t \in Threads |-> <<>>] /\ closeCalled = FALSE /\ closeReturned = FALSE
        /\ startedAfterClose = [t \in Threads |-> FALSE] /\ cancelled = [t \in Threads |-> FALSE]
        /\ wpc = (IF Watcher THEN "loop" ELSE "none") /\ msgs = 0 /\ published = 0 /\ restarts = 0
        /\ subCancelled = FALSE /\ watchCancelled = FALSE /\ watchDone = FALSE

Ret(t, r, P) == /\ res' = [res EXCEPT ![t] = <<[op |-> op[t], r |-> r, late |-> startedAfterClose[t]]>>]     \* the thread's last result
                /\ pcs' = [P EXCEPT ![t] = "idle"]
                /\ closeReturned' = (closeReturned \/ op[t] = "close")
Return(t, r) == Ret(t, r, pcs)
Receivers == {t \in Threads : pcs[t] = "n0"}       \* in Next's select
SendersT == {t \in Threads : pcs[t] = "d4"}        \* in handleAnnounce's select
Goto(t, l) == pcs' = [pcs EXCEPT ![t] = l] /\ UNCHANGED <<res, closeReturned>>

Start(t, o) == /\ pcs[t] = "idle" /\ (MaxCalls = 0 \/ ncalls[t] < MaxCalls)
               /\ op' = [op EXCEPT ![t] = o] /\ ncalls' = [ncalls EXCEPT ![t] = IF MaxCalls = 0 THEN @ ELSE @ + 1]
               /\ startedAfterClose' = [startedAfterClose EXCEPT ![t] = closeReturned]
               /\ cancelled' = [cancelled EXCEPT ![t] = FALSE]
               /\ closeCalled' = (closeCalled \/ o = "close")
               /\ Goto(t, CASE o = "close" -> "c0" [] o = "directOk" -> "d1" [] o = "directNo" -> "d0"
                            [] o = "directRe" -> (IF ALLOWPOS = "before" THEN "ra0" ELSE "rb0")
                            [] o = "next" -> "n0" [] OTHER -> "u0")
               /\ UNCHANGED <<mutex, closed, done, out, wvars, subCancelled, watchCancelled, watchDone>>

Same == UNCHANGED <<op, ncalls, closeCalled, startedAfterClose, cancelled>>
(* the caller cancels the context of its Direct / Next call (environment) *)
Cancel(t) == /\ Cancels /\ pcs[t] # "idle" /\ op[t] \in Directs \cup {"next"} /\ ~cancelled[t]
             /\ cancelled' = [cancelled EXCEPT ![t] = TRUE]
             /\ UNCHANGED <<pcs, op, ncalls, mutex, closed, done, out, res, closeCalled, closeReturned, startedAfterClose,
                            wpc, msgs, published, restarts, subCancelled, watchCancelled, watchDone>>
Lock(t, from, to) == /\ pcs[t] = from /\ mutex = 0 /\ mutex' = t /\ Goto(t, to) /\ Same
                     /\ UNCHANGED <<closed, done, out, wvars, subCancelled, watchCancelled, watchDone>>

(* ---- Close ---- *)
C1(t) == /\ pcs[t] = "c1" /\ Same
         /\ IF closed
            THEN /\ mutex' = IF FIXED /\ UNLOCK = "code" THEN 0 ELSE mutex    \* pinned: returns with the mutex held
                 /\ Goto(t, "cret") /\ UNCHANGED <<closed, subCancelled>>
            ELSE /\ closed' = TRUE
                 /\ IF Watcher THEN subCancelled' = ~PsDead /\ Goto(t, "c2") /\ UNCHANGED mutex        \* topicSub.Cancel(): without effect once the pubsub is gone
                    ELSE /\ mutex' = (IF UNLOCK = "code" THEN 0 ELSE mutex) /\ Goto(t, "c3") /\ UNCHANGED subCancelled
         /\ UNCHANGED <<done, out, wvars, watchCancelled, watchDone>>
C2(t) == /\ pcs[t] = "c2" /\ mutex' = (IF UNLOCK = "code" THEN 0 ELSE mutex) /\ Goto(t, "c3") /\ Same
         /\ UNCHANGED <<closed, done, out, wvars, subCancelled, watchCancelled, watchDone>>
C3(t) == /\ pcs[t] = "c3" /\ done' = TRUE /\ Goto(t, IF Watcher THEN (IF CANCELWATCH = "before" THEN "c4" ELSE "c5") ELSE "cret") /\ Same
         /\ UNCHANGED <<mutex, closed, out, wvars, subCancelled, watchCancelled, watchDone>>
C4(t) == /\ pcs[t] = "c4" /\ watchCancelled' = TRUE /\ Goto(t, IF CANCELWATCH = "before" THEN "c5" ELSE "cret") /\ Same
         /\ UNCHANGED <<mutex, closed, done, out, wvars, subCancelled, watchDone>>
C5(t) == /\ pcs[t] = "c5" /\ watchDone /\ Goto(t, IF CANCELWATCH = "before" THEN "cret" ELSE "c4") /\ Same
         /\ UNCHANGED <<mutex, closed, done, out, wvars, subCancelled, watchCancelled, watchDone>>
CRet(t) == /\ pcs[t] = "cret" /\ Return(t, "nil") /\ Same
           /\ mutex' = IF UNLOCK = "deferred" /\ mutex = t THEN 0 ELSE mutex      \* a deferred Unlock runs at return
           /\ UNCHANGED <<closed, done, out, wvars, subCancelled, watchCancelled, watchDone>>

(* ---- Direct whose allow-peer callback calls UncacheCid ---- *)
RA1(t) == /\ pcs[t] = "ra1" /\ mutex' = 0 /\ Goto(t, "d1") /\ Same          \* the callback's UncacheCid is done; the callback answers "allowed"
          /\ UNCHANGED <<closed, done, out, wvars, subCancelled, watchCancelled, watchDone>>
(* ALLOWPOS = "under": Direct has taken the mutex (rb0 -> ra0x) and calls the callback, whose UncacheCid needs the mutex *)
RBStuck(t) == /\ pcs[t] = "ra0x" /\ mutex = 0 /\ mutex' = t /\ Goto(t, "ra1") /\ Same      \* never enabled: t itself holds the mutex
              /\ UNCHANGED <<closed, done, out, wvars, subCancelled, watchCancelled, watchDone>>

(* ---- Direct ---- *)
D0(t) == /\ pcs[t] = "d0" /\ Return(t, "nil") /\ Same          \* peer not allowed: ignored
         /\ UNCHANGED <<mutex, closed, done, out, wvars, subCancelled, watchCancelled, watchDone>>
D2(t) == /\ pcs[t] = "d2" /\ mutex' = 0 /\ Same
         /\ IF closed THEN Goto(t, "dclosed") /\ UNCHANGED wvars
            ELSE \/ Goto(t, "ddup") /\ UNCHANGED wvars                 \* duplicate or not: Receiver.tla
                 \/ /\ Goto(t, "d3")                                   \* passes: filtered addresses, re-published on the topic
                    /\ IF Resend /\ Watcher /\ published < MaxMsgs
                       THEN msgs' = msgs + 1 /\ published' = published + 1 /\ UNCHANGED <<wpc, restarts>> ELSE UNCHANGED wvars
         /\ UNCHANGED <<closed, done, out, subCancelled, watchCancelled, watchDone>>
DRet(t) == /\ pcs[t] \in {"dclosed", "ddup", "dsent"} /\ Return(t, IF pcs[t] = "dclosed" THEN "closed" ELSE "nil") /\ Same
           /\ UNCHANGED <<mutex, closed, done, out, wvars, subCancelled, watchCancelled, watchDone>>
D3(t) == /\ pcs[t] = "d3" /\ Goto(t, "d4") /\ Same             \* arrives at the select
         /\ UNCHANGED <<mutex, closed, done, out, wvars, subCancelled, watchCancelled, watchDone>>
D4(t) == /\ pcs[t] = "d4" /\ Same
         /\ \/ out = 0 /\ out' = 1 /\ Return(t, "nil")                                                    \* into the buffer
            \/ (\E r \in Receivers : Ret(t, "nil", [pcs EXCEPT ![r] = "ngot"])) /\ UNCHANGED out             \* straight to a receiver
            \/ done /\ Return(t, "closed") /\ UNCHANGED out
            \/ cancelled[t] /\ Return(t, "cancelled") /\ UNCHANGED out
         /\ UNCHANGED <<mutex, closed, done, wvars, subCancelled, watchCancelled, watchDone>>
(* ---- Next, UncacheCid ---- *)
N0(t) == /\ pcs[t] = "n0" /\ Same
         /\ \/ out = 1 /\ out' = 0 /\ Return(t, "msg") /\ UNCHANGED wpc
            \/ (\E x \in SendersT : Ret(t, "msg", [pcs EXCEPT ![x] = "dsent"])) /\ UNCHANGED <<out, wpc>>     \* a sender's message follows
            \/ wpc = "sel" /\ wpc' = "sent" /\ Return(t, "msg") /\ UNCHANGED out                              \* ... the watcher's
            \/ done /\ Return(t, "closed") /\ UNCHANGED <<out, wpc>>
            \/ cancelled[t] /\ Return(t, "cancelled") /\ UNCHANGED <<out, wpc>>
         /\ UNCHANGED <<mutex, closed, done, msgs, published, restarts, subCancelled, watchCancelled, watchDone>>
NGot(t) == /\ pcs[t] = "ngot" /\ Return(t, "msg") /\ Same
           /\ UNCHANGED <<mutex, closed, done, out, wvars, subCancelled, watchCancelled, watchDone>>
U1(t) == /\ pcs[t] = "u1" /\ mutex' = 0 /\ Goto(t, "uret") /\ Same
         /\ UNCHANGED <<closed, done, out, wvars, subCancelled, watchCancelled, watchDone>>
URet(t) == /\ pcs[t] = "uret" /\ Return(t, "nil") /\ Same
           /\ UNCHANGED <<mutex, closed, done, out, wvars, subCancelled, watchCancelled, watchDone>>

Step(t) == \/ \E o \in Ops : Start(t, o)
           \/ Lock(t, "c0", "c1") \/ C1(t) \/ C2(t) \/ C3(t) \/ C4(t) \/ C5(t) \/ CRet(t)
           \/ D0(t) \/ Lock(t, "d1", "d2") \/ D2(t) \/ DRet(t) \/ D3(t) \/ D4(t)
           \/ N0(t) \/ NGot(t) \/ Lock(t, "u0", "u1") \/ U1(t) \/ URet(t)
           \/ Lock(t, "ra0", "ra1") \/ RA1(t) \/ Lock(t, "rb0", "ra0x") \/ RBStuck(t)

(* ---- the pubsub watcher ---- *)
TU == UNCHANGED <<pcs, op, ncalls, res, closeCalled, closeReturned, startedAfterClose, cancelled>>
WGoto(l) == wpc' = l
(* a message is published on the topic (environment) *)
Publish == /\ Watcher /\ ~Resend /\ published < MaxMsgs /\ published' = published + 1 /\ msgs' = msgs + 1 /\ TU
           /\ UNCHANGED <<mutex, closed, done, out, wpc, restarts, subCancelled, watchCancelled, watchDone>>
(* The topic is the application's (WithTopic) and the application shuts its pubsub down: nothing is delivered any more, and
   cancelling the subscription no longer wakes the watcher -- only its own context does.  published = MaxMsgs + 1 stands for that. *)
PsStop == /\ Watcher /\ ~Resend /\ ~PsDead /\ msgs = 0 /\ published' = MaxMsgs + 1 /\ TU
          /\ UNCHANGED <<mutex, closed, done, out, wpc, msgs, restarts, subCancelled, watchCancelled, watchDone>>
WLoop == /\ wpc \in {"loop", "gotno", "dup", "sent"} /\ WGoto("next") /\ TU       \* gotno: undecodable, re-published by this host, or peer not allowed
         /\ UNCHANGED <<mutex, closed, done, out, msgs, published, restarts, subCancelled, watchCancelled, watchDone>>
WMsg == /\ wpc = "next" /\ msgs > 0 /\ msgs' = msgs - 1 /\ (WGoto("got") \/ WGoto("gotno")) /\ TU     \* from an allowed peer, or not
        /\ UNCHANGED <<mutex, closed, done, out, published, restarts, subCancelled, watchCancelled, watchDone>>
(* a cancellation made while the pubsub was alive may still wake the watcher after the pubsub has gone *)
WNextExit == /\ wpc = "next" /\ (subCancelled \/ watchCancelled) /\ WGoto("done") /\ watchDone' = TRUE /\ TU
             /\ UNCHANGED <<mutex, closed, done, out, msgs, published, restarts, subCancelled, watchCancelled>>
WErr == /\ wpc = "next" /\ restarts < MaxRestarts /\ restarts' = restarts + 1 /\ WGoto("r1") /\ TU
        /\ UNCHANGED <<mutex, closed, done, out, msgs, published, subCancelled, watchCancelled, watchDone>>
WLock(from, to) == /\ wpc = from /\ mutex = 0 /\ mutex' = W /\ WGoto(to) /\ TU
                   /\ UNCHANGED <<closed, done, out, msgs, published, restarts, subCancelled, watchCancelled, watchDone>>
WCheck == /\ wpc = "check" /\ mutex' = 0 /\ TU
          /\ IF closed THEN WGoto("closed") ELSE (WGoto("send") \/ WGoto("dup"))
          /\ UNCHANGED <<closed, done, out, msgs, published, restarts, subCancelled, watchCancelled, watchDone>>
WSend == /\ wpc = "send" /\ WGoto("sel") /\ TU
         /\ UNCHANGED <<mutex, closed, done, out, msgs, published, restarts, subCancelled, watchCancelled, watchDone>>
WSel == /\ wpc = "sel" /\ UNCHANGED <<op, ncalls, res, closeCalled, closeReturned, startedAfterClose, cancelled>>
        /\ \/ out = 0 /\ out' = 1 /\ WGoto("next") /\ UNCHANGED <<pcs, watchDone>>
           \/ (\E r \in Receivers : pcs' = [pcs EXCEPT ![r] = "ngot"]) /\ WGoto("next") /\ UNCHANGED <<out, watchDone>>
           \/ (done \/ watchCancelled) /\ WGoto("done") /\ watchDone' = TRUE /\ UNCHANGED <<out, pcs>>
        /\ UNCHANGED <<mutex, closed, done, msgs, published, restarts, subCancelled, watchCancelled>>
WClosedExit == /\ wpc = "closed" /\ WGoto("done") /\ watchDone' = TRUE /\ TU
               /\ UNCHANGED <<mutex, closed, done, out, msgs, published, restarts, subCancelled, watchCancelled>>
(* restart: the old subscription is cancelled and a new one made, under the mutex *)
WRestart == /\ wpc = "r2" /\ mutex' = 0 /\ subCancelled' = FALSE /\ WGoto("loop") /\ TU
            /\ UNCHANGED <<closed, done, out, msgs, published, restarts, watchCancelled, watchDone>>

WStep == WLoop \/ WMsg \/ WNextExit \/ WErr \/ WLock("got", "check") \/ WCheck \/ WSend \/ WSel
         \/ WClosedExit \/ WLock("r1", "r2") \/ WRestart

Next == (\E t \in Threads : Step(t)) \/ WStep \/ Publish \/ PsStop \/ (\E t \in Threads : Cancel(t))     \* no fairness for the environment
Spec == Init /\ [][Next]_vars /\ (\A t \in Threads : WF_vars(Step(t))) /\ WF_vars(WStep)
(* any number of calls per thread: a thread waiting for the mutex must not be overtaken for ever (Go's mutex has a
   starvation mode), hence strong fairness                                                                     *)
SpecU == Init /\ [][Next]_vars /\ (\A t \in Threads : SF_vars(Step(t))) /\ SF_vars(WStep)

AllDone == /\ \A t \in Threads : pcs[t] = "idle" /\ ncalls[t] = MaxCalls
           /\ wpc \in {"none", "done"}
(* once a Close is called, every call returns -- the calls still to be made included -- and the watcher exits *)
Termination == (<>closeCalled) => <>AllDone
(* the same for any number of calls: once a Close has been called, a call under way returns, and the watcher exits *)
Returns == \A t \in Threads : (closeCalled /\ pcs[t] # "idle") ~> (pcs[t] = "idle")
WatcherExits == closeCalled ~> (wpc \in {"none", "done"})
InCritical(t) == IF t = W THEN wpc \in {"check", "r2"}
                 ELSE pcs[t] \in {"c1", "c2", "d2", "u1", "ra1", "ra0x"} \/ (UNLOCK = "deferred" /\ pcs[t] \in {"c3", "c4", "c5", "cret"})
MutexReleased == mutex # 0 => InCritical(mutex)
ResultsOK ==
  \A t \in Threads : \A i \in 1..Len(res[t]) :
     LET e == res[t][i] IN
       /\ e.op = "close" => e.r = "nil"
       /\ e.op = "directNo" => e.r = "nil"
       /\ (e.op \in Directs /\ e.late) => e.r = "closed"
       /\ (e.op = "next" /\ e.r = "closed") => done
       /\ e.r = "cancelled" => (Cancels /\ e.op \in Directs \cup {"next"})
       /\ e.op = "uncache" => e.r = "nil"
=============================================================================
