----------------------------- MODULE Subscriber -----------------------------
(* dagsync.Subscriber, announce path and explicit syncs (C08): the receiver's dedupe cache and
   capacity-1 out channel, the watcher (WRecv, WSwap = pendingMsg.Swap + spawn), the per-announcement
   goroutines G(p,k) (lockAsync -> sem -> take -> lockSync -> sync -> record -> release) and explicit
   syncs E(j) (getHead -> lockSync -> sync -> record).  latest is read when the message is taken /
   the head is queried, i.e. BEFORE the per-publisher sync lock is held, and recorded AFTER it is
   released -- as in the code.

   Invariants: LatestOK / OnceOK (quiescence: latest = last announced head, every advertisement
   reported exactly once), SemOK, MutexOK.  With NExp = 0 (announce-only) they hold; with one explicit
   sync of the same publisher TLC produces the histories recorded as findings F-C08-2 / F-C08-3
   (DESIGN.md section 7).  The real Subscriber is bound to this model by trace validation
   (SubscriberTrace.tla replays the same actions from recorded hook events).                       *)
EXTENDS Integers, Sequences, FiniteSets, TLC
CONSTANTS Pubs, MaxAd, SemMax, NExp
VARIABLES head, cache, outChan, wmsg, pending, spawned, asyncLock, syncLock, sem,
          latest, g, e, hooks, events
vars == <<head, cache, outChan, wmsg, pending, spawned, asyncLock, syncLock, sem, latest, g, e, hooks, events>>
view == <<head, cache, outChan, wmsg, pending, spawned, asyncLock, syncLock, sem, latest, g, e, hooks>>
GIds == Pubs \X (1..MaxAd)
EIds == 1..NExp
Idle == [pc |-> "idle", p |-> CHOOSE p \in Pubs : TRUE, msg |-> 0, stop |-> 0]
RECURSIVE Down(_, _)
Down(hi, lo) == IF hi <= lo THEN <<>> ELSE <<hi>> \o Down(hi - 1, lo)
Report(msg, stop) == IF msg > stop THEN Down(msg, stop) ELSE Down(msg, 0)

Init == /\ head = [p \in Pubs |-> 0] /\ cache = {} /\ outChan = <<>> /\ wmsg = <<>>
        /\ pending = [p \in Pubs |-> 0] /\ spawned = [p \in Pubs |-> 0]
        /\ asyncLock = [p \in Pubs |-> <<>>] /\ syncLock = [p \in Pubs |-> <<>>] /\ sem = 0
        /\ latest = [p \in Pubs |-> 0]
        /\ g = [i \in GIds |-> Idle] /\ e = [j \in EIds |-> Idle]
        /\ hooks = [p \in Pubs |-> <<>>] /\ events = <<>>

Publish(p) == /\ head[p] < MaxAd /\ head' = [head EXCEPT ![p] = @ + 1]
              /\ UNCHANGED <<cache, outChan, wmsg, pending, spawned, asyncLock, syncLock, sem, latest, g, e, hooks, events>>
Announce(p) == /\ head[p] > 0 /\ <<p, head[p]>> \notin cache /\ outChan = <<>>
               /\ cache' = cache \cup {<<p, head[p]>>} /\ outChan' = <<[p |-> p, c |-> head[p]]>>
               /\ UNCHANGED <<head, wmsg, pending, spawned, asyncLock, syncLock, sem, latest, g, e, hooks, events>>
WRecv == /\ wmsg = <<>> /\ outChan # <<>> /\ wmsg' = outChan /\ outChan' = <<>>
         /\ UNCHANGED <<head, cache, pending, spawned, asyncLock, syncLock, sem, latest, g, e, hooks, events>>
WSwap == /\ wmsg # <<>>
         /\ LET m == wmsg[1] IN
            /\ pending' = [pending EXCEPT ![m.p] = m.c]
            /\ IF pending[m.p] = 0
               THEN /\ spawned' = [spawned EXCEPT ![m.p] = @ + 1]
                    /\ g' = [g EXCEPT ![<<m.p, spawned[m.p] + 1>>] = [pc |-> "lockAsync", p |-> m.p, msg |-> 0, stop |-> 0]]
               ELSE UNCHANGED <<spawned, g>>
         /\ wmsg' = <<>>
         /\ UNCHANGED <<head, cache, outChan, asyncLock, syncLock, sem, latest, e, hooks, events>>

GStep(i) ==
  LET r == g[i] p == r.p IN
  \/ /\ r.pc = "lockAsync" /\ asyncLock[p] = <<>>
     /\ asyncLock' = [asyncLock EXCEPT ![p] = <<i>>] /\ g' = [g EXCEPT ![i].pc = "sem"]
     /\ UNCHANGED <<head, cache, outChan, wmsg, pending, spawned, syncLock, sem, latest, e, hooks, events>>
  \/ /\ r.pc = "sem" /\ (SemMax = 0 \/ sem < SemMax)
     /\ sem' = sem + 1 /\ g' = [g EXCEPT ![i].pc = "take"]
     /\ UNCHANGED <<head, cache, outChan, wmsg, pending, spawned, asyncLock, syncLock, latest, e, hooks, events>>
  \/ /\ r.pc = "take"
     /\ pending' = [pending EXCEPT ![p] = 0]
     /\ g' = [g EXCEPT ![i] = [r EXCEPT !.msg = pending[p], !.stop = latest[p],
                                         !.pc = IF latest[p] = pending[p] THEN "release" ELSE "lockSync"]]
     /\ UNCHANGED <<head, cache, outChan, wmsg, spawned, asyncLock, syncLock, sem, latest, e, hooks, events>>
  \/ /\ r.pc = "lockSync" /\ syncLock[p] = <<>>
     /\ syncLock' = [syncLock EXCEPT ![p] = <<i>>] /\ g' = [g EXCEPT ![i].pc = "sync"]
     /\ UNCHANGED <<head, cache, outChan, wmsg, pending, spawned, asyncLock, sem, latest, e, hooks, events>>
  \/ /\ r.pc = "sync"
     /\ hooks' = [hooks EXCEPT ![p] = @ \o Report(r.msg, r.stop)]
     /\ syncLock' = [syncLock EXCEPT ![p] = <<>>] /\ g' = [g EXCEPT ![i].pc = "record"]
     /\ UNCHANGED <<head, cache, outChan, wmsg, pending, spawned, asyncLock, sem, latest, e, events>>
  \/ /\ r.pc = "record"
     /\ latest' = [latest EXCEPT ![p] = r.msg] /\ events' = Append(events, <<p, r.msg>>)
     /\ g' = [g EXCEPT ![i].pc = "release"]
     /\ UNCHANGED <<head, cache, outChan, wmsg, pending, spawned, asyncLock, syncLock, sem, e, hooks>>
  \/ /\ r.pc = "release"
     /\ sem' = sem - 1 /\ asyncLock' = [asyncLock EXCEPT ![p] = <<>>] /\ g' = [g EXCEPT ![i].pc = "done"]
     /\ UNCHANGED <<head, cache, outChan, wmsg, pending, spawned, syncLock, latest, e, hooks, events>>

EStep(j) ==
  LET r == e[j] p == r.p IN
  \/ /\ r.pc = "idle" /\ \E q \in Pubs : e' = [e EXCEPT ![j] = [pc |-> "getHead", p |-> q, msg |-> 0, stop |-> 0]]
     /\ UNCHANGED <<head, cache, outChan, wmsg, pending, spawned, asyncLock, syncLock, sem, latest, g, hooks, events>>
  \/ /\ r.pc = "getHead"
     /\ e' = [e EXCEPT ![j] = [r EXCEPT !.msg = head[p], !.stop = latest[p],
                                 !.pc = IF head[p] = 0 \/ head[p] = latest[p] THEN "done" ELSE "lockSync"]]
     /\ UNCHANGED <<head, cache, outChan, wmsg, pending, spawned, asyncLock, syncLock, sem, latest, g, hooks, events>>
  \/ /\ r.pc = "lockSync" /\ syncLock[p] = <<>>
     /\ syncLock' = [syncLock EXCEPT ![p] = <<j>>] /\ e' = [e EXCEPT ![j].pc = "sync"]
     /\ UNCHANGED <<head, cache, outChan, wmsg, pending, spawned, asyncLock, sem, latest, g, hooks, events>>
  \/ /\ r.pc = "sync"
     /\ hooks' = [hooks EXCEPT ![p] = @ \o Report(r.msg, r.stop)]
     /\ syncLock' = [syncLock EXCEPT ![p] = <<>>] /\ e' = [e EXCEPT ![j].pc = "record"]
     /\ UNCHANGED <<head, cache, outChan, wmsg, pending, spawned, asyncLock, sem, latest, g, events>>
  \/ /\ r.pc = "record"
     /\ latest' = [latest EXCEPT ![p] = r.msg] /\ events' = Append(events, <<p, r.msg>>)
     /\ e' = [e EXCEPT ![j].pc = "done"]
     /\ UNCHANGED <<head, cache, outChan, wmsg, pending, spawned, asyncLock, syncLock, sem, g, hooks>>

Next == \/ \E p \in Pubs : Publish(p) \/ Announce(p)
        \/ WRecv \/ WSwap
        \/ \E i \in GIds : GStep(i)
        \/ \E j \in EIds : EStep(j)
Spec == Init /\ [][Next]_vars

Quiet == /\ outChan = <<>> /\ wmsg = <<>>
         /\ \A p \in Pubs : pending[p] = 0 /\ head[p] = MaxAd /\ <<p, MaxAd>> \in cache
         /\ \A i \in GIds : g[i].pc \in {"idle", "done"}
         /\ \A j \in EIds : e[j].pc \in {"idle", "done"}
Count(s, x) == Cardinality({k \in 1..Len(s) : s[k] = x})
LatestOK == Quiet => \A p \in Pubs : latest[p] = MaxAd
OnceOK == Quiet => \A p \in Pubs : \A a \in 1..MaxAd : Count(hooks[p], a) = 1
SemOK == SemMax = 0 \/ sem <= SemMax
MutexOK == \A p \in Pubs : Len(syncLock[p]) <= 1 /\ Len(asyncLock[p]) <= 1
=============================================================================
