----------------------------- MODULE Subscriber -----------------------------
(* dagsync.Subscriber, announce path and explicit syncs (C08): the receiver's dedupe cache and
   capacity-1 out channel, the watcher (WRecv, WSwap = pendingMsg.Swap + spawn), the per-announcement
   goroutines G(p,k) (lockAsync -> sem -> take -> lockSync -> sync -> record -> release) and explicit
   syncs E(j) (getHead -> lockSync -> sync -> record).  latest is read when the message is taken /
   the head is queried, i.e. BEFORE the per-publisher sync lock is held, and recorded AFTER it is
   released -- as in the code.

   Invariants: LatestOK / OnceOK (quiescence: latest = last announced head, every advertisement
   reported exactly once), SemOK, MutexOK.  With NExp = 0 (announce-only) they hold; with one explicit
   sync of the same publisher TLC produces the histories recorded as findings F-C08-2 / F-C08-3
   (DESIGN.md section 7).  The real Subscriber is bound to this model by trace validation
   (SubscriberTrace.tla replays the same actions from recorded hook events).

   Handlers: a publisher's two locks and its pending slot live in a handler that is created on first use and removed by
   the idle handler cleaner (Clean).  hgen[p] numbers the handlers publisher p has had, hexists[p] says whether the
   current one is still in the subscriber's table, users[<<p, k>>] counts who is using handler k of p: the watcher
   between looking the handler up (WRecv) and handing the message over (WSwap), the goroutine spawned for a message
   until it ends, an explicit sync from the lookup to its return.  IDLE = "off": no cleaner; "fixed": the cleaner
   removes only handlers nobody uses (time is abstracted: any unused handler may have been idle for long enough);
   "pinned": the pinned code, where the expiry time was set at lookup, so a sync that outlasts the TTL loses its handler --
   TLC then finds two syncs of one publisher at a time (OneSyncOK), which is the history reproduced on the real code
   (DESIGN.md section 7).                                                                                        *)

EXTENDS Integers, Sequences, FiniteSets, TLC
CONSTANTS Pubs, MaxAd, SemMax, NExp, IDLE, MaxGen
VARIABLES head, cache, outChan, wmsg, pending, spawned, asyncLock, syncLock, sem,
          latest, g, e, hooks, events, hgen, hexists, users
vars == <<head, cache, outChan, wmsg, pending, spawned, asyncLock, syncLock, sem, latest, g, e, hooks, events, hgen, hexists, users>>
view == <<head, cache, outChan, wmsg, pending, spawned, asyncLock, syncLock, sem, latest, g, e, hooks, hgen, hexists, users>>
GIds == Pubs \X (1..MaxAd)
EIds == 1..NExp
HIds == Pubs \X (1..MaxGen)
Idle == [pc |-> "idle", p |-> CHOOSE p \in Pubs : TRUE, msg |-> 0, stop |-> 0, h |-> 0]
RECURSIVE Down(_, _)
Down(hi, lo) == IF hi <= lo THEN <<>> ELSE <<hi>> \o Down(hi - 1, lo)
Report(msg, stop) == IF msg > stop THEN Down(msg, stop) ELSE Down(msg, 0)

Init == /\ head = [p \in Pubs |-> 0] /\ cache = {} /\ outChan = <<>> /\ wmsg = <<>>
        /\ pending = [h \in HIds |-> 0] /\ spawned = [p \in Pubs |-> 0]
        /\ asyncLock = [h \in HIds |-> <<>>] /\ syncLock = [h \in HIds |-> <<>>] /\ sem = 0
        /\ latest = [p \in Pubs |-> 0]
        /\ g = [i \in GIds |-> Idle] /\ e = [j \in EIds |-> Idle]
        /\ hooks = [p \in Pubs |-> <<>>] /\ events = <<>>
        /\ hgen = [p \in Pubs |-> 0] /\ hexists = [p \in Pubs |-> FALSE] /\ users = [h \in HIds |-> 0]

(* getOrCreateHandler(p): the current handler, or a new one; the caller becomes a user *)
Gen(p) == IF hexists[p] THEN hgen[p] ELSE hgen[p] + 1
Lookup(p) == /\ hgen' = [hgen EXCEPT ![p] = Gen(p)] /\ hexists' = [hexists EXCEPT ![p] = TRUE]
             /\ users' = [users EXCEPT ![<<p, Gen(p)>>] = @ + 1]
Unuse(h) == users' = [users EXCEPT ![h] = @ - 1]
HUnch == UNCHANGED <<hgen, hexists, users>>

Publish(p) == /\ head[p] < MaxAd /\ head' = [head EXCEPT ![p] = @ + 1]
              /\ UNCHANGED <<cache, outChan, wmsg, pending, spawned, asyncLock, syncLock, sem, latest, g, e, hooks, events>> /\ HUnch
Announce(p) == /\ head[p] > 0 /\ <<p, head[p]>> \notin cache /\ outChan = <<>>
               /\ cache' = cache \cup {<<p, head[p]>>} /\ outChan' = <<[p |-> p, c |-> head[p]]>>
               /\ UNCHANGED <<head, wmsg, pending, spawned, asyncLock, syncLock, sem, latest, g, e, hooks, events>> /\ HUnch
(* the watcher receives a message and looks the publisher's handler up *)
WRecv == /\ wmsg = <<>> /\ outChan # <<>>
         /\ LET m == outChan[1] IN wmsg' = <<[p |-> m.p, c |-> m.c, h |-> Gen(m.p)]>> /\ Lookup(m.p)
         /\ outChan' = <<>>
         /\ UNCHANGED <<head, cache, pending, spawned, asyncLock, syncLock, sem, latest, g, e, hooks, events>>
(* pendingMsg.Swap: into an empty slot -- a goroutine is spawned and keeps the watcher's use of the handler; otherwise the
   goroutine that is going to take the slot is a user already and the watcher gives its use back                        *)
WSwap == /\ wmsg # <<>>
         /\ LET m == wmsg[1] h == <<m.p, m.h>> IN
            /\ pending' = [pending EXCEPT ![h] = m.c]
            /\ IF pending[h] = 0
               THEN /\ spawned' = [spawned EXCEPT ![m.p] = @ + 1]
                    /\ g' = [g EXCEPT ![<<m.p, spawned[m.p] + 1>>] = [pc |-> "lockAsync", p |-> m.p, msg |-> 0, stop |-> 0, h |-> m.h]]
                    /\ UNCHANGED users
               ELSE UNCHANGED <<spawned, g>> /\ Unuse(h)
         /\ wmsg' = <<>>
         /\ UNCHANGED <<head, cache, outChan, asyncLock, syncLock, sem, latest, e, hooks, events, hgen, hexists>>

GStep(i) ==
  LET r == g[i] p == r.p h == <<r.p, r.h>> IN
  \/ /\ r.pc = "lockAsync" /\ asyncLock[h] = <<>>
     /\ asyncLock' = [asyncLock EXCEPT ![h] = <<i>>] /\ g' = [g EXCEPT ![i].pc = "sem"]
     /\ UNCHANGED <<head, cache, outChan, wmsg, pending, spawned, syncLock, sem, latest, e, hooks, events>> /\ HUnch
  \/ /\ r.pc = "sem" /\ (SemMax = 0 \/ sem < SemMax)
     /\ sem' = sem + 1 /\ g' = [g EXCEPT ![i].pc = "take"]
     /\ UNCHANGED <<head, cache, outChan, wmsg, pending, spawned, asyncLock, syncLock, latest, e, hooks, events>> /\ HUnch
  \/ /\ r.pc = "take"
     /\ pending' = [pending EXCEPT ![h] = 0]
     /\ g' = [g EXCEPT ![i] = [r EXCEPT !.msg = pending[h], !.stop = latest[p],
                                         !.pc = IF latest[p] = pending[h] THEN "release" ELSE "lockSync"]]
     /\ UNCHANGED <<head, cache, outChan, wmsg, spawned, asyncLock, syncLock, sem, latest, e, hooks, events>> /\ HUnch
  \/ /\ r.pc = "lockSync" /\ syncLock[h] = <<>>
     /\ syncLock' = [syncLock EXCEPT ![h] = <<i>>] /\ g' = [g EXCEPT ![i].pc = "sync"]
     /\ UNCHANGED <<head, cache, outChan, wmsg, pending, spawned, asyncLock, sem, latest, e, hooks, events>> /\ HUnch
  \/ /\ r.pc = "sync"
     /\ hooks' = [hooks EXCEPT ![p] = @ \o Report(r.msg, r.stop)]
     /\ syncLock' = [syncLock EXCEPT ![h] = <<>>] /\ g' = [g EXCEPT ![i].pc = "record"]
     /\ UNCHANGED <<head, cache, outChan, wmsg, pending, spawned, asyncLock, sem, latest, e, events>> /\ HUnch
  \/ /\ r.pc = "record"
     /\ latest' = [latest EXCEPT ![p] = r.msg] /\ events' = Append(events, <<p, r.msg>>)
     /\ g' = [g EXCEPT ![i].pc = "release"]
     /\ UNCHANGED <<head, cache, outChan, wmsg, pending, spawned, asyncLock, syncLock, sem, e, hooks>> /\ HUnch
  \/ /\ r.pc = "release"
     /\ sem' = sem - 1 /\ asyncLock' = [asyncLock EXCEPT ![h] = <<>>] /\ g' = [g EXCEPT ![i].pc = "unuse"]
     /\ UNCHANGED <<head, cache, outChan, wmsg, pending, spawned, syncLock, latest, e, hooks, events>> /\ HUnch
  \/ /\ r.pc = "unuse"                      \* releaseHandler, the goroutine's last step
     /\ Unuse(h) /\ g' = [g EXCEPT ![i].pc = "done"]
     /\ UNCHANGED <<head, cache, outChan, wmsg, pending, spawned, asyncLock, syncLock, sem, latest, e, hooks, events, hgen, hexists>>

EStep(j) ==
  LET r == e[j] p == r.p h == <<r.p, r.h>> IN
  \/ /\ r.pc = "idle" /\ \E q \in Pubs : e' = [e EXCEPT ![j] = [pc |-> "getHead", p |-> q, msg |-> 0, stop |-> 0, h |-> Gen(q)]] /\ Lookup(q)
     /\ UNCHANGED <<head, cache, outChan, wmsg, pending, spawned, asyncLock, syncLock, sem, latest, g, hooks, events>>
  \/ /\ r.pc = "getHead"
     /\ e' = [e EXCEPT ![j] = [r EXCEPT !.msg = head[p], !.stop = latest[p],
                                 !.pc = IF head[p] = 0 \/ head[p] = latest[p] THEN "unuse" ELSE "lockSync"]]
     /\ UNCHANGED <<head, cache, outChan, wmsg, pending, spawned, asyncLock, syncLock, sem, latest, g, hooks, events>> /\ HUnch
  \/ /\ r.pc = "lockSync" /\ syncLock[h] = <<>>
     /\ syncLock' = [syncLock EXCEPT ![h] = <<j>>] /\ e' = [e EXCEPT ![j].pc = "sync"]
     /\ UNCHANGED <<head, cache, outChan, wmsg, pending, spawned, asyncLock, sem, latest, g, hooks, events>> /\ HUnch
  \/ /\ r.pc = "sync"
     /\ hooks' = [hooks EXCEPT ![p] = @ \o Report(r.msg, r.stop)]
     /\ syncLock' = [syncLock EXCEPT ![h] = <<>>] /\ e' = [e EXCEPT ![j].pc = "record"]
     /\ UNCHANGED <<head, cache, outChan, wmsg, pending, spawned, asyncLock, sem, latest, g, events>> /\ HUnch
  \/ /\ r.pc = "record"
     /\ latest' = [latest EXCEPT ![p] = r.msg] /\ events' = Append(events, <<p, r.msg>>)
     /\ e' = [e EXCEPT ![j].pc = "unuse"]
     /\ UNCHANGED <<head, cache, outChan, wmsg, pending, spawned, asyncLock, syncLock, sem, g, hooks>> /\ HUnch
  \/ /\ r.pc = "unuse"
     /\ Unuse(h) /\ e' = [e EXCEPT ![j].pc = "done"]
     /\ UNCHANGED <<head, cache, outChan, wmsg, pending, spawned, asyncLock, syncLock, sem, latest, g, hooks, events, hgen, hexists>>

(* the idle handler cleaner removes p's handler from the table (a later lookup creates handler hgen[p] + 1) *)
Clean(p) == /\ IDLE # "off" /\ hexists[p] /\ hgen[p] < MaxGen
            /\ IDLE = "fixed" => users[<<p, hgen[p]>>] = 0
            /\ hexists' = [hexists EXCEPT ![p] = FALSE]
            /\ UNCHANGED <<head, cache, outChan, wmsg, pending, spawned, asyncLock, syncLock, sem, latest, g, e, hooks, events, hgen, users>>

Next == \/ \E p \in Pubs : Publish(p) \/ Announce(p) \/ Clean(p)
        \/ WRecv \/ WSwap
        \/ \E i \in GIds : GStep(i)
        \/ \E j \in EIds : EStep(j)
Spec == Init /\ [][Next]_vars

Quiet == /\ outChan = <<>> /\ wmsg = <<>>
         /\ \A h \in HIds : pending[h] = 0
         /\ \A p \in Pubs : head[p] = MaxAd /\ <<p, MaxAd>> \in cache
         /\ \A i \in GIds : g[i].pc \in {"idle", "done"}
         /\ \A j \in EIds : e[j].pc \in {"idle", "done"}
Count(s, x) == Cardinality({k \in 1..Len(s) : s[k] = x})
LatestOK == Quiet => \A p \in Pubs : latest[p] = MaxAd
OnceOK == Quiet => \A p \in Pubs : \A a \in 1..MaxAd : Count(hooks[p], a) = 1
SemOK == SemMax = 0 \/ sem <= SemMax
MutexOK == \A h \in HIds : Len(syncLock[h]) <= 1 /\ Len(asyncLock[h]) <= 1
(* C08: at most one sync of a publisher at a time -- whichever handler the syncs got *)
Syncing(p) == Cardinality({i \in GIds : g[i].pc = "sync" /\ g[i].p = p}) + Cardinality({j \in EIds : e[j].pc = "sync" /\ e[j].p = p})
OneSyncOK == \A p \in Pubs : Syncing(p) <= 1
(* a handler that left the table is used by nobody, and has no message waiting in its slot *)
Gone(h) == h[2] < hgen[h[1]] \/ (h[2] = hgen[h[1]] /\ ~hexists[h[1]])
OrphanOK == \A h \in HIds : Gone(h) => users[h] = 0 /\ pending[h] = 0
(* the use count is exactly: the watcher holding a message for the handler, the goroutines spawned for it that have not
   ended, the explicit syncs that have not returned; a waiting message is always backed by a user                      *)
Active(pc) == pc \notin {"idle", "done"}
UsersOK == \A h \in HIds :
             /\ users[h] = Cardinality({i \in GIds : Active(g[i].pc) /\ <<g[i].p, g[i].h>> = h})
                           + Cardinality({j \in EIds : Active(e[j].pc) /\ <<e[j].p, e[j].h>> = h})
                           + (IF wmsg # <<>> /\ <<wmsg[1].p, wmsg[1].h>> = h THEN 1 ELSE 0)
             /\ pending[h] # 0 => users[h] > 0
=============================================================================
