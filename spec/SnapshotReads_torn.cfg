SPECIFICATION Spec
CONSTANTS
  Prov = {"p", "q"}
  MaxVer = 1
  Readers = {1, 2}
  MaxPubs = 5
  TORN = TRUE
INVARIANTS ListsConsistent ReadsConsistent NeverSpuriouslyMissing
