SPECIFICATION Spec
CONSTANTS
  Ids = {"m", "x", "y"}
  Mds = {"nil", "empty", "L", "A"}
  Lookups = {"L", "nil"}
  MaxLen = 2
  MaxSum = 4
  FIXED = TRUE
  EXPORT = TRUE
INVARIANTS Laws ExportCase
