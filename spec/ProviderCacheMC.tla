--------------------------- MODULE ProviderCacheMC ---------------------------
(* Model-checking instances of ProviderCache (constants that a .cfg cannot express). *)
EXTENDS ProviderCache
Src2 == <<"s1", "s2">>
Src3 == <<"s1", "s2", "s3">>
Src1 == <<"s1">>
Prov1 == <<"p">>
Prov2 == <<"p", "q">>
Prov3 == <<"p", "q", "r">>
=============================================================================
