---------------------------- MODULE FindClientAPI ----------------------------
(* The HTTP client of the find API beyond Find (find/client/client.go): ListProviders, GetProvider, GetStats -- what C06's HTTP
   source and every indexer front end stand on.  Find itself is C19 (FindAPI.tla).  No listed property is about these calls:
   this module is coverage of the system, not a claim (check X03).

   (1) New(baseURL): as for the ingest client (IngestAPI.tla) -- scheme http or https, path dropped, query kept.
   (2) One GET per call: /providers, /providers/<peer ID>, /stats, each with "Accept: application/json".
   (3) The reply: status 200 with a body that decodes gives the decoded value -- what the server encoded, field by field;
       status 200 with a body that does not decode is an error that is NOT an API error (there is no status to report);
       the JSON value null decodes to "nothing" without error (no providers; a provider / statistics with every field empty);
       every other status, 204 included, is an API error that keeps the status and carries the trimmed body, or the status
       line when the body is white space only.                                                                               *)
EXTENDS Integers, Sequences, FiniteSets, TLC, VerifIO

CONSTANT EXPORT

Ops == {"ListProviders", "GetProvider", "GetStats"}
Bases == {"plain", "slash", "path", "query", "upper-scheme", "noscheme", "otherscheme", "empty"}
Statuses == {200, 204, 400, 404, 500}
Bodies == {"valid",       \* what the server's own encoder writes for the value of the row
           "null",        \* the JSON value null
           "other-json",  \* well-formed JSON of another shape (a string)
           "garbage", "empty", "text", "spaces"}
Values == 0..3            \* which value the server holds (providers: none / one plain / one with publisher and extended providers / two; statistics: four counts)

BaseOk(b) == b \notin {"noscheme", "otherscheme", "empty"}
QueryOf(b) == IF b = "query" THEN "via=x03" ELSE ""
Path(op) == CASE op = "ListProviders" -> "/providers" [] op = "GetProvider" -> "/providers/<id>" [] OTHER -> "/stats"

Decodes(op, body) == body \in {"valid", "null"}
Cases == [op : Ops, base : Bases, status : Statuses, body : Bodies, value : Values]
Call(c) ==
  IF ~BaseOk(c.base) THEN [new |-> "refused", sent |-> FALSE, result |-> "none", status |-> 0, text |-> "none"]
  ELSE IF c.status = 200
       THEN IF Decodes(c.op, c.body)
            THEN [new |-> "ok", sent |-> TRUE, result |-> IF c.body = "null" THEN "nothing" ELSE "the-value", status |-> 0, text |-> "none"]
            ELSE [new |-> "ok", sent |-> TRUE, result |-> "decode-error", status |-> 0, text |-> "none"]
       ELSE [new |-> "ok", sent |-> TRUE, result |-> "api-error", status |-> c.status,
             text |-> IF c.status = 204 \/ c.body \in {"empty", "spaces"} THEN "status-line" ELSE "the-body-trimmed"]

ASSUME \A c \in Cases :
   LET o == Call(c) IN
   /\ o.sent <=> BaseOk(c.base)
   /\ o.result \in {"the-value", "nothing"} => c.status = 200                      \* nothing but a 200 yields a value
   /\ o.result = "api-error" <=> (BaseOk(c.base) /\ c.status # 200)
   /\ o.result = "api-error" => o.status = c.status
   /\ o.result = "decode-error" => c.status = 200 /\ o.status = 0                  \* a 200 that does not decode is not an API error
ASSUME \A o1, o2 \in Ops : Path(o1) = Path(o2) => o1 = o2

ASSUME EXPORT => \A c \in Cases : Emit("x03_cases.ndjson", [c |-> c, path |-> Path(c.op), query |-> QueryOf(c.base), out |-> Call(c)])

VARIABLE dummy
Init == dummy = 0
Next == UNCHANGED dummy
Spec == Init /\ [][Next]_dummy
=============================================================================
