------------------------------ MODULE SignedHead ------------------------------
(* C03 -- the signed chain head (dagsync/ipnisync/head, Syncer.GetHead) over the symbolic
   signature model: a response is [head, topic, key, sby, smsg]: head CID, optional topic, the
   embedded public key ("" = missing, "garbage" = does not parse) and "signature made by sby over
   smsg" ("" = missing).  The signed message is the pair <<head, topic>> (absent and empty topic
   sign alike).

     Validate -- transcription of SignedHead.Validate;
     Accept   -- GetHead: Validate, then signer = the peer the caller asked to sync;
     Altered  -- every alteration of an honest head served by publisher `pub`;
     Out      -- declarative: a CID is yielded iff the response IS an honest head of the expected
                 publisher; the CID yielded is the one that was signed.                          *)
EXTENDS Integers, Sequences, FiniteSets, TLC, VerifIO

CONSTANTS Ids, Heads, Topics, EXPORT, CHECK_SIGNER
VARIABLES c, stage
vars == <<c, stage>>

Honest(k, h, t) == [head |-> h, topic |-> t, key |-> k, sby |-> k, smsg |-> <<h, t>>]
OtherOf(S, x) == CHOOSE y \in S : y # x

Alts == {"none", "head", "topic", "key", "sig-by-other", "resigned-by-other", "swap-sig-other-head", "swap-key-sig-other-signer",
         "empty-key", "empty-sig", "garbage-key"}
Cases == [pub : Ids, head : Heads, topic : Topics, expected : Ids, alt : Alts]

Altered(x) ==
  LET r == Honest(x.pub, x.head, x.topic)
      o == OtherOf(Ids, x.pub)
      h2 == OtherOf(Heads, x.head)
  IN CASE x.alt = "none" -> r
       [] x.alt = "head" -> [r EXCEPT !.head = h2]
       [] x.alt = "topic" -> [r EXCEPT !.topic = OtherOf(Topics, x.topic)]
       [] x.alt = "key" -> [r EXCEPT !.key = o]
       [] x.alt = "sig-by-other" -> [r EXCEPT !.sby = o]
       [] x.alt = "resigned-by-other" -> Honest(o, x.head, x.topic)
       [] x.alt = "swap-sig-other-head" -> [r EXCEPT !.smsg = <<h2, x.topic>>]          \* signature of another valid head of the same signer
       [] x.alt = "swap-key-sig-other-signer" -> [r EXCEPT !.key = o, !.sby = o]         \* key and signature of the other publisher's head for the same CID
       [] x.alt = "empty-key" -> [r EXCEPT !.key = ""]
       [] x.alt = "empty-sig" -> [r EXCEPT !.sby = ""]
       [] x.alt = "garbage-key" -> [r EXCEPT !.key = "garbage"]

No == [ok |-> FALSE, head |-> "", by |-> ""]
Validate(r) ==
  IF r.sby = "" \/ r.key = "" \/ r.key = "garbage" THEN No
  ELSE IF r.sby = r.key /\ r.smsg = <<r.head, r.topic>> THEN [ok |-> TRUE, head |-> r.head, by |-> r.key] ELSE No
Accept(r, expected) ==
  LET v == Validate(r) IN IF v.ok /\ (~CHECK_SIGNER \/ v.by = expected) THEN v ELSE No

Out(x) == LET r == Altered(x) IN
          IF \E h \in Heads, t \in Topics : r = Honest(x.expected, h, t) THEN [ok |-> TRUE, head |-> r.head, by |-> x.expected] ELSE No

Init == c \in Cases /\ stage = 0
Next == UNCHANGED vars
Spec == Init /\ [][Next]_vars
Agree == Accept(Altered(c), c.expected) = Out(c)
PublisherServesValid == \A k \in Ids, h \in Heads, t \in Topics : Accept(Honest(k, h, t), k) = [ok |-> TRUE, head |-> h, by |-> k]
ExportCase == EXPORT => Emit("c03_cases.ndjson", [case |-> c, resp |-> Altered(c), out |-> Out(c)])
=============================================================================
