----------------------------- MODULE PublisherAPI -----------------------------
(* The HTTP face of ipnisync.Publisher (dagsync/ipnisync/publisher.go, ServeHTTP) and the content-type hint that
   travels with every block request (cid_schema_hint.go).  No listed property is about it alone -- C01..C04 rest on it:
   a sync is a sequence of these requests -- so this module is coverage of the system, not a claim (check X01).

   Serve is a transcription of ServeHTTP, case by case:
     mode "served"       the Publisher runs its own server; the mount point is stripped before the handler sees the path,
                         which must then be a single segment;
     mode "handler"      the Publisher is an http.Handler in somebody else's server (WithStartServer(false)); the path must
     mode "handler-pfx"  begin with the handler path ([prefix/]ipni/v1/ad) and the LAST segment is what is asked for;
     the last segment is "head" (204 without a root, else the signed head) or a CID (400 if it does not parse; the block
     in DAG-JSON if the link system has it, 404 if it says "not exists", 500 for any other load error);
     a request for a CID carries an optional hint (header Ipni-Cid-Schema-Type), which the link system's opener can read
     back from the link context -- also a value this version does not know (the opener then gets the value AND an error).

   What the client sends (Client): a sync of advertisements announces "Advertisement" with every block request, a sync
   of entries (SyncEntries, SyncOneEntry, SyncHAMTEntries) "EntryChunk"; head queries carry no hint.                   *)
EXTENDS Integers, Sequences, FiniteSets, TLC, VerifIO

CONSTANT EXPORT
Modes == {"served", "handler", "handler-pfx"}
Asks == {"head", "cid-present", "cid-absent", "cid-loaderr", "not-a-cid"}
Places == {"at",        \* directly at the mount point / the handler path
           "deeper",    \* one more directory between the handler path and the last segment
           "outside"}   \* not under the handler path at all (served mode: some other directory)
Roots == {"unset", "set"}
Hints == {"none", "Advertisement", "EntryChunk", "other"}
Reqs == [mode : Modes, place : Places, ask : Asks, root : Roots, hint : Hints]

NoLoad == "not-consulted"
Resp(st, body, seen) == [status |-> st, body |-> body, seen |-> seen]      \* seen: what the link system's opener read from the context
Serve(r) ==
  IF r.mode = "served" /\ r.place = "outside" THEN Resp(404, "error", NoLoad)         \* the server's mux has nothing mounted there: the Publisher is not asked
  ELSE IF r.mode = "served" /\ r.place = "deeper" THEN Resp(400, "error", NoLoad)      \* path.Dir(urlPath) # "."
  ELSE IF r.mode # "served" /\ r.place = "outside" THEN Resp(400, "error", NoLoad)      \* not under the handler path
  ELSE IF r.ask = "head" THEN (IF r.root = "unset" THEN Resp(204, "empty", NoLoad) ELSE Resp(200, "head", NoLoad))
  ELSE IF r.ask = "not-a-cid" THEN Resp(400, "error", NoLoad)
  ELSE CASE r.ask = "cid-present" -> Resp(200, "block", r.hint)
         [] r.ask = "cid-absent"  -> Resp(404, "error", r.hint)
         [] OTHER                 -> Resp(500, "error", r.hint)

(* declarative reading *)
WellPlaced(r) == IF r.mode = "served" THEN r.place = "at" ELSE r.place # "outside"
ASSUME \A r \in Reqs :
   LET o == Serve(r) IN
   /\ o.status = 200 <=> (WellPlaced(r) /\ ((r.ask = "head" /\ r.root = "set") \/ r.ask = "cid-present"))
   /\ o.status = 404 <=> ((WellPlaced(r) /\ r.ask = "cid-absent") \/ (r.mode = "served" /\ r.place = "outside"))   \* by the Publisher: of well-formed CIDs only
   /\ o.status = 204 <=> (WellPlaced(r) /\ r.ask = "head" /\ r.root = "unset")
   /\ (o.seen # NoLoad) <=> (WellPlaced(r) /\ r.ask \in {"cid-present", "cid-absent", "cid-loaderr"})    \* the store is consulted for CIDs only
   /\ (o.seen # NoLoad) => o.seen = r.hint                                       \* ... and sees the hint as it was sent
   /\ ~WellPlaced(r) => o.status \in {400, 404}

Ops == {"SyncAdChain", "announce", "SyncEntries", "SyncOneEntry", "SyncHAMTEntries"}
Client(op) == IF op \in {"SyncAdChain", "announce"} THEN "Advertisement" ELSE "EntryChunk"

ASSUME EXPORT => \A r \in Reqs : Emit("x01_cases.ndjson", [r |-> r, out |-> Serve(r)])
ASSUME EXPORT => \A op \in Ops : Emit("x01_client.ndjson", [op |-> op, hint |-> Client(op)])

VARIABLE dummy
Init == dummy = 0
Next == UNCHANGED dummy
Spec == Init /\ [][Next]_dummy
=============================================================================
