-------------------------------- MODULE DHash --------------------------------
(* C12 -- double-hash encryption (dhash) and the reader-privacy lookup (find/client DHashClient)
   over symbolic terms.

   Enc(pass, pl) is the term [nonce |-> <<"N", pass, pl>>, ct |-> <<"C", pass, pl>>]: both the nonce and
   the ciphertext are FUNCTIONS of passphrase and payload (deterministic encryption, which is what
   makes encrypted value keys comparable without decrypting).  The wire form is nonce || ct; a
   received blob is the term plus a shape: intact, truncated to one of the length classes
   (shorter than a nonce, exactly a nonce, nonce + partial tag, ...), one bit flipped in the nonce
   or in the ciphertext, or bytes appended.  Dec accepts only an intact term under the same
   passphrase (AEAD authenticity is assumed; what is checked is that every other shape yields an
   error -- FIXED = FALSE is the pinned DecryptValueKey, which slices the first 12 bytes unchecked).

   Lookup protocol: the index maps a multihash to provider records (pid, ctx, md); the store holds
     SecondHash(mh) |-> { Enc(mh, VK(pid, ctx)) }      and      H(VK(pid, ctx)) |-> Enc(VK(pid, ctx), md).
   Find(mh) decrypts each value key with mh, splits it, fetches and decrypts the metadata with the
   value key, and skips whatever fails.  A hostile store may return any blob shape or blobs that
   belong to other multihashes.                                                                   *)
EXTENDS Integers, Sequences, SequencesExt, FiniteSets, TLC, VerifIO
SetToSeq2(S) == SetToSeq(S)

CONSTANTS Mhs, Pids, Ctxs, Mds, FIXED, EXPORT

Shapes == {"intact", "len<12", "len=12", "len<28", "truncated-tail", "flip-nonce", "flip-ct", "appended"}
Enc(pass, pl) == [nonce |-> <<"N", pass, pl>>, ct |-> <<"C", pass, pl>>, pass |-> pass, pl |-> pl]
Blob(t, sh) == [t |-> t, shape |-> sh]
Err == [ok |-> FALSE, pl |-> <<>>, panic |-> FALSE]
Panic == [ok |-> FALSE, pl |-> <<>>, panic |-> TRUE]
(* generic: DecryptMetadata-style length check first, then AEAD open *)
Dec(pass, b, checked) ==
  IF b.shape \in {"len<12", "len=12"} /\ ~checked THEN (IF b.shape = "len<12" THEN Panic ELSE Err)
  ELSE IF b.shape = "intact" /\ b.t.pass = pass THEN [ok |-> TRUE, pl |-> b.t.pl, panic |-> FALSE]
  ELSE Err
DecValueKey(mh, b) == Dec(mh, b, FIXED)
DecMetadata(vk, b) == Dec(vk, b, TRUE)

(* terms are uniformly 3-tuples of strings so that TLC can compare them *)
VK(pid, ctx) == <<"VK", pid, ctx>>
MH(m) == <<"MH", m, "">>
MD(d) == <<"MD", d, "">>
Split(vk) == [pid |-> vk[2], ctx |-> vk[3]]

(* ---- laws of the primitives (constant-level: checked once by ASSUME) ---- *)
Passes == {MH(m) : m \in Mhs} \cup {VK(p, c) : p \in Pids, c \in Ctxs}
Payloads == {MD(d) : d \in Mds} \cup {VK(p, c) : p \in Pids, c \in Ctxs}
RoundTrip == \A k \in Passes, pl \in Payloads : Dec(k, Blob(Enc(k, pl), "intact"), TRUE) = [ok |-> TRUE, pl |-> pl, panic |-> FALSE]
Deterministic == \A k \in Passes, pl \in Payloads : Enc(k, pl) = Enc(k, pl)
Injective == \A k1, k2 \in Passes, p1, p2 \in Payloads : Enc(k1, p1) = Enc(k2, p2) => k1 = k2 /\ p1 = p2
FailsClosed == \A k, k2 \in Passes, pl \in Payloads, sh \in Shapes :
                  (k2 # k \/ sh # "intact") => LET r == Dec(k2, Blob(Enc(k, pl), sh), TRUE) IN ~r.ok /\ ~r.panic
ValueKeySplits == \A p \in Pids, c \in Ctxs : Split(VK(p, c)) = [pid |-> p, ctx |-> c]
ASSUME RoundTrip /\ Deterministic /\ Injective /\ FailsClosed /\ ValueKeySplits

(* ---- the lookup protocol over a small index and a (possibly hostile) store ---- *)
VARIABLES index,     \* [Mhs -> SUBSET (Pids \X Ctxs \X Mds)]
          tamper,    \* what the store does to the value-key blobs / metadata blobs of the queried multihash
          q, stage
vars == <<index, tamper, q, stage>>

Tampers == [vk : Shapes \cup {"foreign"}, md : Shapes \cup {"foreign", "missing"}]
Recs == Pids \X Ctxs \X Mds
(* the metadata store holds one entry per value key: a (provider, context) pair has one metadata *)
SmallSets == {S \in SUBSET Recs : Cardinality(S) <= 2 /\ \A a, b \in S : (a[1] = b[1] /\ a[2] = b[2]) => a = b}

Init == index = [m \in Mhs |-> {}] /\ tamper = [vk |-> "intact", md |-> "intact"] /\ q \in Mhs /\ stage = 0
PickIndex == /\ stage = 0 /\ stage' = 1 /\ index' \in [Mhs -> SmallSets] /\ UNCHANGED <<tamper, q>>
PickTamper == /\ stage = 1 /\ stage' = 2 /\ tamper' \in Tampers /\ UNCHANGED <<index, q>>
Next == PickIndex \/ PickTamper
Spec == Init /\ [][Next]_vars
Complete == stage = 2

OtherMh(m) == CHOOSE x \in Mhs : x # m
(* what the store returns for the queried multihash: one blob per indexed record *)
VkBlobs == { [rec |-> r,
              b |-> IF tamper.vk = "foreign" THEN Blob(Enc(MH(OtherMh(q)), VK(r[1], r[2])), "intact")   \* a value key encrypted for another multihash
                    ELSE Blob(Enc(MH(q), VK(r[1], r[2])), tamper.vk)] : r \in index[q] }
MdBlob(r) == IF tamper.md = "foreign" THEN Blob(Enc(VK(r[1], "other-context"), MD(r[3])), "intact")   \* metadata encrypted under another key
             ELSE Blob(Enc(VK(r[1], r[2]), MD(r[3])), tamper.md)

FindOne(x) ==      \* FindAsync for one encrypted value key: "skip" or a result record
  LET d == DecValueKey(MH(q), x.b) IN
  IF d.panic THEN "panic"
  ELSE IF ~d.ok THEN "skip"
  ELSE IF tamper.md = "missing" THEN "skip"
  ELSE LET m == DecMetadata(d.pl, MdBlob(x.rec)) IN
       IF m.panic THEN "panic" ELSE IF ~m.ok THEN "skip" ELSE "hit"
Results == {x.rec : x \in {y \in VkBlobs : FindOne(y) = "hit"}}
Panics == \E x \in VkBlobs : FindOne(x) = "panic"

(* C12, last clause: exactly the providers and metadata indexed for that multihash; with a hostile store
   nothing foreign and never a panic                                                                  *)
Honest == tamper.vk = "intact" /\ tamper.md = "intact"
FindExact == (Complete /\ Honest) => Results = index[q] /\ ~Panics
FindSafe == Complete => (Results \subseteq index[q] /\ ~Panics)
Expected == IF Honest THEN index[q] ELSE {}
ExportCase == (Complete /\ EXPORT) =>
   Emit("c12_cases.ndjson", [q |-> q, index |-> [m \in Mhs |-> SetToSeq2(index[m])], tamper |-> tamper, out |-> SetToSeq2(Expected)])
=============================================================================
