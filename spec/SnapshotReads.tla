---------------------------- MODULE SnapshotReads ----------------------------
(* C07 -- readers of pcache.ProviderCache.  The writer publishes immutable snapshots (m, u)
   through one atomic pointer; a reader loads the pointer once and evaluates its whole lookup
   (u first, then m; List merges both) on that copy.

   Abstract state: `pubs` is the sequence of snapshots published so far (pubs[Len(pubs)] is the
   current one); a snapshot maps each provider to NONE / 0 (negative) / version.  Readers take
   two steps, Load and Return, with publications allowed in between.  TORN = TRUE models the
   mutant that loads the pointer twice (u from the first load, m from the second).

   Properties (C07, second and third sentence): every read returns the value some snapshot
   published between its start and its end holds; per reader the snapshot index never goes back. *)
EXTENDS Integers, Sequences, FiniteSets, TLC

CONSTANTS Prov, MaxVer, Readers, MaxPubs, TORN
NONE == -1
VARIABLES pubs,      \* Seq of [m, u]
          rd,        \* [Readers -> [pc, p, lo, snapU, snapM, val, idx]]
          lastIdx    \* [Readers -> index of the snapshot the previous read of this reader was served from]
vars == <<pubs, rd, lastIdx>>

Val(s, p) == IF s.u[p] # NONE THEN s.u[p] ELSE s.m[p]
Maps == [Prov -> NONE..MaxVer]
Empty == [p \in Prov |-> NONE]
IdleR == [pc |-> "idle", p |-> CHOOSE p \in Prov : TRUE, lo |-> 0, iu |-> 0, im |-> 0]

Init == /\ pubs = <<[m |-> Empty, u |-> Empty]>>
        /\ rd = [r \in Readers |-> IdleR] /\ lastIdx = [r \in Readers |-> 1]

(* The writer: either replaces u (m shared with the previous snapshot) or merges into a new m. *)
Cur == pubs[Len(pubs)]
PublishUpdate == /\ Len(pubs) < MaxPubs
                 /\ \E p \in Prov, v \in 0..MaxVer :
                      pubs' = Append(pubs, [m |-> Cur.m, u |-> [Cur.u EXCEPT ![p] = v]])
                 /\ UNCHANGED <<rd, lastIdx>>
PublishMerge == /\ Len(pubs) < MaxPubs
                /\ pubs' = Append(pubs, [m |-> [p \in Prov |-> Val(Cur, p)], u |-> Empty])
                /\ UNCHANGED <<rd, lastIdx>>

Start(r, p) == /\ rd[r].pc = "idle"
               /\ rd' = [rd EXCEPT ![r] = [pc |-> IF TORN THEN "half" ELSE "loaded", p |-> p, lo |-> Len(pubs),
                                           iu |-> Len(pubs), im |-> Len(pubs)]]
               /\ UNCHANGED <<pubs, lastIdx>>
SecondLoad(r) == /\ rd[r].pc = "half"      \* only with TORN: m comes from a later load
                 /\ rd' = [rd EXCEPT ![r].pc = "loaded", ![r].im = Len(pubs)]
                 /\ UNCHANGED <<pubs, lastIdx>>
(* What the call returns: Get(p) is ObservedAt(r, p); List() is the whole vector. *)
ObservedAt(r, p) == LET u == pubs[rd[r].iu].u  m == pubs[rd[r].im].m
                    IN IF u[p] # NONE THEN u[p] ELSE m[p]
Observed(r) == ObservedAt(r, rd[r].p)
Return(r) == /\ rd[r].pc = "loaded"
             /\ rd' = [rd EXCEPT ![r] = IdleR]
             /\ lastIdx' = [lastIdx EXCEPT ![r] = rd[r].iu]
             /\ UNCHANGED pubs

Next == PublishUpdate \/ PublishMerge \/ \E r \in Readers : (\E p \in Prov : Start(r, p)) \/ SecondLoad(r) \/ Return(r)
Spec == Init /\ [][Next]_vars

(* What an observer who only sees call boundaries can require of a read that is about to return. *)
Explained(r, val) == \E k \in rd[r].lo..Len(pubs) : k >= lastIdx[r] /\ Val(pubs[k], rd[r].p) = val
ReadsConsistent == \A r \in Readers : rd[r].pc = "loaded" => Explained(r, Observed(r))
(* List(): the whole vector comes from ONE published snapshot *)
ListExplained(r) == \E k \in rd[r].lo..Len(pubs) : k >= lastIdx[r] /\ \A p \in Prov : Val(pubs[k], p) = ObservedAt(r, p)
ListsConsistent == \A r \in Readers : rd[r].pc = "loaded" => ListExplained(r)
(* a provider present before and after an update is never reported missing *)
NeverSpuriouslyMissing ==
  \A r \in Readers : rd[r].pc = "loaded" =>
     ((\A k \in rd[r].lo..Len(pubs) : Val(pubs[k], rd[r].p) # NONE) => Observed(r) # NONE)
=============================================================================
