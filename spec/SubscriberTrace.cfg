SPECIFICATION Spec
CONSTANT STRICT = TRUE
POSTCONDITION Accepted
CHECK_DEADLOCK FALSE
