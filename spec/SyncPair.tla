------------------------------- MODULE SyncPair -------------------------------
(* C01, "whatever else the subscriber is doing": two syncs of two DIFFERENT publishers run through one Subscriber at the same
   time (syncs of one publisher are serialised -- Subscriber.tla; syncs of different publishers are not).  Each sync is a
   sequence of steps -- the fetch of a block from its publisher (F) and the block hook's call for a block (H):

     unsegmented (seg = 0):   S, F n, F n-1, .. F 1, H n, H n-1, .. H 1      (S: the call is made; the hooks run when the walk is over)
     segments of 1 (seg = 1): S, F n, H n, F n-1, H n-1, .. F 1, H 1

   and the two sequences interleave in every possible way.  What the hooks of a sync are called with is a function of that
   sync's own walk: the blocks of ITS chain, head first -- Independent.  The walk's order list belongs to the walk.

   BUG = "shared-buffer" is the wrong variant TLC refutes: the order list is recycled through the shared sync client and handed
   to the next walk while the previous owner still reads from it.

   Every interleaving is exported and replayed against a real Subscriber and two real Publishers: the harness holds each
   request at the publisher and each hook call until the exported order says it is that sync's turn.                          *)
EXTENDS Integers, Sequences, TLC, VerifIO

CONSTANTS N,        \* length of both chains
          Segs,     \* subset of {0, 1}
          BUG, EXPORT

Procs == {"A", "B"}
Walk(sg) == IF sg = 0
            THEN [k \in 1..2 * N |-> IF k <= N THEN <<"F", N - k + 1>> ELSE <<"H", 2 * N - k + 1>>]
            ELSE [k \in 1..2 * N |-> IF k % 2 = 1 THEN <<"F", N - (k + 1) \div 2 + 1>> ELSE <<"H", N - k \div 2 + 1>>]
Steps(sg) == << <<"S", 0>> >> \o Walk(sg)        \* S: the caller starts the sync (the other may be anywhere in its own by then)
NSteps == 2 * N + 1

VARIABLES seg, pc, trav, buf, rep, order
vars == <<seg, pc, trav, buf, rep, order>>

Init == /\ seg \in Segs /\ pc = [p \in Procs |-> 0] /\ trav = [p \in Procs |-> <<>>] /\ buf = <<>>
        /\ rep = [p \in Procs |-> <<>>] /\ order = <<>>

Step(p) ==
  /\ pc[p] < NSteps
  /\ LET st == Steps(seg)[pc[p] + 1] IN
     /\ pc' = [pc EXCEPT ![p] = @ + 1] /\ order' = Append(order, p) /\ UNCHANGED seg
     /\ IF st[1] = "S"
        THEN UNCHANGED <<trav, buf, rep>>
        ELSE IF st[1] = "F"
        THEN LET fresh == seg = 1 \/ st[2] = N IN          \* a walk (the whole chain, or one segment) starts with an empty order list
             /\ trav' = [trav EXCEPT ![p] = IF fresh THEN << <<p, st[2]>> >> ELSE Append(@, <<p, st[2]>>)]
             /\ buf' = IF BUG = "shared-buffer" THEN (IF fresh THEN << <<p, st[2]>> >> ELSE Append(buf, <<p, st[2]>>)) ELSE buf
             /\ UNCHANGED rep
        ELSE LET idx == IF seg = 1 THEN 1 ELSE N - st[2] + 1
                 src == IF BUG = "shared-buffer" THEN buf ELSE trav[p] IN
             /\ rep' = [rep EXCEPT ![p] = Append(@, IF idx <= Len(src) THEN src[idx] ELSE <<"nobody", 0>>)]
             /\ UNCHANGED <<trav, buf>>

Next == \E p \in Procs : Step(p)
Spec == Init /\ [][Next]_vars

(* C01 for each of the two: its hooks see its own chain, head first, whatever the other sync does in between *)
Independent == \A p \in Procs : \A i \in 1..Len(rep[p]) : rep[p][i] = <<p, N - i + 1>>

Finished == \A p \in Procs : pc[p] = NSteps
ExportBehaviour == (EXPORT /\ Finished) =>
   Emit("c01_pairs.ndjson", [seg |-> seg, n |-> N, order |-> order, rep |-> [p \in Procs |-> [i \in 1..Len(rep[p]) |-> rep[p][i][2]]]])
=============================================================================
