------------------------------ MODULE VerifIO ------------------------------
(* Export helpers shared by every specification: case tables (binding E) and
   behaviours (binding R) are written as ndjson lines into $VERIF_OUT.        *)
EXTENDS TLC, Json, IOUtils, Sequences

OutDir == IOEnv.VERIF_OUT

Emit(file, v) ==
  Serialize(ToJson(v) \o "\n", OutDir \o "/" \o file,
            [format |-> "TXT", charset |-> "UTF-8",
             openOptions |-> <<"WRITE", "CREATE", "APPEND">>]).exitValue = 0
=============================================================================
