SPECIFICATION Spec
CONSTANTS
  Ids = {"m", "x"}
  Mds = {"nil", "empty", "L", "A"}
  Lookups = {"L"}
  MaxLen = 2
  MaxSum = 3
  FIXED = TRUE
  EXPORT = TRUE
INVARIANTS Laws ExportCase
