------------------------- MODULE ReceiverLocksTrace -------------------------
(* Trace validation for announce.Receiver (C16).  The harness runs a real Receiver under the gate
   scheduler: every API call runs in its own goroutine, every yield hook of receiver.go is an event
   recorded while the goroutine is parked (one goroutine runs at a time, so file order is execution
   order), and the harness adds "start" / "ret" events around each call.  Hooks sit after acquiring
   operations (Lock, a received wake-up) and before releasing ones (Unlock, close of a channel,
   cancellation), so each event corresponds to exactly one action of ReceiverLocks.tla, and this
   module replays the trace on that specification: an event whose action is not enabled (a lock taken
   while held, a Close that passes the wait for the watcher before the watcher is done, a result the
   result table does not allow, ...) rejects the trace.  ResultsOK and MutexReleased are checked as
   invariants in every state of the replay.

   Thread t of the specification is call number t of the run (one call per thread).             *)
EXTENDS ReceiverLocks, Json, IOUtils

Trace == ndJsonDeserialize(IOEnv.VERIF_TRACE)
VARIABLE l
tvars == <<vars, l>>

Ev == Trace[l]
Is(e) == l <= Len(Trace) /\ Ev.ev = e /\ l' = l + 1
T == Ev.p                      \* call number; 0 = the watcher goroutine
RetIs(t) == res'[t][Len(res'[t])].r = Ev.r

TInit == Init /\ l = 1
(* a new run: everything back to the initial state *)
TReset == /\ Is("reset")
          /\ pcs' = [t \in Threads |-> "idle"] /\ op' = [t \in Threads |-> "none"] /\ ncalls' = [t \in Threads |-> 0]
          /\ mutex' = 0 /\ closed' = FALSE /\ done' = FALSE /\ out' = 0
          /\ res' = [t \in Threads |-> <<>>] /\ closeCalled' = FALSE /\ closeReturned' = FALSE
          /\ startedAfterClose' = [t \in Threads |-> FALSE] /\ cancelled' = [t \in Threads |-> FALSE]
          /\ wpc' = (IF Watcher THEN "loop" ELSE "none") /\ msgs' = 0 /\ published' = 0 /\ restarts' = 0
          /\ subCancelled' = FALSE /\ watchCancelled' = FALSE /\ watchDone' = FALSE

TStart == Is("start") /\ Start(T, Ev.op)
TLocked == \/ Is("c.locked") /\ Lock(T, "c0", "c1")
           \/ Is("a.locked") /\ T > 0 /\ Lock(T, "d1", "d2")
           \/ Is("u.locked") /\ (Lock(T, "u0", "u1") \/ Lock(T, "ra0", "ra1"))
           \/ Is("a.locked") /\ T = 0 /\ WLock("got", "check")
TClose == \/ Is("c.subcancel") /\ C1(T) /\ pcs'[T] = "c2"
          \/ Is("c.unlock") /\ ((C1(T) /\ pcs'[T] # "c2") \/ C2(T))
          \/ Is("c.predone") /\ C3(T)
          \/ Is("c.precancel") /\ C4(T)
          \/ Is("c.watchdone") /\ C5(T)
TDirect == \/ Is("a.unlock") /\ T > 0 /\ D2(T)
           \/ Is("h.send") /\ T > 0 /\ D3(T)
TUncache == Is("u.unlock") /\ (U1(T) \/ RA1(T))
TRet == /\ Is("ret")
        /\ \/ CRet(T) \/ D0(T) \/ DRet(T) \/ D4(T) \/ N0(T) \/ NGot(T) \/ URet(T)
        /\ RetIs(T)
TWatcher == \/ Is("w.next") /\ (WLoop \/ (WSel /\ wpc' = "next"))
            \/ Is("w.msg") /\ WMsg
            \/ Is("a.unlock") /\ T = 0 /\ WCheck
            \/ Is("h.send") /\ T = 0 /\ WSend
            \/ Is("w.exit") /\ (WNextExit \/ WClosedExit \/ (WSel /\ wpc' = "done"))
TPublish == Is("env.publish") /\ Publish
TCancel == Is("env.cancel") /\ Cancel(T)
TPsStop == Is("env.psstop") /\ PsStop
(* the caller's context was asked for its error (a scheduling point of the harness's context, no step of the receiver) *)
TCtxErr == Is("x.ctxerr") /\ UNCHANGED vars
(* end of a run: a Close has been called, so every call has returned and the watcher has exited *)
TFinal == /\ Is("final") /\ closeCalled
          /\ \A t \in Threads : pcs[t] = "idle"
          /\ wpc \in {"none", "done"}
          /\ mutex = 0
          /\ UNCHANGED vars

TNext == TReset \/ TStart \/ TLocked \/ TClose \/ TDirect \/ TUncache \/ TRet \/ TWatcher \/ TPublish \/ TPsStop \/ TCancel \/ TCtxErr \/ TFinal
TSpec == TInit /\ [][TNext]_tvars

(* the replay branches where the code's next step depends on data (duplicate or not, allowed peer or not): the
   trace is accepted when some branch consumes every event                                                *)
Accepted == TLCGet("stats").diameter - 1 = Len(Trace)
=============================================================================
