----------------------------- MODULE SignedRequest -----------------------------
(* C18 -- signed ingest and register requests (ingest/model) over the symbolic signature model.
   An envelope is [typ, key, pl, sby, sdom, styp, spl]: payload type, embedded key, payload, and
   "signature made by sby over (domain sdom, type styp, payload spl)".  The reader verifies the
   signature for ITS OWN domain, decodes the payload by its type and (FIXED) requires the signer
   to be the provider named inside the payload.  FIXED = FALSE is the pinned ReadIngestRequest,
   which discards the envelope key.

   via = "client": the request is made and posted by the ingest client (IndexContent / Register) to the
   endpoint of its kind, where the server reads it with the reader of that kind -- made = read, unaltered;
   the client reports success exactly when the reader accepted.
   via = "nested": other requests (of both kinds, with other contents) are made between encoding the request's payload and
   sealing it -- a request is a value; making one does not touch another that is under way.             *)
EXTENDS Integers, Sequences, FiniteSets, TLC, VerifIO

CONSTANTS Ids, EXPORT, FIXED
Kinds == {"ingest", "register"}
VARIABLES c, stage
vars == <<c, stage>>

Seal(kind, named, content, k) ==
  LET pl == [named |-> named, content |-> content] IN
  [typ |-> kind, key |-> k, pl |-> pl, sby |-> k, sdom |-> kind, styp |-> kind, spl |-> pl]
OtherOf(S, x) == CHOOSE y \in S : y # x

Alts == {"none", "payload-content", "payload-named", "key", "sig", "type", "sealed-as-foreign-type",
         "named-alias"}     \* made and sealed by the key, naming ANOTHER peer ID that carries the same key (the other multihash form of it)
Cases == {x \in [made : Kinds, read : Kinds, named : Ids, key : Ids, alt : Alts, via : {"direct", "client", "nested"}] :
            /\ x.via = "client" => (x.alt = "none" /\ x.made = x.read)
            /\ x.via = "nested" => x.alt = "none"}

Altered(x) ==
  LET e == Seal(x.made, x.named, "c1", x.key) o == OtherOf(Ids, x.key) IN
  CASE x.alt = "none" -> e
    [] x.alt = "payload-content" -> [e EXCEPT !.pl.content = "c2"]
    (* identities are peer IDs, not keys: the ID the signer's key hashes to is the only one it may name *)
    [] x.alt = "named-alias" -> Seal(x.made, "alias-of-" \o x.key, "c1", x.key)
    [] x.alt = "payload-named" -> [e EXCEPT !.pl.named = OtherOf(Ids, x.named)]
    [] x.alt = "key" -> [e EXCEPT !.key = o]
    [] x.alt = "sig" -> [e EXCEPT !.sby = o]
    [] x.alt = "type" -> [e EXCEPT !.typ = OtherOf(Kinds, x.made)]
    (* validly sealed by the same key for the same domain, but declared as a payload type that is not the request's *)
    [] x.alt = "sealed-as-foreign-type" -> [e EXCEPT !.typ = "foreign", !.styp = "foreign"]

No == [ok |-> FALSE, named |-> "", content |-> ""]
Read(kind, e) ==
  IF ~(e.sby = e.key /\ e.sdom = kind /\ e.styp = e.typ /\ e.spl = e.pl) THEN No          \* ConsumeEnvelope for the reader's domain
  ELSE IF e.typ # kind THEN No                                                           \* payload decodes to the other record type
  ELSE IF (FIXED \/ kind = "register") /\ e.key # e.pl.named THEN No                      \* signer must be the provider named
  ELSE [ok |-> TRUE, named |-> e.pl.named, content |-> e.pl.content]

Out(x) == IF x.alt = "none" /\ x.made = x.read /\ x.key = x.named
          THEN [ok |-> TRUE, named |-> x.named, content |-> "c1"] ELSE No

Init == c \in Cases /\ stage = 0
Next == UNCHANGED vars
Spec == Init /\ [][Next]_vars
Agree == Read(c.read, Altered(c)) = Out(c)
ExportCase == EXPORT => Emit("c18_cases.ndjson", [case |-> c, out |-> Out(c)])
=============================================================================
