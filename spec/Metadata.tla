------------------------------- MODULE Metadata -------------------------------
(* C11 -- transport metadata (metadata.Metadata): frame grammar, canonical encoding, decode loop.

   A frame is one transport protocol on the wire.  Protocols: "B" bitswap (code only), "H" HTTP
   gateway (code + payload length 0), "G" graphsync-filecoin (code + opaque canonical payload),
   "U1".."U3" unknown codes with payloads of length 0 / 2 / 4 (code, length prefix, payload).
   The wire is a sequence of byte tokens [f, j]: byte j of the f-th frame written, so a decoder
   that starts reading in the middle of a frame sees garbage.  Codes order: B < G < H < U1 < U2 < U3.

     Encode(ps)   concatenation of the frames in ascending code order (stable)
     DecodeLoop   transcription of UnmarshalBinary's loop with its offsets:
                    MODE = "fixed"     advance by the length of the frame just read
                    MODE = "pinned"    the original arithmetic: cumulative count used both to re-slice
                                       the already re-sliced data and in the loop condition
     Validate     at least one frame, codes non-decreasing (CHECKSORT = FALSE: the pinned Validate,
                  which never advances lastID)

   Laws: Decode(Encode(ps)) = Sort(ps) for every sequence of 1..MaxFrames protocols in every
   construction order; every protocol retrievable by its code; Decode(w) = Ok(ps) => Encode(ps) = w
   for every crafted wire (unsorted concatenations, truncations at every byte, frames whose length
   prefix exceeds what follows).                                                                  *)
EXTENDS Integers, Sequences, FiniteSets, TLC, VerifIO

CONSTANTS Protos, MaxFrames, MODE, CHECKSORT, EXPORT

(* "Hx": a crafted frame -- the HTTP gateway's code followed by a payload length of 2 and two payload bytes.  The gateway
   frame is code + length 0 and nothing else: no such frame is ever written, and the decoder must not take it for "H"
   (it would re-encode as the 3-byte frame, which is not what was consumed).
   "U1x".."U3x": an unknown frame whose length prefix is written with padding bytes (a non-minimal varint).  Varints are read
   strictly; a decoder that accepted the padded form would re-encode the frame shorter than what it consumed.            *)
Crafted(p) == CASE p = "H" -> "Hx" [] p = "U1" -> "U1x" [] p = "U2" -> "U2x" [] p = "U3" -> "U3x" [] OTHER -> p
IsCrafted(p) == p \in {"Hx", "U1x", "U2x", "U3x"}
Code(p) == CASE p = "B" -> 1 [] p = "G" -> 2 [] p \in {"H", "Hx"} -> 3 [] p \in {"U1", "U1x"} -> 4 [] p \in {"U2", "U2x"} -> 5 [] OTHER -> 6
Size(p) == CASE p = "B" -> 2 [] p = "G" -> 5 [] p = "H" -> 3 [] p = "Hx" -> 5 [] p = "U1x" -> 6 [] p = "U2x" -> 8 [] p = "U3x" -> 10 [] p = "U1" -> 4 [] p = "U2" -> 6 [] OTHER -> 8

RECURSIVE Insert(_, _)
Insert(s, p) == IF s = <<>> THEN <<p>>
                ELSE IF Code(p) < Code(s[1]) THEN <<p>> \o s ELSE <<s[1]>> \o Insert(Tail(s), p)
RECURSIVE Sort(_)
Sort(s) == IF s = <<>> THEN <<>> ELSE Insert(Sort(SubSeq(s, 1, Len(s) - 1)), s[Len(s)])   \* stable for equal codes

FrameBytes(p, f) == [j \in 1..Size(p) |-> [p |-> p, f |-> f, j |-> j]]
RECURSIVE Concat(_, _)
Concat(ps, k) == IF k > Len(ps) THEN <<>> ELSE FrameBytes(ps[k], k) \o Concat(ps, k + 1)
Wire(ps) == Concat(ps, 1)            \* frames in the given order (no sorting): the raw concatenation
Encode(ps) == Wire(Sort(ps))

(* reading one frame at the start of data: whole frame present and we are at its first byte *)
ReadFrame(data) ==
  IF data = <<>> \/ data[1].j # 1 THEN [ok |-> FALSE, p |-> "", n |-> 0]
  ELSE LET p == data[1].p IN
       IF ~IsCrafted(p) /\ Len(data) >= Size(p) /\ \A j \in 1..Size(p) : data[j].p = p /\ data[j].f = data[1].f /\ data[j].j = j
       THEN [ok |-> TRUE, p |-> p, n |-> Size(p)] ELSE [ok |-> FALSE, p |-> "", n |-> 0]

Drop(s, n) == IF n >= Len(s) THEN <<>> ELSE SubSeq(s, n + 1, Len(s))
RECURSIVE LoopFixed(_, _)
LoopFixed(data, acc) == IF data = <<>> THEN [ok |-> TRUE, ps |-> acc]
                        ELSE LET r == ReadFrame(data) IN IF ~r.ok THEN [ok |-> FALSE, ps |-> <<>>] ELSE LoopFixed(Drop(data, r.n), Append(acc, r.p))
RECURSIVE LoopPinned(_, _, _)
LoopPinned(data, read, acc) ==       \* for read < len(data) { data = data[read:]; ...; read += tLen }
  IF ~(read < Len(data)) THEN [ok |-> TRUE, ps |-> acc]
  ELSE LET d == Drop(data, read) r == ReadFrame(d) IN
       IF ~r.ok THEN [ok |-> FALSE, ps |-> <<>>] ELSE LoopPinned(d, read + r.n, Append(acc, r.p))
Sorted(ps) == \A i \in 1..(Len(ps) - 1) : Code(ps[i]) <= Code(ps[i + 1])
Decode(w) == LET l == IF MODE = "fixed" THEN LoopFixed(w, <<>>) ELSE LoopPinned(w, 0, <<>>) IN
             IF ~l.ok THEN l
             ELSE IF Len(l.ps) = 0 \/ (CHECKSORT /\ ~Sorted(l.ps)) THEN [ok |-> FALSE, ps |-> <<>>] ELSE l

(* ---- cases ---- *)
VARIABLES ps, kind, cut, stage
vars == <<ps, kind, cut, stage>>
Seqs == UNION {[1..n -> Protos] : n \in 1..MaxFrames}
Init == ps \in Seqs /\ kind = "roundtrip" /\ cut = 0 /\ stage = 0
Pick == /\ stage = 0 /\ stage' = 1 /\ UNCHANGED ps
        /\ \/ kind' = "roundtrip" /\ cut' = 0
           \/ kind' = "raw" /\ cut' = 0                                   \* frames concatenated in construction order
           \/ kind' = "truncated" /\ cut' \in 0..(Len(Encode(ps)) - 1)      \* canonical encoding cut after `cut` bytes
           \/ kind' = "crafted" /\ Sorted(ps) /\ cut' \in {k \in 1..Len(ps) : Crafted(ps[k]) # ps[k]}   \* frame `cut` replaced by its crafted variant
Next == Pick
Spec == Init /\ [][Next]_vars
Complete == stage = 1

Input == CASE kind = "roundtrip" -> Encode(ps) [] kind = "raw" -> Wire(ps) [] kind = "crafted" -> Wire([ps EXCEPT ![cut] = Crafted(ps[cut])]) [] OTHER -> SubSeq(Encode(ps), 1, cut)
Result == Decode(Input)
(* declarative expectation *)
Prefixes(w) == {k \in 0..Len(w) : k = 0 \/ w[k].j = Size(w[k].p)}            \* frame boundaries
Expected == CASE kind = "roundtrip" -> [ok |-> TRUE, ps |-> Sort(ps)]
              [] kind = "raw" -> IF Sorted(ps) THEN [ok |-> TRUE, ps |-> ps] ELSE [ok |-> FALSE, ps |-> <<>>]
              [] kind = "crafted" -> [ok |-> FALSE, ps |-> <<>>]
              [] OTHER -> IF cut > 0 /\ cut \in Prefixes(Encode(ps)) THEN [ok |-> TRUE, ps |-> Decode(SubSeq(Encode(ps), 1, cut)).ps]
                          ELSE [ok |-> FALSE, ps |-> <<>>]

RoundTrips == (Complete /\ kind = "roundtrip") => Result = [ok |-> TRUE, ps |-> Sort(ps)]
EveryProtocolRetrievable == (Complete /\ kind = "roundtrip" /\ Result.ok) => \A i \in 1..Len(ps) : \E k \in 1..Len(Result.ps) : Result.ps[k] = ps[i]
Canonical == (Complete /\ Result.ok) => Encode(Result.ps) = Input      \* accepted input re-encodes to the bytes consumed
CraftedRejected == (Complete /\ kind = "crafted") => ~Result.ok
AgreesWithExpected == Complete => Result.ok = Expected.ok
ExportCase == (Complete /\ EXPORT) => Emit("c11_cases.ndjson", [ps |-> ps, kind |-> kind, cut |-> cut, ok |-> Expected.ok,
                                                                 out |-> IF Expected.ok THEN Expected.ps ELSE <<>>])
=============================================================================
