------------------------------ MODULE Receiver ------------------------------
(* announce.Receiver at call granularity (C09, and the call-level part of C16).

   State: the duplicate filter `lru` (most recent first, capacity K), the capacity-1 out
   channel, the closed flag, and the calls that are blocked: at most one Direct blocked on a
   full out channel (`bsend`) and at most one Next blocked on an empty one (`brecv`) -- Go does
   not say which of several blocked senders is woken, so the harness could not steer more.
   A step is one API call; wake-ups it causes happen in the same step (a blocked sender
   refills the channel the moment a consumer takes the item).  Every step records the calls
   that return in this step with their results; the harness starts the call and waits for
   exactly those returns.

   The order of checks is the one of announceCheck: allow filter -> closed -> duplicate filter.

   PubKinds # {} adds announcements that arrive over pubsub and are handled by the watcher goroutine
   (one step = the watcher handles one message; a watcher blocked on the full out channel takes the
   place of the one blocked sender): "plain" (sent by the publisher itself), "relayed" (re-published by
   another host with the original publisher in the message: attributed to the original publisher, whose
   ID the allow filter sees), "self" (a re-publication by this very host: ignored before any filter).   *)
(* Re-publication (WithResend) is a side effect of delivering a direct announcement, never a condition of it: the harness also
   runs a receiver whose topic refuses every re-publication -- the announcement is delivered all the same, once.             *)
EXTENDS Integers, Sequences, FiniteSets, TLC, VerifIO

CONSTANTS Cids, Peers, Allowed, AddrClasses, K, MaxOps, MaxCloses, EXPORT, FIXED, PubKinds
VARIABLES lru, out, closed, leaked, bsend, brecv, ops, closes, h,
          bwatch,               \* the blocked sender is the watcher (no API call returns when it is released)
          sinceG, keptG, remG   \* ghosts for the declarative reading of the duplicate rule
vars == <<lru, out, closed, leaked, bsend, brecv, ops, closes, h, bwatch, sinceG, keptG, remG>>
view == <<lru, out, closed, leaked, bsend, brecv, ops, closes, bwatch, sinceG, keptG, remG>>

NoMsg == [cid |-> "", peer |-> "", addrs |-> ""]
(* address filtering (WithFilterIPs): what is left of an address-list class after FilterPublic *)
Filter(a) == CASE a = "pub+priv" -> "pub" [] a = "priv" -> "none" [] a = "loop+pub" -> "pub" [] OTHER -> a
Msg(c, p, a) == [cid |-> c, peer |-> p, addrs |-> Filter(a)]
Show(m) == "msg:" \o m.cid \o ":" \o m.peer \o ":" \o m.addrs
Init == /\ lru = <<>> /\ out = <<>> /\ closed = FALSE /\ leaked = FALSE
        /\ bsend = NoMsg /\ brecv = FALSE /\ ops = 0 /\ closes = 0 /\ h = <<>> /\ bwatch = FALSE
        /\ sinceG = [c \in Cids |-> {}] /\ keptG = [c \in Cids |-> {}] /\ remG = [c \in Cids |-> FALSE]

Has(c) == \E i \in 1..Len(lru) : lru[i] = c
Without(s, c) == SelectSeq(s, LAMBDA x : x # c)
(* stringLRU.update: hit -> move to front, TRUE; miss -> evict the back when full, push front, FALSE *)
Update(c) == IF Has(c) THEN <<c>> \o Without(lru, c)
             ELSE <<c>> \o (IF Len(lru) = K THEN SubSeq(lru, 1, K - 1) ELSE lru)

(* result codes: "ok" (nil), "closed" (ErrClosed), "msg:<cid>:<peer>" for Next *)
Ret(t, r) == [t |-> t, r |-> r]
RecLA(op, c, p, a, rets, exp, nl) == h' = Append(h, [op |-> op, cid |-> c, peer |-> p, addrs |-> a, rets |-> rets, exp |-> exp, lru |-> nl])
RecL(op, c, p, rets, exp, nl) == RecLA(op, c, p, "", rets, exp, nl)
Rec(op, c, p, rets, exp) == RecL(op, c, p, rets, exp, lru)

Budget == ops < MaxOps /\ ops' = ops + 1

(* ---- the declarative side of the duplicate rule (see DESIGN.md, C09) ----
   remG[c]   : c has been seen (allowed announcement) and not un-cached since;
   sinceG[c] : CIDs other than c seen since c's last sighting (fewer than K => c is certainly still filtered);
   keptG[c]  : those of them that were not un-cached afterwards (K or more => c was certainly evicted).
   Between the two bounds un-cache operations on other CIDs decide, and the property's wording
   ("the 64 most recently seen CIDs that have not been un-cached") leaves the outcome open.          *)
MustDrop(c) == remG[c] /\ Cardinality(sinceG[c]) < K
MustDeliver(c) == ~remG[c] \/ Cardinality(keptG[c]) >= K
Bump(f, c) == [d \in Cids |-> IF d = c THEN {} ELSE IF remG[d] THEN f[d] \cup {c} ELSE f[d]]
Sight(c) == /\ remG' = [remG EXCEPT ![c] = TRUE]
            /\ sinceG' = Bump(sinceG, c) /\ keptG' = Bump(keptG, c)
Forget(c) == /\ remG' = [remG EXCEPT ![c] = FALSE]
             /\ keptG' = [d \in Cids |-> keptG[d] \ {c}] /\ UNCHANGED sinceG

(* Direct(cid, peer): thread id = number of the op *)
Direct(c, p, a) ==
  /\ Budget /\ (~leaked \/ p \notin Allowed)
  /\ IF p \notin Allowed
     THEN /\ RecLA("direct", c, p, a, <<Ret("self", "ok")>>, "filtered", lru)
          /\ UNCHANGED <<lru, out, closed, leaked, bsend, brecv, closes, bwatch, sinceG, keptG, remG>>
     ELSE IF closed
     THEN /\ RecLA("direct", c, p, a, <<Ret("self", "closed")>>, "closed", lru)
          /\ UNCHANGED <<lru, out, closed, leaked, bsend, brecv, closes, bwatch, sinceG, keptG, remG>>
     ELSE IF Has(c)
     THEN /\ lru' = Update(c) /\ Sight(c)
          /\ RecLA("direct", c, p, a, <<Ret("self", "ok")>>, IF MustDrop(c) THEN "drop" ELSE "either", Update(c))
          /\ UNCHANGED <<out, closed, leaked, bsend, brecv, closes, bwatch>>
     ELSE /\ lru' = Update(c) /\ Sight(c)
          /\ LET exp == IF MustDeliver(c) THEN "deliver" ELSE "either" IN
             IF brecv                      \* a consumer is waiting: hand the message over, both return
             THEN /\ brecv' = FALSE /\ UNCHANGED <<out, bsend>>
                  /\ RecLA("direct", c, p, a, <<Ret("self", "ok"), Ret("next", Show(Msg(c, p, a)))>>, exp, Update(c))
             ELSE IF out = <<>>
             THEN /\ out' = <<Msg(c, p, a)>> /\ UNCHANGED <<bsend, brecv>>
                  /\ RecLA("direct", c, p, a, <<Ret("self", "ok")>>, exp, Update(c))
             ELSE /\ bsend = NoMsg          \* channel full: this Direct blocks (at most one)
                  /\ bsend' = Msg(c, p, a) /\ UNCHANGED <<out, brecv>>
                  /\ RecLA("direct", c, p, a, <<>>, exp, Update(c))
          /\ UNCHANGED <<closed, leaked, closes, bwatch>>

(* an announcement arriving over pubsub, handled by the watcher; the history records what the harness must publish *)
Pubsub(c, p, a, kind) ==
  /\ Budget /\ ~leaked /\ ~(bsend # NoMsg /\ bwatch)           \* the watcher is not stuck on the out channel
  /\ IF kind = "self" \/ p \notin Allowed \/ closed            \* own re-publication / refused source / closed: no effect
     THEN /\ RecLA("pubsub-" \o kind, c, p, a, <<>>, IF closed THEN "closed" ELSE IF kind = "self" THEN "ignored" ELSE "filtered", lru)
          /\ UNCHANGED <<lru, out, closed, leaked, bsend, brecv, closes, bwatch, sinceG, keptG, remG>>
     ELSE IF Has(c)
     THEN /\ lru' = Update(c) /\ Sight(c)
          /\ RecLA("pubsub-" \o kind, c, p, a, <<>>, IF MustDrop(c) THEN "drop" ELSE "either", Update(c))
          /\ UNCHANGED <<out, closed, leaked, bsend, brecv, closes, bwatch>>
     ELSE /\ lru' = Update(c) /\ Sight(c)
          /\ LET exp == IF MustDeliver(c) THEN "deliver" ELSE "either" IN
             IF brecv
             THEN /\ brecv' = FALSE /\ UNCHANGED <<out, bsend, bwatch>>
                  /\ RecLA("pubsub-" \o kind, c, p, a, <<Ret("next", Show(Msg(c, p, a)))>>, exp, Update(c))
             ELSE IF out = <<>>
             THEN /\ out' = <<Msg(c, p, a)>> /\ UNCHANGED <<bsend, brecv, bwatch>>
                  /\ RecLA("pubsub-" \o kind, c, p, a, <<>>, exp, Update(c))
             ELSE /\ bsend = NoMsg          \* channel full: the watcher blocks
                  /\ bsend' = Msg(c, p, a) /\ bwatch' = TRUE /\ UNCHANGED <<out, brecv>>
                  /\ RecLA("pubsub-" \o kind, c, p, a, <<>>, exp \o "+blocks", Update(c))
          /\ UNCHANGED <<closed, leaked, closes>>

Next ==
  /\ Budget /\ ~brecv
  /\ IF out # <<>> /\ ~closed
     THEN /\ Rec("next", "", "", IF bsend # NoMsg /\ ~bwatch
                                 THEN <<Ret("self", Show(out[1])), Ret("send", "ok")>>
                                 ELSE <<Ret("self", Show(out[1]))>>, "")
          /\ out' = IF bsend # NoMsg THEN <<bsend>> ELSE <<>>
          /\ bsend' = NoMsg /\ bwatch' = FALSE /\ UNCHANGED brecv
     ELSE IF closed
     THEN (* done is closed; if an item is still queued Go's select may take either arm *)
          /\ Rec("next", "", "", <<Ret("self", IF out # <<>> THEN "closed-or-msg" ELSE "closed")>>, "")
          /\ out' = <<>> /\ UNCHANGED <<bsend, brecv, bwatch>>
     ELSE /\ brecv' = TRUE /\ Rec("next", "", "", <<>>, "") /\ UNCHANGED <<out, bsend, bwatch>>
  /\ UNCHANGED <<lru, closed, leaked, closes, sinceG, keptG, remG>>

Uncache(c) ==
  /\ Budget /\ ~leaked
  /\ lru' = Without(lru, c) /\ Forget(c)
  /\ RecL("uncache", c, "", <<Ret("self", "ok")>>, "", Without(lru, c))
  /\ UNCHANGED <<out, closed, leaked, bsend, brecv, closes, bwatch>>

(* Close: the first one wakes everybody; a later one returns nil.  FIXED = FALSE: the early
   return of a repeated Close keeps the mutex (leaked), so every later call that needs it hangs. *)
Close ==
  /\ Budget /\ closes < MaxCloses /\ closes' = closes + 1 /\ ~leaked
  /\ IF closed
     THEN /\ leaked' = ~FIXED
          /\ Rec("close", "", "", <<Ret("self", "ok")>>, "")
          /\ UNCHANGED <<closed, bsend, brecv, bwatch>>
     ELSE /\ closed' = TRUE /\ UNCHANGED leaked
          /\ Rec("close", "", "", <<Ret("self", "ok")>> \o (IF bsend # NoMsg /\ ~bwatch THEN <<Ret("send", "closed")>> ELSE <<>>)
                                   \o (IF brecv THEN <<Ret("next", "closed")>> ELSE <<>>), "")
          /\ bsend' = NoMsg /\ brecv' = FALSE /\ bwatch' = FALSE
  /\ UNCHANGED <<lru, out, sinceG, keptG, remG>>

NextStep == \/ \E c \in Cids, p \in Peers, a \in AddrClasses : Direct(c, p, a)
            \/ \E c \in Cids, p \in Peers, a \in AddrClasses, k \in PubKinds : Pubsub(c, p, a, k)
            \/ Next \/ Close \/ \E c \in Cids : Uncache(c)
Spec == Init /\ [][NextStep]_vars

---------------------------------------------------------------------------
TypeOK == Len(lru) <= K /\ Len(out) <= 1 /\ \A i, j \in 1..Len(lru) : i # j => lru[i] # lru[j]
(* the operational LRU never contradicts the declarative reading *)
DropSound == \A c \in Cids : Has(c) => remG[c]                       \* dropped as duplicate only if remembered
WindowComplete == \A c \in Cids : MustDrop(c) => Has(c)               \* within the K-window: certainly still filtered
EvictComplete == \A c \in Cids : (remG[c] /\ Cardinality(keptG[c]) >= K) => ~Has(c)   \* K kept newer CIDs: certainly evicted
(* nothing the receiver can be asked to do hangs unless a call is legitimately blocked on the channel *)
NoLeak == ~leaked
Terminal == ops = MaxOps
ExportBehaviour == (EXPORT /\ Terminal) => Emit("c09_behaviours.ndjson", [k |-> K, steps |-> h])
=============================================================================
