------------------------------ MODULE SyncFaults ------------------------------
(* C02 and C04 -- syncs of one publisher's chain under a fault plan, followed by a clean retry.

   A run is F faulty syncs (each with ONE fault at a chosen request index) and then one sync with
   no fault.  A sync is either explicit (SyncAdChain, head queried: request 1 is the head query)
   or announce-triggered (the announcement names the head; all requests are block requests), and
   either unsegmented or segmented with segment size Seg.  The chain is 1..N (N = head); blocks are
   fetched newest to oldest down to the latest-synced one, skipping blocks already stored.

   Fault kinds at a request (response classes of C02 first, then the transport faults of C04):
     bitflip, truncated, appended, other (another valid block of the chain), empty, oversized
                -- a body whose digest differs from the requested CID's
     s400, s500, s403, s404                    -- error status
     reset, stall, cancel                      -- connection reset, no answer within the client's
                                                  timeout, caller's context cancelled
     hookfail                                  -- the block hook calls FailSync (segmented syncs)
     hookcancel                                -- the block hook cancels the caller's context (segmented explicit syncs): the
                                                  segment at hand completes, the next request fails

   What the code does on a fault (fetch / fetchBlock / handle / asyncSyncAdChain): the sync ends
   with an error; nothing is committed for the failing request; blocks verified earlier stay;
   hooks were called only for completed segments; latest-synced is untouched; an explicit sync
   emits nothing, an announce-triggered one emits one error notification and un-caches the CID.
   A fault may be followed by a second one at the very next request (k2): it matters when the first does not end the sync
   at once (a hook failure, a fail-over) or when the client itself repeats the request (the retry without the IPNI path
   after a 404 / 403 from a plain-HTTP publisher) -- whatever happens to that retry, the sync fails and nothing is latched.

   A publisher given with two addresses (cfg.addrs = 2, plain HTTP): a request that fails at transport level
   (connection reset, no answer within the timeout) is repeated on the next address, and the rest of the sync
   stays there -- and so do the later syncs, for as long as the subscriber keeps that publisher's sync client; the faults of
   the plan sit on the first address.

   A legacy publisher (cfg.mode = "legacy"): a request under the IPNI path is answered 404 by the publisher itself and
   repeated by the client without the IPNI path (the probe); when THAT request is answered 200 the publisher's sync client keeps
   to path-less URLs from then on (Probes, below).  The fault plan counts the requests that reach the publisher's
   content (the repeated one, not the probe): whatever the plan does to it, the outcome is that of the same fault against a
   publisher of today -- in particular a body that does not hash to the CID asked for is refused on this way too.

   A second announcement (cfg.pend): while the request the plan faults is being answered, the same publisher announces another
   head -- one it does not have (Off), so that the sync waiting behind the failing one fails as well, with an error notification of
   its own, and changes nothing.  The failing sync must still un-cache ITS head: the clean announcement of it afterwards is acted on.

   A depth limit (cfg.depth > 0, the subscriber's AdsDepthLimit): the walk covers the head and the depth - 1 blocks before it,
   and a segmented sync then ends with the segment that uses the limit up -- whose hooks count like any other's.

   FIXED = FALSE additionally models the pinned Syncer.fetch: in plain-HTTP mode a 404/403
   latches noPath, and every later request of that Syncer goes to the path-less URL (and fails
   against a publisher mounted under /ipni/v1/ad).                                             *)
EXTENDS Integers, Sequences, FiniteSets, TLC, VerifIO

CONSTANTS N, Segs, Kinds, MaxFaulty, FIXED, EXPORT,
          PairKinds,    \* kinds of a second fault at the very next request of the same sync ({}: single faults only)
          MaxAddrs,     \* 1, or 2: the publisher may be given with a second address (plain HTTP) the client can fail over to
          Depths,       \* depth limits of the subscriber (0: none)
          Pends         \* {FALSE}, or {FALSE, TRUE}: while the faulty request is being answered, another head of the same publisher is announced
Modes == {"plain", "libp2p",
          "legacy"}     \* a plain-HTTP publisher of the time before the IPNI path: it serves /head and /<cid> and answers 404 under /ipni/v1/ad
Triggers == {"explicit", "announce"}
BodyKinds == {"bitflip", "truncated", "appended", "other", "empty", "oversized"}

VARIABLES cfg,        \* [mode, trigger, seg, faults: Seq of [at, kind]]
          phase,      \* index of the sync being run (Len(faults) + 1 = the clean one)
          pc, b, req, segblocks, segleft,
          over,       \* the publisher's sync client has given up the first address and uses the second
          ctxdead,    \* the caller's context was cancelled by a block hook of this sync
          store,      \* set of [cid, body]
          latest, cached, noPath,
          rep,        \* blocks reported by hooks in the current sync
          log         \* one record per finished sync: what the harness can observe
vars == <<cfg, phase, pc, b, req, segblocks, segleft, over, ctxdead, store, latest, cached, noPath, rep, log>>

Faults == [at : 0..(N + 1), kind : Kinds, k2 : PairKinds \cup {"none"}]      \* k2: what happens to request at + 1
(* at = 0: the discovery requests that precede a publisher's first sync when it is reached through libp2p-HTTP discovery
   (/.well-known/libp2p/...).  Whatever happens to them, the client falls back to plain HTTP and the sync goes ahead.     *)
DiscoveryKinds == {"reset", "s500", "s404"}
Configs == {[mode |-> m, trigger |-> t, seg |-> s, addrs |-> a, depth |-> d, pend |-> q, faults |-> f] :
              m \in Modes, t \in Triggers, s \in Segs, a \in 1..MaxAddrs, d \in Depths, q \in Pends, f \in UNION {[1..k -> Faults] : k \in 1..MaxFaulty}}
FailOverKinds == {"reset", "stall"}      \* the request itself fails (no response): the client moves on to the next address
Applicable(c) == /\ (c.addrs = 2 => c.mode = "plain")
                 /\ (c.pend => (c.trigger = "announce" /\ c.addrs = 1 /\ c.depth = 0 /\ c.mode # "legacy"
                                 /\ \A i \in 1..Len(c.faults) : c.faults[i].at >= 1 /\ c.faults[i].k2 = "none" /\ c.faults[i].kind \notin {"hookfail", "hookcancel", "cancel"}))
                 /\ (c.mode = "legacy" => (c.addrs = 1 /\ c.depth = 0 /\ \A i \in 1..Len(c.faults) : c.faults[i].k2 = "none"))
                 /\ (c.depth > 0 => (c.seg > 0 /\ c.addrs = 1 /\ \A i \in 1..Len(c.faults) : c.faults[i].k2 = "none"))   \* depth limits: segmented syncs, single faults
                 /\ \A i \in 1..Len(c.faults) : c.faults[i].at = 0 => (c.mode = "libp2p" /\ c.faults[i].kind \in DiscoveryKinds /\ c.faults[i].k2 = "none")
                 /\ \A i \in 1..Len(c.faults) :
                   /\ (c.faults[i].k2 = "hookfail" => c.seg > 0) /\ (c.faults[i].k2 = "cancel" => c.trigger = "explicit")
                   \* a reset connection may be retried by the transport itself, which would consume the next request slot: resets do not pair
                   /\ (c.faults[i].kind = "reset" => c.faults[i].k2 = "none") /\ c.faults[i].k2 # "reset"
                   /\ (c.faults[i].kind = "hookfail" => c.seg > 0)
                   /\ (c.faults[i].kind = "hookcancel" => c.seg > 0 /\ c.trigger = "explicit" /\ c.faults[i].at > 1 /\ c.faults[i].k2 = "none")
                   /\ c.faults[i].k2 # "hookcancel"
                   /\ (c.faults[i].kind = "cancel" => c.trigger = "explicit")       \* announce-triggered syncs do not run under the caller's context
                   /\ (c.faults[i].kind \in BodyKinds \cup {"hookfail"} => ~(c.trigger = "explicit" /\ c.faults[i].at = 1))  \* request 1 is the head query

Init == /\ cfg \in {c \in Configs : Applicable(c)}
        /\ phase = 1 /\ pc = "start" /\ b = 0 /\ req = 0 /\ segblocks = <<>> /\ segleft = 0 /\ over = FALSE /\ ctxdead = FALSE
        /\ store = {} /\ latest = 0 /\ cached = FALSE /\ noPath = FALSE /\ rep = <<>> /\ log = <<>>

Off == N + 1      \* a CID the publisher does not have
Clean == phase > Len(cfg.faults)
Within(x) == cfg.depth = 0 \/ N - x < cfg.depth          \* block x is within the depth limit counted from the head
FaultAt(r) == IF Clean \/ over THEN "ok"
              ELSE IF cfg.faults[phase].at = r THEN cfg.faults[phase].kind
              ELSE IF cfg.faults[phase].at + 1 = r /\ cfg.faults[phase].k2 # "none" THEN cfg.faults[phase].k2
              ELSE "ok"
FailsOver(k) == cfg.addrs = 2 /\ ~noPath /\ k \in FailOverKinds
Has(c) == \E e \in store : e.cid = c
StoredCids == {e.cid : e \in store}

(* Finishing a sync: record what is observable and move to the next sync. *)
Obs(result, evs) == [result |-> result, reported |-> rep, stored |-> StoredCids, latest |-> latest', events |-> evs, noPath |-> noPath']
(* The subscriber keeps a publisher's sync client while the publisher's addresses are unchanged, and the client does not go back
   to an address it has given up: `over` outlives the sync.  A request that fails at transport level because the caller's
   context was cancelled gives the first address up as well (the repeat on the second address fails on the same context).     *)
EndSyncO(result, evs, ov) ==
  /\ log' = Append(log, Obs(result, evs))
  /\ phase' = phase + 1 /\ pc' = IF phase + 1 > Len(cfg.faults) + 1 THEN "done" ELSE "start"
  /\ b' = 0 /\ req' = 0 /\ segblocks' = <<>> /\ segleft' = 0 /\ rep' = <<>> /\ over' = ov /\ ctxdead' = FALSE
EndSync(result, evs) == EndSyncO(result, evs, over)
Burns(k) == cfg.addrs = 2 /\ ~noPath /\ ~over /\ k = "cancel"

Fail(k) ==    \* the sync ends with an error
  /\ noPath' = (noPath \/ (~FIXED /\ cfg.mode = "plain" /\ k \in {"s404", "s403"}))
  /\ UNCHANGED <<latest, store>>
  /\ IF cfg.trigger = "announce"
     THEN /\ cached' = FALSE        \* the failed head may be announced again -- also when another announcement is waiting behind it
          /\ EndSyncO("error", IF cfg.pend THEN <<[cid |-> N, err |-> TRUE, count |-> 0], [cid |-> Off, err |-> TRUE, count |-> 0]>>
                                           ELSE <<[cid |-> N, err |-> TRUE, count |-> 0]>>, over \/ Burns(k))
     ELSE UNCHANGED cached /\ EndSyncO("error", <<>>, over \/ Burns(k))

Start ==
  /\ pc = "start"
  /\ IF cfg.trigger = "announce" /\ cached
     THEN (* the receiver drops an announcement for a CID it still holds: nothing happens *)
          /\ UNCHANGED <<latest, store, cached, noPath>> /\ EndSync("dropped", <<>>)
     ELSE IF latest = N /\ cfg.trigger = "announce"
     THEN /\ cached' = TRUE /\ UNCHANGED <<latest, store, noPath>> /\ EndSync("nothing", <<>>)
     ELSE /\ cached' = (cached \/ cfg.trigger = "announce")
          /\ IF cfg.trigger = "explicit"
             THEN (* request 1: the head query *)
                  IF noPath \/ (FaultAt(1) # "ok" /\ ~FailsOver(FaultAt(1)))
                  THEN /\ noPath' = (noPath \/ (~FIXED /\ cfg.mode = "plain" /\ FaultAt(1) \in {"s404", "s403"}))
                       /\ UNCHANGED <<latest, store>> /\ EndSyncO("error", <<>>, over \/ Burns(FaultAt(1)))
                  ELSE IF latest = N
                  THEN UNCHANGED <<latest, store, noPath>> /\ EndSyncO("ok", <<>>, over \/ FailsOver(FaultAt(1)))      \* head = latest: nothing to do
                  ELSE /\ req' = 1 /\ b' = N /\ pc' = "fetch" /\ segleft' = cfg.seg /\ segblocks' = <<>>
                       /\ over' = (over \/ FailsOver(FaultAt(1)))        \* the head query was repeated on the second address
                       /\ UNCHANGED <<phase, store, latest, noPath, rep, log, ctxdead>>
             ELSE /\ req' = 0 /\ b' = N /\ pc' = "fetch" /\ segleft' = cfg.seg /\ segblocks' = <<>>
                  /\ UNCHANGED <<phase, store, latest, noPath, rep, log, over, ctxdead>>
  /\ UNCHANGED cfg

(* One block of the walk: local test, else one request whose answer is decided by the fault plan. *)
Fetch ==
  /\ pc = "fetch" /\ UNCHANGED cfg
  /\ IF Has(b)
     THEN /\ segblocks' = Append(segblocks, b) /\ pc' = "next" /\ UNCHANGED <<req, store, latest, cached, noPath, rep, log, phase, b, segleft, over, ctxdead>>
     ELSE LET r == req + 1  k == IF ctxdead THEN "cancel" ELSE IF noPath THEN "s400" ELSE FaultAt(r) IN
          IF k = "ok" \/ k = "hookfail" \/ k = "hookcancel" \/ FailsOver(k)
          THEN /\ store' = store \cup {[cid |-> b, body |-> b]} /\ req' = r
               /\ over' = (over \/ FailsOver(k))          \* the request was repeated on the second address and answered there
               /\ segblocks' = Append(segblocks, b) /\ pc' = "next"
               /\ UNCHANGED <<latest, cached, noPath, rep, log, phase, b, segleft, ctxdead>>
          ELSE Fail(k)

(* the hook of the block fetched at request `at` calls FailSync; it takes effect when that segment ends *)
FailingHook == /\ ~Clean
               /\ \/ cfg.faults[phase].kind = "hookfail" /\ req >= cfg.faults[phase].at
                  \/ cfg.faults[phase].k2 = "hookfail" /\ req >= cfg.faults[phase].at + 1

(* the hook of the block fetched at request `at` cancels the caller's context *)
CancellingHook == ~Clean /\ cfg.faults[phase].kind = "hookcancel" /\ req >= cfg.faults[phase].at

(* After a block: continue the segment, or end the segment (hooks), or end the sync. *)
NextBlock ==
  /\ pc = "next" /\ UNCHANGED cfg
  /\ LET more == b - 1 >= 1 /\ b - 1 # latest /\ Within(b - 1)
         segEnds == cfg.seg > 0 /\ segleft = 1
     IN IF more /\ ~segEnds
        THEN /\ b' = b - 1 /\ segleft' = (IF cfg.seg > 0 THEN segleft - 1 ELSE 0) /\ pc' = "fetch"
             /\ UNCHANGED <<req, segblocks, store, latest, cached, noPath, rep, log, phase, over, ctxdead>>
        ELSE (* hooks of this segment run now *)
             IF FailingHook
             THEN /\ rep' = <<>>
                  /\ noPath' = noPath /\ UNCHANGED <<latest, store>>
                  /\ log' = Append(log, [result |-> "error", reported |-> rep \o segblocks, stored |-> StoredCids, latest |-> latest,
                                         events |-> IF cfg.trigger = "announce" THEN <<[cid |-> N, err |-> TRUE, count |-> 0]>> ELSE <<>>, noPath |-> noPath])
                  /\ cached' = (IF cfg.trigger = "announce" THEN FALSE ELSE cached)
                  /\ phase' = phase + 1 /\ pc' = "start" /\ b' = 0 /\ req' = 0 /\ segblocks' = <<>> /\ segleft' = 0 /\ UNCHANGED over /\ ctxdead' = FALSE
             ELSE IF more
             THEN /\ rep' = rep \o segblocks /\ segblocks' = <<>> /\ b' = b - 1 /\ segleft' = cfg.seg /\ pc' = "fetch"
                  /\ ctxdead' = (ctxdead \/ CancellingHook)
                  /\ UNCHANGED <<req, store, latest, cached, noPath, log, phase, over>>
             ELSE (* the sync succeeded *)
                  /\ latest' = N /\ UNCHANGED <<store, cached, noPath>>
                  /\ log' = Append(log, [result |-> "ok", reported |-> rep \o segblocks, stored |-> StoredCids, latest |-> N,
                                         events |-> <<[cid |-> N, err |-> FALSE, count |-> Len(rep \o segblocks)]>>, noPath |-> noPath])
                  /\ phase' = phase + 1 /\ pc' = IF phase + 1 > Len(cfg.faults) + 1 THEN "done" ELSE "start"
                  /\ b' = 0 /\ req' = 0 /\ segblocks' = <<>> /\ segleft' = 0 /\ rep' = <<>> /\ UNCHANGED over /\ ctxdead' = FALSE

Next == Start \/ Fetch \/ NextBlock
Spec == Init /\ [][Next]_vars

---------------------------------------------------------------------------
(* C02 *)
StoreSound == \A e \in store : e.body = e.cid
ReportedVerified == \A i \in 1..Len(log) : \A j \in 1..Len(log[i].reported) : log[i].reported[j] \in log[i].stored
(* C04, first sentence: a failed sync changes nothing durable *)
FailureIsClean ==
  \A i \in 1..Len(log) : log[i].result = "error" =>
     /\ log[i].latest = (IF i = 1 THEN 0 ELSE log[i - 1].latest)
     /\ (cfg.trigger = "explicit" => log[i].events = <<>>)
     /\ (cfg.trigger = "announce" => /\ Len(log[i].events) = (IF cfg.pend THEN 2 ELSE 1)       \* with a second announcement: one error each
                                     /\ \A e \in 1..Len(log[i].events) : log[i].events[e].err)
     /\ (i > 1 => log[i - 1].stored \subseteq log[i].stored)
(* C04, second sentence: once the publisher answers correctly again the next sync succeeds and ends
   where a fault-free run ends                                                                    *)
Converges == pc = "done" =>
  LET last == log[Len(log)] IN
    /\ last.result \in {"ok", "nothing", "dropped"}
    /\ last.latest = N /\ last.stored = {x \in 1..N : Within(x)}
AnnounceRetryPossible == (cfg.trigger = "announce" /\ pc = "start" /\ phase > 1 /\ log[phase - 1].result = "error") => ~cached

(* Legacy publishers: the client's switch to path-less URLs outlives the sync (the subscriber keeps the publisher's sync client),
   and it is made when the repeated request is answered with status 200 -- before the body is looked at.  So a sync probes
   (one request under the IPNI path, answered 404) exactly when it makes a request and no earlier sync's first request got a 200. *)
Status200(k) == k \notin {"s400", "s500", "s403", "s404", "reset", "stall", "cancel"}
MadeRequests(j) == log[j].result \notin {"dropped", "nothing"}
FirstReq200(j) == MadeRequests(j) /\ (j > Len(cfg.faults) \/ cfg.faults[j].at # 1 \/ Status200(cfg.faults[j].kind))
Probes(i) == IF cfg.mode = "legacy" /\ MadeRequests(i) /\ ~\E j \in 1..(i - 1) : FirstReq200(j) THEN 1 ELSE 0

ExportBehaviour == (EXPORT /\ pc = "done") =>
   Emit("c04_behaviours.ndjson", [cfg |-> cfg, syncs |-> [i \in 1..Len(log) |-> [probes |-> Probes(i)] @@ [log[i] EXCEPT !.stored = Cardinality(@)]]])
=============================================================================
