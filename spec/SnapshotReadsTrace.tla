------------------------- MODULE SnapshotReadsTrace -------------------------
(* Trace validation for C07: reads recorded from real reader goroutines that ran concurrently
   with refreshes / miss-fetches of a real ProviderCache are checked against the sequence of
   published snapshots, with the acceptance rule of SnapshotReads.tla (ListExplained /
   Explained): each read is served from ONE snapshot published inside the read's window, and
   per reader the snapshot index never decreases.

   Events (ndjson, $VERIF_TRACE):
     {"ev":"reset","n":k}                             a new cache with k providers (many behaviours, one JVM)
     {"ev":"pub","vis":[v1,..]}                       a publication (NONE=-1, 0 negative, version)
     {"ev":"list","r":i,"obs":[..],"lo":a,"hi":b}     List(): positive versions, 0 = not listed
     {"ev":"get","r":i,"p":k,"val":v,"lo":a,"hi":b}   Get(provider k): 0 = nil
   lo / hi are the number of publications the driver knew to be complete when the read started /
   returned; a publication may be visible one step before the driver counts it.                  *)
EXTENDS Integers, Sequences, FiniteSets, TLC, Json, IOUtils

Trace == ndJsonDeserialize(IOEnv.VERIF_TRACE)
NONE == -1
VARIABLES l, pubs, cur
vars == <<l, pubs, cur>>
Readers == 1..8

Pos(v) == IF v > 0 THEN v ELSE 0
Init == l = 1 /\ pubs = <<>> /\ cur = [r \in Readers |-> 1]
Ev == Trace[l]
Is(e) == l <= Len(Trace) /\ Ev.ev = e /\ l' = l + 1

Reset == Is("reset") /\ pubs' = <<[i \in 1..Ev.n |-> NONE]>> /\ cur' = [r \in Readers |-> 1]
Pub == Is("pub") /\ pubs' = Append(pubs, Ev.vis) /\ UNCHANGED cur

Window(r) == {k \in 1..Len(pubs) : k >= cur[r] /\ k >= Ev.lo + 1 /\ k <= Ev.hi + 2}
MinOf(S) == CHOOSE k \in S : \A j \in S : k <= j

ListMatches(k) == /\ Len(Ev.obs) = Len(pubs[k])
                  /\ \A i \in 1..Len(Ev.obs) : Pos(pubs[k][i]) = Ev.obs[i]
List == /\ Is("list")
        /\ LET S == {k \in Window(Ev.r) : ListMatches(k)} IN
           /\ S # {} /\ cur' = [cur EXCEPT ![Ev.r] = MinOf(S)]
        /\ UNCHANGED pubs
GetMatches(k) == Pos(pubs[k][Ev.p]) = Ev.val /\ pubs[k][Ev.p] # NONE
Get == /\ Is("get")
       /\ LET S == {k \in Window(Ev.r) : GetMatches(k)} IN
          /\ S # {} /\ cur' = [cur EXCEPT ![Ev.r] = MinOf(S)]
       /\ UNCHANGED pubs

Next == Reset \/ Pub \/ List \/ Get
Spec == Init /\ [][Next]_vars

(* Acceptance: every line was consumed. On rejection, `l` of the deepest state is the offending line. *)
Accepted == TLCGet("stats").diameter - 1 = Len(Trace)
=============================================================================
