--------------------------- MODULE SubscriberClose ---------------------------
(* C15 -- shutdown of dagsync.Subscriber (doClose) against everything that may still be running:
   explicit syncs, the announcement watcher and the goroutines it spawned, the event distributor,
   and other Close callers.  One action per step of the code:

     Closer c   enter (closeOnce: the first caller runs doClose, the others wait for it)
                c1 close(closing)      c2 expSyncClosed := TRUE     c3 expSyncWG.Wait()
                c4 receiver.Close()    c5 <-watchDone               c6 asyncWG.Wait()
                c7 close(inEvents)     c8 <-distDone (FIXED only)   return
     Watcher    receives an announcement and spawns a goroutine (asyncWG.Add) | sees the receiver closed:
                cancels the context of the spawned goroutines and exits (watchDone)
     G g        context cancelled before it started -> abandons | sync (block hook) -> send notification -> Done
     E e        refused when expSyncClosed | expSyncWG.Add -> sync (block hook) -> send notification -> Done
     D          takes a notification and forwards it to the listeners | inEvents closed and drained:
                closes the listener channels and exits (distDone)

   inEvents has capacity 1: a sender blocks while it is full; sending on it after close would panic.

   ORDER = "code" is the order above; ORDER = "events-first" closes inEvents before waiting for the
   announce-triggered syncs (a typical slip: TLC finds the send on a closed channel).
   FIXED = FALSE is the pinned doClose, which does not wait for the distributor.

   NESTED     explicit sync 1 starts explicit sync 2 (of another publisher) from inside its block hook and waits for it there
              (an application that reacts to an advertisement by syncing something else).  EXPMU = "released" is the code:
              expSyncMutex protects only the flag and the WaitGroup's Add; EXPMU = "held" keeps it locked for the rest of
              doClose (a deferred Unlock): the nested call then waits for a mutex whose holder waits for the outer sync --
              TLC reports the deadlock.
   R r        a listener registration (OnSyncFinished): select { hand the channel to the distributor | distDone: return
              a closed channel }.  REGSEL = "closing" is a plausible slip (falling back on the closing channel, which is
              closed at the START of doClose): a registration is then refused while notifications are still delivered.  *)
EXTENDS Integers, Sequences, FiniteSets, TLC

CONSTANTS Closers, NG, NE, FIXED, ORDER,
          NR,        \* listener registrations attempted at arbitrary moments
          REGSEL,    \* "distDone" (the code) | "closing"
          NESTED,    \* explicit sync 2 is called from the block hook of explicit sync 1
          EXPMU      \* "released" (the code) | "held"
Gs == 1..NG
Es == 1..NE
Rs == 1..NR

VARIABLES cpc, first, closing, expClosed, expWG, rcvClosed, watchDone, asyncWG, inEvents, inClosed, distDone, cancelled,
          wpc, spawned, gpc, epc, dpc, hooks, forwards, listenersClosed, closeReturned, panic, rpc
vars == <<cpc, first, closing, expClosed, expWG, rcvClosed, watchDone, asyncWG, inEvents, inClosed, distDone, cancelled,
          wpc, spawned, gpc, epc, dpc, hooks, forwards, listenersClosed, closeReturned, panic, rpc>>

Init == /\ cpc = [c \in Closers |-> "idle"] /\ first = 0 /\ closing = FALSE /\ expClosed = FALSE /\ expWG = 0
        /\ rcvClosed = FALSE /\ watchDone = FALSE /\ asyncWG = 0 /\ inEvents = 0 /\ inClosed = FALSE /\ distDone = FALSE
        /\ cancelled = FALSE /\ wpc = "next" /\ spawned = 0 /\ gpc = [g \in Gs |-> "unborn"] /\ epc = [e \in Es |-> "idle"]
        /\ dpc = "select" /\ hooks = 0 /\ forwards = 0 /\ listenersClosed = FALSE /\ closeReturned = FALSE /\ panic = FALSE
        /\ rpc = [r \in Rs |-> "idle"]

Steps == IF ORDER = "code" THEN <<"c1", "c2", "c3", "c4", "c5", "c6", "c7", "c8", "ret">>
         ELSE <<"c1", "c2", "c3", "c4", "c5", "c7", "c6", "c8", "ret">>
NextStep(s) == LET i == CHOOSE k \in 1..Len(Steps) : Steps[k] = s IN Steps[i + 1]
Goto(c, s) == cpc' = [cpc EXCEPT ![c] = s]

U(vs) == UNCHANGED vs /\ UNCHANGED rpc
CEnter(c) == /\ cpc[c] = "idle"
             /\ IF first = 0 THEN first' = c /\ Goto(c, "c1") ELSE UNCHANGED first /\ Goto(c, "wait")
             /\ U(<<closing, expClosed, expWG, rcvClosed, watchDone, asyncWG, inEvents, inClosed, distDone, cancelled, wpc, spawned, gpc, epc, dpc, hooks, forwards, listenersClosed, closeReturned, panic>>)
CWait(c) == /\ cpc[c] = "wait" /\ cpc[first] = "done"         \* sync.Once: later callers return when the first has finished
            /\ Goto(c, "done") /\ closeReturned' = TRUE
            /\ U(<<first, closing, expClosed, expWG, rcvClosed, watchDone, asyncWG, inEvents, inClosed, distDone, cancelled, wpc, spawned, gpc, epc, dpc, hooks, forwards, listenersClosed, panic>>)
CStep(c) ==
  /\ cpc[c] \in {"c1", "c2", "c3", "c4", "c5", "c6", "c7", "c8", "ret"}
  /\ CASE cpc[c] = "c1" -> closing' = TRUE /\ U(<<expClosed, rcvClosed, inClosed, closeReturned>>)
       [] cpc[c] = "c2" -> expClosed' = TRUE /\ U(<<closing, rcvClosed, inClosed, closeReturned>>)
       [] cpc[c] = "c3" -> expWG = 0 /\ U(<<closing, expClosed, rcvClosed, inClosed, closeReturned>>)
       [] cpc[c] = "c4" -> rcvClosed' = TRUE /\ U(<<closing, expClosed, inClosed, closeReturned>>)
       [] cpc[c] = "c5" -> watchDone /\ U(<<closing, expClosed, rcvClosed, inClosed, closeReturned>>)
       [] cpc[c] = "c6" -> asyncWG = 0 /\ U(<<closing, expClosed, rcvClosed, inClosed, closeReturned>>)
       [] cpc[c] = "c7" -> inClosed' = TRUE /\ U(<<closing, expClosed, rcvClosed, closeReturned>>)
       [] cpc[c] = "c8" -> (~FIXED \/ distDone) /\ U(<<closing, expClosed, rcvClosed, inClosed, closeReturned>>)
       [] cpc[c] = "ret" -> closeReturned' = TRUE /\ U(<<closing, expClosed, rcvClosed, inClosed>>)
  /\ Goto(c, IF cpc[c] = "ret" THEN "done" ELSE NextStep(cpc[c]))
  /\ U(<<first, expWG, watchDone, asyncWG, inEvents, distDone, cancelled, wpc, spawned, gpc, epc, dpc, hooks, forwards, listenersClosed, panic>>)

(* watcher *)
WSpawn == /\ wpc = "next" /\ ~rcvClosed /\ spawned < NG
          /\ spawned' = spawned + 1 /\ asyncWG' = asyncWG + 1 /\ gpc' = [gpc EXCEPT ![spawned + 1] = "start"]
          /\ U(<<cpc, first, closing, expClosed, expWG, rcvClosed, watchDone, inEvents, inClosed, distDone, cancelled, wpc, epc, dpc, hooks, forwards, listenersClosed, closeReturned, panic>>)
WExit == /\ wpc = "next" /\ rcvClosed /\ wpc' = "done" /\ cancelled' = TRUE /\ watchDone' = TRUE
         /\ U(<<cpc, first, closing, expClosed, expWG, rcvClosed, asyncWG, inEvents, inClosed, distDone, spawned, gpc, epc, dpc, hooks, forwards, listenersClosed, closeReturned, panic>>)

(* a send on inEvents: blocks while full, panics when closed *)
Send == IF inClosed THEN panic' = TRUE /\ UNCHANGED inEvents ELSE inEvents = 0 /\ inEvents' = 1 /\ UNCHANGED panic

GStart(g) == /\ gpc[g] = "start"
             /\ IF cancelled THEN gpc' = [gpc EXCEPT ![g] = "done"] /\ asyncWG' = asyncWG - 1 /\ UNCHANGED hooks
                ELSE gpc' = [gpc EXCEPT ![g] = "synced"] /\ hooks' = hooks + 1 /\ UNCHANGED asyncWG
             /\ U(<<cpc, first, closing, expClosed, expWG, rcvClosed, watchDone, inEvents, inClosed, distDone, cancelled, wpc, spawned, epc, dpc, forwards, listenersClosed, closeReturned, panic>>)
GSend(g) == /\ gpc[g] = "synced" /\ Send /\ gpc' = [gpc EXCEPT ![g] = "done"] /\ asyncWG' = asyncWG - 1
            /\ U(<<cpc, first, closing, expClosed, expWG, rcvClosed, watchDone, inClosed, distDone, cancelled, wpc, spawned, epc, dpc, hooks, forwards, listenersClosed, closeReturned>>)

(* expSyncMutex: taken by doClose at c2; released there (the code) or only when doClose ends (EXPMU = "held") *)
ExpMuHeld == EXPMU = "held" /\ first # 0 /\ cpc[first] \in {"c3", "c4", "c5", "c6", "c7", "c8", "ret"}
EStart(e) == /\ epc[e] = "idle" /\ ~ExpMuHeld
             /\ (NESTED /\ e = 2) => epc[1] = "hook"               \* called from the block hook of sync 1
             /\ IF expClosed THEN epc' = [epc EXCEPT ![e] = "refused"] /\ UNCHANGED <<expWG, hooks>>
                ELSE epc' = [epc EXCEPT ![e] = "hook"] /\ expWG' = expWG + 1 /\ hooks' = hooks + 1
             /\ U(<<cpc, first, closing, expClosed, rcvClosed, watchDone, asyncWG, inEvents, inClosed, distDone, cancelled, wpc, spawned, gpc, dpc, forwards, listenersClosed, closeReturned, panic>>)
(* the block hook returns: with NESTED, sync 1's hook has waited for the call it made *)
EHook(e) == /\ epc[e] = "hook"
            /\ (NESTED /\ e = 1 /\ NE >= 2) => epc[2] \in {"refused", "done"}
            /\ epc' = [epc EXCEPT ![e] = "synced"]
            /\ U(<<cpc, first, closing, expClosed, expWG, rcvClosed, watchDone, asyncWG, inEvents, inClosed, distDone, cancelled, wpc, spawned, gpc, dpc, hooks, forwards, listenersClosed, closeReturned, panic>>)
ESend(e) == /\ epc[e] = "synced" /\ Send /\ epc' = [epc EXCEPT ![e] = "done"] /\ expWG' = expWG - 1
            /\ U(<<cpc, first, closing, expClosed, rcvClosed, watchDone, asyncWG, inClosed, distDone, cancelled, wpc, spawned, gpc, dpc, hooks, forwards, listenersClosed, closeReturned>>)

DForward == /\ dpc = "select" /\ inEvents = 1 /\ inEvents' = 0 /\ forwards' = forwards + 1
            /\ U(<<cpc, first, closing, expClosed, expWG, rcvClosed, watchDone, asyncWG, inClosed, distDone, cancelled, wpc, spawned, gpc, epc, dpc, hooks, listenersClosed, closeReturned, panic>>)
DExit == /\ dpc = "select" /\ inEvents = 0 /\ inClosed /\ dpc' = "done" /\ listenersClosed' = TRUE /\ distDone' = TRUE
         /\ U(<<cpc, first, closing, expClosed, expWG, rcvClosed, watchDone, asyncWG, inEvents, inClosed, cancelled, wpc, spawned, gpc, epc, hooks, forwards, closeReturned, panic>>)

(* listener registrations *)
Others == <<cpc, first, closing, expClosed, expWG, rcvClosed, watchDone, asyncWG, inEvents, inClosed, distDone, cancelled,
            wpc, spawned, gpc, epc, dpc, hooks, forwards, listenersClosed, closeReturned, panic>>
RStart(r) == rpc[r] = "idle" /\ rpc' = [rpc EXCEPT ![r] = "wait"] /\ UNCHANGED Others
RAdd(r) == rpc[r] = "wait" /\ dpc = "select" /\ rpc' = [rpc EXCEPT ![r] = "added"] /\ UNCHANGED Others      \* the distributor takes the channel
RRefuse(r) == /\ rpc[r] = "wait" /\ (IF REGSEL = "distDone" THEN distDone ELSE closing)
              /\ rpc' = [rpc EXCEPT ![r] = IF distDone THEN "refused" ELSE "refused-early"] /\ UNCHANGED Others

AllDone == /\ \A c \in Closers : cpc[c] = "done" /\ wpc = "done" /\ dpc = "done"
           /\ \A r \in Rs : rpc[r] \in {"added", "refused", "refused-early"}
           /\ \A g \in Gs : gpc[g] \in {"unborn", "done"}
           /\ \A e \in Es : epc[e] \in {"refused", "done"} \/ (NESTED /\ e = 2 /\ epc[e] = "idle")      \* sync 1 never got to its hook
Finished == AllDone /\ UNCHANGED vars

Next == \/ \E c \in Closers : CEnter(c) \/ CWait(c) \/ CStep(c)
        \/ WSpawn \/ WExit \/ \E g \in Gs : GStart(g) \/ GSend(g)
        \/ \E e \in Es : EStart(e) \/ EHook(e) \/ ESend(e)
        \/ DForward \/ DExit \/ Finished
        \/ \E r \in Rs : RStart(r) \/ RAdd(r) \/ RRefuse(r)
Spec == Init /\ [][Next]_vars

(* C15 *)
NoPanic == ~panic
(* once a Close has returned: no sync is running, the distributor has delivered everything and closed the listeners *)
CloseIsFinal == closeReturned =>
   /\ \A g \in Gs : gpc[g] \in {"unborn", "done"} /\ \A e \in Es : epc[e] \in {"idle", "refused", "done"}
   /\ expWG = 0 /\ asyncWG = 0
   /\ distDone /\ listenersClosed /\ inEvents = 0
(* ... and nothing happens afterwards: no block hook, no notification *)
QuietAfterClose == [][closeReturned => (hooks' = hooks /\ forwards' = forwards)]_vars
(* C14: a registration is refused (gets a closed channel) only when the distributor has gone: nothing is delivered any more *)
RefusedOnlyWhenGone == \A r \in Rs : rpc[r] # "refused-early"
(* with deadlock checking on: every interleaving ends with all processes finished (no hang for any number of closers) *)
=============================================================================
