-------------------------------- MODULE FindAPI --------------------------------
(* C19 -- the find response helper (rwriter) and the find client.

   (1) Negotiation and request decoding, transcribed from rwriter.New: the Accept header values
       (each a comma-separated list of media types) are scanned in order -- ndjson sets nd, json sets
       okJson, */* sets nd := ~preferJson and okJson, an unparsable media type is a 400; then the
       resource type and key in the path are decoded (multihash in base58 or hex, CID, anything else
       400).  The outcome is err400 or a writer in JSON or NDJSON mode.
   (2) Writer protocol: any number of results, then Close: NDJSON = one line per result written
       as it comes; JSON = one document holding all results; no result at all = 404.
   (3) Client: 200 -> the results in the document, 404 -> an empty response without error.

   Laws: every request gets a mode its Accept header allows, or a 400; the mode is a function of
   the scan (TLC compares the transcription with the declarative acceptability conditions);
   Client(Serve(results)) = results for the JSON mode; empty <-> 404 <-> empty.                    *)
EXTENDS Integers, Sequences, FiniteSets, TLC, VerifIO

CONSTANTS MaxHeaders, MaxTypes, MaxResults, EXPORT
Media == {"json", "ndjson", "any", "other", "malformed", "jsonq"}      \* jsonq = application/json;q=0.9 (parameters are ignored)
Headers == UNION {[1..n -> UNION {[1..k -> Media] : k \in 1..MaxTypes}] : n \in 0..MaxHeaders}
PathKinds == {"mh-b58", "mh-hex", "cid", "other-type", "no-type", "bad-key", "not-a-multihash",
              "mh-b58-hexlike",    \* a base58 key that happens to consist of hex digits only (short identity multihashes give such keys): base58 is tried first
              "mh-b58-long",       \* an identity multihash of 100 bytes of data in base58 (a key of some 140 characters)
              "mh-hex-long",       \* an identity multihash of 70 bytes of data in hex (144 characters): a multihash is as long as its digest
              "double-slash",      \* /multihash//<key>: the empty segment is cleaned away
              "empty-path"}        \* request target without any path (absolute form "GET http://host HTTP/1.1")

(* scan one header value; state [nd, ok, err] *)
RECURSIVE ScanTypes(_, _, _, _)
ScanTypes(ts, i, st, prefer) ==
  IF i > Len(ts) \/ st.err \/ (st.nd /\ st.ok /\ i > 1) THEN st        \* "if nd && okJson { break }" is evaluated after each media type
  ELSE LET t == ts[i] IN
       IF t = "malformed" THEN [st EXCEPT !.err = TRUE]
       ELSE ScanTypes(ts, i + 1,
                      CASE t = "ndjson" -> [st EXCEPT !.nd = TRUE]
                        [] t \in {"json", "jsonq"} -> [st EXCEPT !.ok = TRUE]
                        [] t = "any" -> [st EXCEPT !.nd = ~prefer, !.ok = TRUE]
                        [] OTHER -> st, prefer)
RECURSIVE ScanHeaders(_, _, _, _)
ScanHeaders(hs, i, st, prefer) == IF i > Len(hs) \/ st.err THEN st ELSE ScanHeaders(hs, i + 1, ScanTypes(hs[i], 1, st, prefer), prefer)
Negotiate(hs, prefer) ==
  LET st == ScanHeaders(hs, 1, [nd |-> FALSE, ok |-> FALSE, err |-> FALSE], prefer) IN
  IF st.err THEN "err400"
  ELSE IF Len(hs) = 0 THEN (IF prefer THEN "json" ELSE "err400")
  ELSE IF ~st.ok /\ ~st.nd THEN "err400"
  ELSE IF st.nd THEN "ndjson" ELSE "json"
KeyOk(pk) == pk \in {"mh-b58", "mh-hex", "cid", "double-slash", "mh-b58-hexlike", "mh-b58-long", "mh-hex-long"}
Outcome(hs, prefer, pk) == LET n == Negotiate(hs, prefer) IN IF n = "err400" \/ ~KeyOk(pk) THEN "err400" ELSE n

Flat(hs) == UNION {{hs[i][j] : j \in 1..Len(hs[i])} : i \in 1..Len(hs)}
VARIABLES hs, prefer, pk, nres, stage
vars == <<hs, prefer, pk, nres, stage>>
Init == hs = <<>> /\ prefer \in BOOLEAN /\ pk \in PathKinds /\ nres \in 0..MaxResults /\ stage = 0
Pick == stage = 0 /\ stage' = 1 /\ hs' \in Headers /\ UNCHANGED <<prefer, pk, nres>>
Next == Pick
Spec == Init /\ [][Next]_vars
Complete == stage = 1
O == Outcome(hs, prefer, pk)

(* the mode chosen is one the client said it accepts *)
ModeAcceptable == Complete =>
  /\ (O = "ndjson" => (Flat(hs) \cap {"ndjson", "any"}) # {})
  /\ (O = "json" => ((Flat(hs) \cap {"json", "jsonq", "any"}) # {} \/ Len(hs) = 0))
(* nothing the client can accept, a bad key or resource type => 400, never a writer *)
Unsupported400 == Complete =>
  /\ ((Len(hs) > 0 /\ (Flat(hs) \cap {"json", "jsonq", "ndjson", "any"}) = {}) => O = "err400")
  /\ (~KeyOk(pk) => O = "err400")
  /\ ((Len(hs) = 0 /\ ~prefer) => O = "err400")
(* what goes over the wire, and what the client makes of it *)
Status == IF O = "err400" THEN 400 ELSE IF nres = 0 THEN 404 ELSE 200
ClientSees == IF O = "json" /\ nres > 0 THEN nres ELSE 0        \* number of results Client.Find returns (no error for 404)
(* ---- the client against whatever a server answers ----
   status x body: the whole document (with n results), the document cut part-way (the announced Content-Length not
   delivered, or a chunked response aborted), an empty body, bytes that are not JSON, and the empty JSON object.
   Find reports "not found" (an empty response, no error) for status 404 and for a whole document without results -- and
   for nothing else: a failed or cut-off response is an error, never an empty answer.                                 *)
Bodies == {"doc", "cut-short", "cut-chunked", "empty", "garbage", "empty-object"}
Answers == [status : {200, 404, 400, 500}, body : Bodies, n : 0..MaxResults]
ClientFind(a) ==
  IF a.status = 404 THEN [err |-> FALSE, n |-> 0]
  ELSE IF a.status # 200 THEN [err |-> TRUE, n |-> 0]
  ELSE CASE a.body = "doc" -> [err |-> FALSE, n |-> a.n]
         [] a.body = "empty-object" -> [err |-> FALSE, n |-> 0]
         [] OTHER -> [err |-> TRUE, n |-> 0]                        \* ReadAll fails, or the bytes do not parse
Whole(a) == a.body \in {"doc", "empty-object"}
ASSUME \A a \in Answers :
         LET o == ClientFind(a) IN
         /\ (~o.err /\ o.n = 0) => (a.status = 404 \/ (a.status = 200 /\ Whole(a) /\ (a.body = "empty-object" \/ a.n = 0)))
         /\ (a.status = 200 /\ a.body = "doc") => (~o.err /\ o.n = a.n)
         /\ (a.status = 200 /\ ~Whole(a)) => o.err
ASSUME EXPORT => \A a \in Answers : Emit("c19_client.ndjson", [a |-> a, out |-> ClientFind(a)])

ExportCase == (Complete /\ EXPORT) => Emit("c19_cases.ndjson", [hs |-> hs, prefer |-> prefer, pk |-> pk, nres |-> nres, out |-> O, status |-> Status])
=============================================================================
