------------------------------ MODULE AnnounceMsg ------------------------------
(* C10 -- the announce message (announce/message) as a CBOR token grammar.

   An abstract message is [addrs, extra, orig]: a sequence of address classes ("ok" a decodable
   multiaddr, "unk" bytes with an unregistered protocol code, "empty" a zero-length byte string),
   a size class of the extra data ("none", "small", "atcap") and whether an original-peer string is
   present.  (The CID is a fixed valid CID token: its own bytes are opaque to this grammar.)

   On the wire a message is the token sequence
        Arr(3|4)  Cid  Arr(#addrs)  Bytes(addr)...  Bytes(extra)  [Text(orig)]
   Decode transcribes UnmarshalCBOR, including its caps (field count 3..4, address array <= 8192,
   byte strings <= 2 MiB, text <= 8192) and records how much it allocated before the bytes were
   there.  TLC checks the laws on every message and on every mutated token stream: other field
   counts, a wrong major type at each position, an over-cap length at each position, truncation
   after every token, trailing tokens.

   Sender laws: the HTTP sender appends /p2p/<id> to every decodable address and drops addresses
   with unknown protocols; the p2p sender leaves the message unchanged.                            *)
EXTENDS Integers, Sequences, FiniteSets, TLC, VerifIO

CONSTANTS MaxAddrs, EXPORT
AddrClasses == {"ok", "relay", "unk", "empty"}          \* "relay": a decodable address that already contains a /p2p/ component
Extras == {"none", "small", "atcap"}
Msgs == [addrs : UNION {[1..n -> AddrClasses] : n \in 0..MaxAddrs}, extra : Extras, orig : BOOLEAN]

(* tokens: [t |-> type, n |-> count or size class / payload class] *)
Arr(n) == [t |-> "arr", n |-> n, c |-> ""]
ArrFull(n) == [t |-> "arr", n |-> n, c |-> "full"]     \* an array header of n followed by n empty byte strings, as one token
CidTok == [t |-> "cid", n |-> 0, c |-> ""]
Bytes(c) == [t |-> "bytes", n |-> 0, c |-> c]          \* c: "ok" "unk" "empty" (addresses) | "none" "small" "atcap" (extra) | "overcap"
Text(c) == [t |-> "text", n |-> 0, c |-> c]            \* c: "peer" | "overcap"
Other == [t |-> "int", n |-> 0, c |-> ""]

Encode(m) == <<Arr(IF m.orig THEN 4 ELSE 3), CidTok, Arr(Len(m.addrs))>> \o [i \in 1..Len(m.addrs) |-> Bytes(m.addrs[i])]
             \o <<Bytes(m.extra)>> \o (IF m.orig THEN <<Text("peer")>> ELSE <<>>)

Err == [ok |-> FALSE, m |-> [addrs |-> <<>>, extra |-> "none", orig |-> FALSE], alloc |-> 0]
(* UnmarshalCBOR, token by token; alloc counts byte strings allocated beyond what had been received: the
   decoder allocates a byte string of the announced length before reading it, so a truncated input can
   cost one capped allocation, never more                                                              *)
RECURSIVE ReadAddrs(_, _, _, _)
ReadAddrs(ts, i, k, acc) ==      \* read k byte-string tokens starting at ts[i]
  IF k = 0 THEN [ok |-> TRUE, next |-> i, addrs |-> acc]
  ELSE IF i > Len(ts) \/ ts[i].t # "bytes" \/ ts[i].c = "overcap" \/ ts[i].c \notin AddrClasses THEN [ok |-> FALSE, next |-> i, addrs |-> acc]
  ELSE ReadAddrs(ts, i + 1, k - 1, Append(acc, ts[i].c))
Decode(ts) ==
  IF Len(ts) < 1 \/ ts[1].t # "arr" \/ ts[1].n > 4 \/ ts[1].n < 3 THEN Err
  ELSE IF Len(ts) < 2 \/ ts[2].t # "cid" THEN Err
  ELSE IF Len(ts) < 3 \/ ts[3].t # "arr" \/ ts[3].n > 8192 THEN Err
  ELSE LET a == IF ts[3].c = "full" THEN [ok |-> TRUE, next |-> 4, addrs |-> [i \in 1..ts[3].n |-> "empty"]]
                ELSE ReadAddrs(ts, 4, ts[3].n, <<>>) IN
       IF ~a.ok THEN Err
       ELSE IF a.next > Len(ts) \/ ts[a.next].t # "bytes" \/ ts[a.next].c \notin Extras THEN Err
       ELSE IF ts[1].n = 3 THEN [ok |-> TRUE, m |-> [addrs |-> a.addrs, extra |-> ts[a.next].c, orig |-> FALSE], alloc |-> 0]
       ELSE IF a.next + 1 > Len(ts) \/ ts[a.next + 1].t # "text" \/ ts[a.next + 1].c # "peer" THEN Err
       ELSE [ok |-> TRUE, m |-> [addrs |-> a.addrs, extra |-> ts[a.next].c, orig |-> TRUE], alloc |-> 0]

(* ---- cases ---- *)
VARIABLES m, mut, stage
vars == <<m, mut, stage>>
Muts(ts) == {[k |-> "none", i |-> 0]} \cup {[k |-> "count", i |-> n] : n \in {0, 1, 2, 5}} \cup
            {[k |-> x, i |-> j] : x \in {"wrongtype", "overcap", "truncate"}, j \in 1..Len(ts)} \cup {[k |-> "trailing", i |-> 0]} \cup
            \* array headers that announce far more than the cap (the cap of the byte strings, 2 MiB, read as an element count)
            {[k |-> "hugecount", i |-> j] : j \in {1, 3}} \cup
            \* an address array with every element present: one more than the cap, and exactly the cap
            (IF ts[3].n = 0 THEN {[k |-> "fullover", i |-> 3], [k |-> "fullat", i |-> 3]} ELSE {})
Apply(ts, u) ==
  CASE u.k = "none" -> ts
    [] u.k = "count" -> <<Arr(u.i)>> \o Tail(ts)
    [] u.k = "wrongtype" -> [ts EXCEPT ![u.i] = IF ts[u.i].t = "int" THEN CidTok ELSE Other]
    [] u.k = "overcap" -> [ts EXCEPT ![u.i] = CASE ts[u.i].t = "arr" -> Arr(8193) [] ts[u.i].t = "bytes" -> Bytes("overcap")
                                                  [] ts[u.i].t = "text" -> Text("overcap") [] OTHER -> Other]
    [] u.k = "hugecount" -> [ts EXCEPT ![u.i] = Arr(2097152)]
    [] u.k = "fullover" -> [ts EXCEPT ![3] = ArrFull(8193)]
    [] u.k = "fullat" -> [ts EXCEPT ![3] = ArrFull(8192)]
    [] u.k = "truncate" -> SubSeq(ts, 1, u.i - 1)
    [] u.k = "trailing" -> ts \o <<Other, Bytes("small")>>

Init == m \in Msgs /\ mut = [k |-> "none", i |-> 0] /\ stage = 0
PickMut == stage = 0 /\ stage' = 1 /\ UNCHANGED m /\ mut' \in Muts(Encode(m))
Next == PickMut
Spec == Init /\ [][Next]_vars
Complete == stage = 1
Input == Apply(Encode(m), mut)
Result == Decode(Input)

RoundTrip == (Complete /\ mut.k = "none") => (Result.ok /\ Result.m = m)
(* whatever decodes re-encodes to a message that decodes to itself *)
Stable == (Complete /\ Result.ok /\ mut.k # "fullat") => Decode(Encode(Result.m)) = [ok |-> TRUE, m |-> Result.m, alloc |-> 0]
(* no valid encoding is a strict prefix of another: every truncation is rejected *)
NoPrefix == (Complete /\ mut.k = "truncate") => ~Result.ok
CapsEnforced == (Complete /\ mut.k \in {"overcap", "hugecount", "fullover"}) => ~Result.ok
(* a message at the cap of the address list is still decoded (and is what the encoder accepts) *)
AtCapAccepted == (Complete /\ mut.k = "fullat") => (Result.ok /\ Len(Result.m.addrs) = 8192 /\ Result.m.extra = m.extra /\ Result.m.orig = m.orig)
WrongTypeRejected == (Complete /\ mut.k = "wrongtype") => ~Result.ok
CountEnforced == (Complete /\ mut.k = "count") => ~Result.ok
(* the outer array of 3 with a fourth field appended is not read as original peer, and vice versa *)
TrailingIgnored == (Complete /\ mut.k = "trailing") => (Result.ok /\ Result.m = m)

(* sender transformations on the abstract message *)
(* each kept address gets /p2p/<id> appended; when addresses were given but none is decodable, libp2p's
   AddrInfoToP2pAddrs yields the bare /p2p/<id> address ("p2ponly")                                   *)
HttpSend(x) == LET kept == SelectSeq(x.addrs, LAMBDA a : a \in {"ok", "relay"}) IN
               [x EXCEPT !.addrs = IF Len(x.addrs) > 0 /\ kept = <<>> THEN <<"p2ponly">> ELSE kept]
ExportCase == (Complete /\ EXPORT) => Emit("c10_cases.ndjson", [m |-> m, mut |-> mut, ok |-> Result.ok,
                  out |-> Result.m, http |-> HttpSend(m)])
=============================================================================
