------------------------------- MODULE AddrConv -------------------------------
(* C20 -- publisher addresses: URL <-> multiaddr conversion (maurl) and the address-list helpers
   used on that path (mautil).

   (1) Path escaping.  A URL path travels through four functions: the escaping FromURL applies, the
       multiaddr http-path component's string-to-bytes (QueryUnescape) and bytes-to-string
       (QueryEscape), and the unescaping ToURL applies.  Each is given as a per-character-class map
       over escaped-string tokens: lit(c) a literal character, "plus" the literal '+', pct(c) a
       percent escape.  PIPE = "fixed": FromURL query-escapes and ToURL query-unescapes;
       PIPE = "pinned": PathEscape / PathUnescape, under which TLC derives "space comes back as +".
       A URL that comes from a parser may carry a hint how its path was spelled (RawPath: needless or lower-case escapes, an
       escaped slash); the conversion is a function of the path, not of its spelling -- the harness converts every URL in both forms.
   (2) URL structure.  [scheme, host kind, port, path] -> components -> URL; tls/http and https both
       denote https.
   (3) Address lists as set algebra over address classes (public / private / loopback / unspecified /
       link-local IPs, DNS names, localhost, each with or without an http(s) suffix, and nil).       *)
EXTENDS Integers, Sequences, FiniteSets, TLC, VerifIO

CONSTANTS MaxPath, MaxList, PIPE, EXPORT

CharClasses == {"alnum", "slash", "space", "plus", "percent", "question", "dash", "nonascii"}
Lit(c) == [k |-> "lit", c |-> c]
Pct(c) == [k |-> "pct", c |-> c]
PlusTok == [k |-> "plus", c |-> "plus"]
PathEsc(c) == IF c \in {"alnum", "dash"} THEN Lit(c) ELSE IF c = "plus" THEN PlusTok ELSE Pct(c)       \* url.PathEscape
QueryEsc(c) == IF c \in {"alnum", "dash"} THEN Lit(c) ELSE IF c = "space" THEN PlusTok ELSE Pct(c)     \* url.QueryEscape
PathUnesc(t) == IF t.k = "plus" THEN "plus" ELSE t.c                                                  \* url.PathUnescape
QueryUnesc(t) == IF t.k = "plus" THEN "space" ELSE t.c                                                \* url.QueryUnescape
ThroughChar(c) == LET e1 == IF PIPE = "fixed" THEN QueryEsc(c) ELSE PathEsc(c)       \* FromURL
                      b == QueryUnesc(e1)                                             \* http-path string -> bytes
                      e2 == QueryEsc(b)                                               \* bytes -> string (ValueForProtocol)
                  IN IF PIPE = "fixed" THEN QueryUnesc(e2) ELSE PathUnesc(e2)         \* ToURL
Through(path) == [i \in 1..Len(path) |-> ThroughChar(path[i])]

Schemes == {"http", "https"}
Hosts == {"ip4", "ip6", "dns"}
Ports == {"none", "0", "80", "65535"}
Paths == UNION {[1..n -> CharClasses] : n \in 0..MaxPath}
(* components of the multiaddr FromURL builds, and the URL ToURL rebuilds from components *)
Comps(u) == <<u.host>> \o (IF u.port = "none" THEN <<>> ELSE <<"tcp:" \o u.port>>) \o <<u.scheme>> \o (IF u.path = <<>> THEN <<>> ELSE <<"http-path">>)
(* "tls" anywhere before "http" makes it https -- also with a server-name component in between (/tls/sni/<name>/http) *)
SchemeOf(cs) == IF \E i \in 1..Len(cs) : cs[i] = "https" THEN "https"
                ELSE IF (\E i \in 1..Len(cs) : cs[i] = "http") /\ (\E i \in 1..Len(cs) : cs[i] = "tls") THEN "https" ELSE "http"
Back(u) == [scheme |-> SchemeOf(Comps(u)), host |-> u.host, port |-> u.port, path |-> Through(u.path)]

(* address classes for the list helpers: [ip, http] *)
IPClasses == {"pub4", "pub6", "priv4", "loop4", "loop6", "unspec4", "unspec6", "linklocal", "dns", "localhost", "nil"}
HTTPSuffix == {"none", "bare80", "http", "https", "tls-http",      \* bare80: plain TCP on the port the http form uses (a component-wise prefix of it)
               "p2p",                                             \* a libp2p address with the peer ID encapsulated: not HTTP
               "http-p2p", "https-path", "https-path-p2p"}        \* HTTP addresses with something after the http component: a path, an encapsulated peer ID
Addrs == {[ip |-> i, sfx |-> s] : i \in IPClasses \ {"nil"}, s \in HTTPSuffix} \cup {[ip |-> "nil", sfx |-> "none"]}
IsHTTP(a) == a.sfx \notin {"none", "bare80", "p2p"}
IsPublic(a) == a.ip \in {"pub4", "pub6", "dns"}
Sel(s, P(_)) == SelectSeq(s, P)
FindHTTP(l) == Sel(l, LAMBDA a : a.ip # "nil" /\ IsHTTP(a))
FilterPublic(l) == Sel(l, LAMBDA a : a.ip = "nil" \/ IsPublic(a))          \* nil entries are retained (pinned test requires it)
Clean(l) == Sel(l, LAMBDA a : a.ip # "nil")                                  \* as a multiset: CleanPeerAddrInfo reorders
(* MultiaddrsEqual: the two lists hold the same addresses the same number of times, in any order (lists of any length: the
   harness also compares lists of 9 to 260 entries that differ only in how often an address occurs, at the front or at the back)                            *)
Occ(l, a) == Cardinality({i \in 1..Len(l) : l[i] = a})
ListsEqual(l1, l2) == Len(l1) = Len(l2) /\ \A i \in 1..Len(l1) : Occ(l1, l1[i]) = Occ(l2, l1[i])

VARIABLES kind, u, l, stage
vars == <<kind, u, l, stage>>
AnyURL == [scheme |-> "http", host |-> "dns", port |-> "none", path |-> <<>>]
Init == kind \in {"url", "list"} /\ u = AnyURL /\ l = <<>> /\ stage = 0
Pick == /\ stage = 0 /\ stage' = 1 /\ UNCHANGED kind
        /\ IF kind = "url" THEN /\ u' \in [scheme : Schemes, host : Hosts, port : Ports, path : Paths] /\ UNCHANGED l
           ELSE /\ l' \in UNION {[1..n -> Addrs] : n \in 0..MaxList} /\ UNCHANGED u
Next == Pick
Spec == Init /\ [][Next]_vars
Complete == stage = 1

(* C20, first sentence *)
RoundTrip == (Complete /\ kind = "url") => Back(u) = u
(* helper laws *)
HTTPSelection == (Complete /\ kind = "list") => \A i \in 1..Len(FindHTTP(l)) : IsHTTP(FindHTTP(l)[i])
PublicOnly == (Complete /\ kind = "list") => \A i \in 1..Len(FilterPublic(l)) : FilterPublic(l)[i].ip \notin {"priv4", "loop4", "loop6", "unspec4", "unspec6", "linklocal", "localhost"}
KeepsPublic == (Complete /\ kind = "list") => \A i \in 1..Len(l) : IsPublic(l[i]) => \E j \in 1..Len(FilterPublic(l)) : FilterPublic(l)[j] = l[i]
ExportCase == (Complete /\ EXPORT) =>
   IF kind = "url" THEN Emit("c20_cases.ndjson", [kind |-> kind, u |-> u, l |-> <<>>, http |-> <<>>, pub |-> <<>>, clean |-> <<>>])
   ELSE Emit("c20_cases.ndjson", [kind |-> kind, u |-> AnyURL, l |-> l, http |-> FindHTTP(l), pub |-> FilterPublic(l), clean |-> Clean(l)])
=============================================================================
